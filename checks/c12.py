"""C12 — diff-based reports reconstruct the formatted text exactly.

A. make_diff: inductive step over the real MIR of the loop body, started at the loop head from an arbitrary state that satisfies
   the representation invariant; `diff::lines` is environment (an arbitrary valid alignment, one symbolic element per step).
B. ModifiedLines::from(Vec<Mismatch>), Display / FromStr round trip (token model of the formatter output).
C. json / checkstyle numbering, XmlEscaped per character."""
from common import *
from mirsym.intrinsics import str_expr, some, NONE
from mirsym.values import StrVal

RD = 'src/rustfmt_diff.rs'
LIM = 1 << 31


def str_sort():
    from mirsym.engine import StrSort
    return StrSort


def build(ctx):
    eng = ctx.engine('lib', loop_bound=12)
    ctx.bounds = {'script length': 'unbounded (inductive step from an arbitrary state under the invariant)', 'context_size': '0..3', 'line numbers': '< 2^31',
                  'ModifiedLines round trip': '<= 2 chunks of <= 2 lines', 'hunks for the emitters': '<= 4 lines of symbolic kinds'}
    ctx.outside = ['diff::lines itself (assumed to return a valid alignment of the two line sequences)', 'serde_json escaping', 'print_diff colouring',
                   'chunk lines containing \\r or \\n (str::lines would split them)', 'control characters in XML']
    ctx.assumptions = ['the edit script is a valid alignment: Left(a) is the next original line, Right(b) the next formatted line, Both(a,_) both',
                       'lines are uninterpreted values compared for equality']
    part_make_diff(ctx, eng)
    part_modified_lines(ctx, eng)
    part_emitters(ctx, eng)
    part_xml(ctx, eng)
    validate(ctx)


# ======================================================================================= A. make_diff

def part_make_diff(ctx, eng):
    md = eng.find('make_diff', free=True)
    fn = eng.get_fn(md)
    from mirsym.mirparse import block_parsed
    head = None
    for bb, blk in fn.blocks.items():
        _, term = block_parsed(blk)
        if term[0] == 'call' and term[2][0] == 'path' and re.search(r'IntoIter<diff::Result<&str>> as (std::iter::)?Iterator>::next$', term[2][1]):
            head = bb
    if head is None:
        raise Inconclusive('make_diff loop head not found')
    dl = eng.enum_variants('DiffLine')
    CTX_, EXP_, RES_ = dl.index('Context'), dl.index('Expected'), dl.index('Resulting')
    mf = [n for n, _ in eng.src.struct_fields('Mismatch', RD)]
    F_LN, F_LNO, F_LINES = mf.index('line_number'), mf.index('line_number_orig'), mf.index('lines')
    orig = z3.Function('orig_line', z3.BitVecSort(32), str_sort())
    fmt = z3.Function('fmt_line', z3.BitVecSort(32), str_sort())
    rp = make_replay(ctx)
    for c in range(0, 4):
        for qn in range(0, c + 1):
            for in_hunk in (False, True):
                st = State()
                ln, lno = z3.BitVec('ln', 32), z3.BitVec('lno', 32)
                lsm = z3.BitVec('lsm', 64)
                sf, so = z3.BitVec('open.start_f', 32), z3.BitVec('open.start_o', 32)
                eo, ef = z3.BitVec('open.end_o', 32), z3.BitVec('open.end_f', 32)
                q = [eng.fresh_str('q%d' % j) for j in range(qn)]
                inv = [z3.UGE(ln, 1), z3.UGE(lno, 1), z3.ULT(ln, LIM), z3.ULT(lno, LIM), z3.ULT(lsm, LIM)]
                qb = z3.BitVecVal(qn, 32)
                for j in range(qn):
                    inv.append(q[j].e == orig(lno - qb + j))
                    inv.append(q[j].e == fmt(ln - qb + j))
                inv += [z3.UGT(lno, qb), z3.UGT(ln, qb)]
                cb = z3.BitVecVal(c, 64)
                gap = z3.Extract(31, 0, lsm - cb)
                if in_hunk:
                    inv += [z3.ULE(so, eo), z3.ULE(sf, ef), z3.UGE(so, 1), z3.UGE(sf, 1)]
                    inv.append(z3.If(z3.ULT(lsm, cb), z3.And(z3.BoolVal(qn == 0), eo == lno, ef == ln),
                                     z3.And(eo == lno - gap, ef == ln - gap, z3.ULE(gap, lno - 1), z3.ULE(gap, ln - 1),
                                            z3.BoolVal(qn) == z3.BoolVal(qn) if False else (z3.If(z3.ULT(lsm - cb, cb), lsm - cb, cb) == qn))))
                    mism = Tup(place(mf, {F_LN: BV(sf, 'u32'), F_LNO: BV(so, 'u32'), F_LINES: Seq([])}), 'Mismatch')
                    results = Seq([Opaque('Mismatch', 'earlier')])
                else:
                    inv += [ln == lno, lsm == cb + z3.ZeroExt(32, lno), z3.If(z3.ULT(z3.ZeroExt(32, lno) - 1, cb), z3.ZeroExt(32, lno) - 1, cb) == qn]
                    mism = Tup(place(mf, {F_LN: bv_const(0, 'u32'), F_LNO: bv_const(0, 'u32'), F_LINES: Seq([])}), 'Mismatch')
                    results = Seq([])
                for a in inv:
                    st.assume(a)
                # the next script element (symbolic kind), tied to the two texts
                kd = z3.BitVec('elem.kind', 64)
                st.assume(z3.Or(kd == 0, kd == 1, kd == 2))
                a_l, b_l = eng.fresh_str('elem.a'), eng.fresh_str('elem.b')
                st.assume(z3.Implies(kd == 0, a_l.e == orig(lno)))
                st.assume(z3.Implies(kd == 2, b_l.e == fmt(ln)))
                st.assume(z3.Implies(kd == 1, z3.And(a_l.e == orig(lno), a_l.e == fmt(ln), b_l.e == a_l.e)))
                elem = Enum('DiffResult', kd, {0: Tup([a_l]), 1: Tup([a_l, b_l]), 2: Tup([b_l])})
                cell = eng.ref_to(st, Seq([elem]), True, 'script')
                it = Tup([cell, bv_const(0, 'usize')], 'OwnedIter')
                locs = {'line_number': BV(ln, 'u32'), 'line_number_orig': BV(lno, 'u32'), 'context_queue': Seq(q), 'lines_since_mismatch': BV(lsm, 'usize'),
                        'results': results, 'mismatch': mism, 'iter': it, 'context_size': bv_const(c, 'usize')}
                outs = ctx.check_outcomes(eng.run_from(md, head, locs, st), 'make_diff step')
                tag = 'make_diff/ctx%d/q%d/%s' % (c, qn, 'open-hunk' if in_hunk else 'no-hunk-yet')
                mv = [ln, lno, lsm, kd, sf, so, eo, ef]
                hint = [z3.ULT(ln, 40), z3.ULT(lno, 40), z3.ULT(lsm, 40)]
                for pi, o in enumerate(outs):
                    if o.kind == 'panic':
                        ctx.prop('%s/p%d/no-panic[%s]' % (tag, pi, str(o.info.get('msg'))[:30]), o.state.pc, z3.BoolVal(True), mv, rp, twin=False, hint=hint)
                        continue
                    if o.kind != 'ret':
                        continue
                    pc = o.state.pc
                    res = o.value
                    if not isinstance(res, Seq):
                        raise Inconclusive('make_diff result %r' % (res,))
                    hunks = list(res.items)
                    ln2 = eng.local_by_name(o.state, md, 'line_number').e
                    lno2 = eng.local_by_name(o.state, md, 'line_number_orig').e
                    lsm2 = eng.local_by_name(o.state, md, 'lines_since_mismatch').e
                    q2 = eng.local_by_name(o.state, md, 'context_queue').items
                    is_both = kd == 1
                    # counters advance with the script
                    ctx.prop('%s/p%d/counters-follow-the-script' % (tag, pi), pc,
                             z3.Not(z3.And(ln2 == ln + z3.If(kd == 0, z3.BitVecVal(0, 32), z3.BitVecVal(1, 32)), lno2 == lno + z3.If(kd == 2, z3.BitVecVal(0, 32), z3.BitVecVal(1, 32)))),
                             mv, rp, hint=hint)
                    # which hunks exist now
                    if not in_hunk:
                        ctx.prop('%s/p%d/report-empty-iff-no-change-so-far' % (tag, pi), pc, z3.BoolVal(len(hunks) == 0) != is_both, mv, rp, hint=hint)
                    else:
                        ctx.prop('%s/p%d/open-hunk-survives' % (tag, pi), pc, z3.BoolVal(len(hunks) not in (1, 2)), mv, rp, twin=False, hint=hint)
                    if not hunks:
                        # invariant for the still-empty report
                        post = z3.And(ln2 == lno2, lsm2 == cb + z3.ZeroExt(32, lno2), queue_ok(q2, orig, fmt, lno2, ln2),
                                      z3.If(z3.ULT(z3.ZeroExt(32, lno2) - 1, cb), z3.ZeroExt(32, lno2) - 1, cb) == len(q2))
                        ctx.prop('%s/p%d/invariant-re-established(no hunk)' % (tag, pi), pc, z3.Not(post), mv, rp, hint=hint)
                        continue
                    openh = hunks[-1]
                    o_sf, o_so = openh.items[F_LN].e, openh.items[F_LNO].e
                    added = openh.items[F_LINES].items
                    continued = in_hunk and len(hunks) == 1
                    if in_hunk and len(hunks) == 2:
                        old = hunks[0]
                        ctx.prop('%s/p%d/closed-hunk-is-left-untouched' % (tag, pi), pc,
                                 z3.Or(old.items[F_LN].e != sf, old.items[F_LNO].e != so, z3.BoolVal(len(old.items[F_LINES].items) != 0)), mv, rp, twin=False, hint=hint)
                        ctx.prop('%s/p%d/new-hunk-does-not-overlap-the-closed-one' % (tag, pi), pc, z3.Or(z3.ULT(o_so, eo), z3.ULT(o_sf, ef)), mv, rp, hint=hint)
                    if continued:
                        ctx.prop('%s/p%d/continued-hunk-keeps-its-start' % (tag, pi), pc, z3.Or(o_sf != sf, o_so != so), mv, rp, twin=False, hint=hint)
                        wo, wf = eo, ef
                    else:
                        wo, wf = o_so, o_sf
                        ctx.prop('%s/p%d/new-hunk-starts-at-a-real-line' % (tag, pi), pc, z3.Or(o_so == 0, o_sf == 0), mv, rp, twin=False, hint=hint)
                    # walk the lines added in this step
                    bad = []
                    last_kind = None
                    for ldl in added:
                        kc = ldl.concrete()
                        if kc is None:
                            raise Inconclusive('DiffLine with symbolic kind')
                        txt = str_expr(ldl.payloads[kc].items[0])
                        if kc == CTX_:
                            bad.append(z3.Or(txt != orig(wo), txt != fmt(wf)))
                            wo, wf = wo + 1, wf + 1
                        elif kc == RES_:
                            bad.append(txt != orig(wo))
                            wo = wo + 1
                        else:
                            bad.append(txt != fmt(wf))
                            wf = wf + 1
                        last_kind = kc
                    ctx.prop('%s/p%d/every-added-hunk-line-matches-both-texts-at-its-position' % (tag, pi), pc, z3.Or(bad) if bad else z3.BoolVal(False), mv, rp, hint=hint)
                    # coverage of the changed line
                    ctx.prop('%s/p%d/removed-line-recorded-as-Resulting' % (tag, pi), pc, z3.And(kd == 0, z3.BoolVal(last_kind != RES_)), mv, rp, twin=False, hint=hint)
                    ctx.prop('%s/p%d/added-line-recorded-as-Expected' % (tag, pi), pc, z3.And(kd == 2, z3.BoolVal(last_kind != EXP_)), mv, rp, twin=False, hint=hint)
                    # invariant for the open hunk: its walk ends where the invariant says
                    gap2 = z3.Extract(31, 0, lsm2 - cb)
                    post = z3.And(queue_ok(q2, orig, fmt, lno2, ln2),
                                  z3.If(z3.ULT(lsm2, cb), z3.And(z3.BoolVal(len(q2) == 0), wo == lno2, wf == ln2),
                                        z3.And(wo == lno2 - gap2, wf == ln2 - gap2, z3.If(z3.ULT(lsm2 - cb, cb), lsm2 - cb, cb) == len(q2))))
                    ctx.prop('%s/p%d/invariant-re-established(open hunk ends at the cursor)' % (tag, pi), pc, z3.Not(post), mv, rp, hint=hint)
    ctx.cover('cover/two-hunks-closer-than-twice-the-context', [z3.BoolVal(True)])


def place(names, d):
    return [d[i] for i in range(len(names))]


def queue_ok(q2, orig, fmt, lno2, ln2):
    n = len(q2)
    cs = [z3.UGT(lno2, n), z3.UGT(ln2, n)]
    for j, el in enumerate(q2):
        cs.append(str_expr(el) == orig(lno2 - n + j))
        cs.append(str_expr(el) == fmt(ln2 - n + j))
    return z3.And(cs)


def sym_hunk(eng, st, mf, dl, L, tag):
    """a Mismatch with L lines of symbolic kind and uninterpreted texts"""
    F_LN, F_LNO, F_LINES = mf.index('line_number'), mf.index('line_number_orig'), mf.index('lines')
    ln = z3.BitVec(tag + '.line_number', 32)
    lno = z3.BitVec(tag + '.line_number_orig', 32)
    st.assume(z3.And(z3.UGE(ln, 1), z3.ULT(ln, LIM), z3.UGE(lno, 1), z3.ULT(lno, LIM)))
    kinds, texts, lines = [], [], []
    for j in range(L):
        k = z3.BitVec('%s.l%d.kind' % (tag, j), 64)
        st.assume(z3.Or(k == 0, k == 1, k == 2))
        t = eng.fresh_str('%s.l%d.text' % (tag, j))
        kinds.append(k)
        texts.append(t)
        lines.append(Enum('DiffLine', k, {0: Tup([t]), 1: Tup([t]), 2: Tup([t])}))
    vals = [None] * 3
    vals[F_LN], vals[F_LNO], vals[F_LINES] = BV(ln, 'u32'), BV(lno, 'u32'), Seq(lines)
    return Tup(vals, 'Mismatch'), ln, lno, kinds, texts


def part_modified_lines(ctx, eng):
    import fmtmodel
    rp = make_replay(ctx)
    dl = eng.enum_variants('DiffLine')
    CTX_, EXP_, RES_ = dl.index('Context'), dl.index('Expected'), dl.index('Resulting')
    mf = [n for n, _ in eng.src.struct_fields('Mismatch', RD)]
    cf = [n for n, _ in eng.src.struct_fields('ModifiedChunk', RD)]
    C_LNO, C_REM, C_LINES = cf.index('line_number_orig'), cf.index('lines_removed'), cf.index('lines')
    frm = eng.find('from', self_ty='ModifiedLines', file=RD, trait='From')
    maxL = 3 if ctx.tier == 'quick' else 4
    for L in range(0, maxL + 1):
        st = State()
        h, ln, lno, kinds, texts = sym_hunk(eng, st, mf, dl, L, 'h')
        outs = ctx.check_outcomes(eng.run(frm, [Seq([h])], st), 'ModifiedLines::from')
        mv = [ln, lno] + kinds
        for pi, o in enumerate(outs):
            if o.kind != 'ret':
                ctx.prop('ModifiedLines::from/L%d/p%d/no-panic' % (L, pi), o.state.pc, z3.BoolVal(True), mv, rp, twin=False)
                continue
            chunks = o.value.items[0]
            ok_shape = isinstance(chunks, Seq) and len(chunks.items) == 1
            if not ok_shape:
                ctx.prop('ModifiedLines::from/L%d/p%d/one-chunk-per-hunk' % (L, pi), o.state.pc, z3.BoolVal(True), mv, rp, twin=False)
                continue
            ch = chunks.items[0]
            nrem = z3.Sum([z3.If(k == RES_, 1, 0) for k in kinds]) if kinds else z3.IntVal(0)
            ctx.prop('ModifiedLines::from/L%d/p%d/chunk-starts-at-the-hunks-original-line' % (L, pi), o.state.pc, ch.items[C_LNO].e != lno, mv, rp)
            nrem_bv = bvsum([z3.If(k == RES_, z3.BitVecVal(1, 32), z3.BitVecVal(0, 32)) for k in kinds])
            ctx.prop('ModifiedLines::from/L%d/p%d/lines_removed-counts-the-removed-lines' % (L, pi), o.state.pc, ch.items[C_REM].e != nrem_bv, mv, rp)
            got = ch.items[C_LINES].items
            # the chunk's lines are exactly the Expected texts, in order
            nexp = z3.Sum([z3.If(k == EXP_, 1, 0) for k in kinds]) if kinds else z3.IntVal(0)
            conds = [z3.IntVal(len(got)) != nexp]
            for gi, g in enumerate(got):
                alts = []
                for j in range(L):
                    prior = z3.Sum([z3.If(kinds[m] == EXP_, 1, 0) for m in range(j)]) if j else z3.IntVal(0)
                    alts.append(z3.And(kinds[j] == EXP_, prior == gi, str_expr(g) == texts[j].e))
                conds.append(z3.Not(z3.Or(alts)) if alts else z3.BoolVal(True))
            ctx.prop('ModifiedLines::from/L%d/p%d/chunk-lines-are-the-added-lines-in-order' % (L, pi), o.state.pc, z3.Or(conds), mv, rp)
    # ---- Display: the documented grammar "orig removed added\n" followed by the added lines, one per line
    disp = eng.find('fmt', self_ty='ModifiedLines', file=RD, trait='Display')
    eng.lenient = True
    eng.inline_only = [re.compile(r'src/rustfmt_diff\.rs')]
    fmtmodel.install(eng)

    def join_stub(eng_, st_, args, ci):
        seq = fmtmodel.deref(eng_, st_, args[0])
        return Tup([seq, fmtmodel.deref(eng_, st_, args[1])], 'Joined')
    eng.stub(r'::join::<|Join<.*>>::join$', join_stub, 'slice::join(sep) = token structure')
    for shape in ((0,), (1,), (2,), (0, 1), (2, 0)):
        st = State()
        chunks = []
        expect = []
        for ci_, nl in enumerate(shape):
            lno = BV(z3.BitVec('c%d.orig' % ci_, 32), 'u32')
            rem = BV(z3.BitVec('c%d.removed' % ci_, 32), 'u32')
            ls = [eng.fresh_str('c%d.line%d' % (ci_, j)) for j in range(nl)]
            vals = [None] * 3
            vals[C_LNO], vals[C_REM], vals[C_LINES] = lno, rem, Seq(ls)
            chunks.append(Tup(vals, 'ModifiedChunk'))
            expect.append((lno, rem, ls))
        ml = eng.ref_to(st, Tup([Seq(chunks)], 'ModifiedLines'), False)
        fref = eng.ref_to(st, Opaque('Formatter', 'f'), True)
        outs = ctx.check_outcomes(eng.run(disp, [ml, fref], st), 'ModifiedLines::fmt')
        for pi, o in enumerate(outs):
            if o.kind != 'ret':
                continue
            okret = o.value.discr == 0
            atoms = fmtmodel.output_atoms(o.state.trace)
            lines = split_lines(atoms)
            want = []
            for (lno, rem, ls) in expect:
                want.append(['num', lno, 'num', rem, 'len', len(ls)])
                for l_ in ls:
                    want.append(['str', l_])
            verdict = compare_lines(lines, want)
            ctx.prop('ModifiedLines::Display/shape%s/p%d/prints-header-then-one-line-per-added-line' % (''.join(map(str, shape)), pi), o.state.pc + [okret],
                     verdict, [], rp, twin=False, meta={'printed': repr(lines)[:300]})
    eng.stubs = []
    eng.lenient = False
    eng.inline_only = None


def bvsum(xs):
    r = z3.BitVecVal(0, 32)
    for x in xs:
        r = r + x
    return r


def split_lines(atoms):
    """atoms -> list of lines (each a list of atoms); '\n' inside literals and Joined values split lines"""
    lines = [[]]
    for a in atoms:
        if a[0] == 'lit':
            parts = a[1].split('\n')
            for i, ptxt in enumerate(parts):
                if i > 0:
                    lines.append([])
                if ptxt:
                    lines[-1].append(('lit', ptxt))
        else:
            v = a[1]
            if isinstance(v, Tup) and v.name == 'Joined':
                items = v.items[0].items
                sep = v.items[1]
                for i, it in enumerate(items):
                    if i > 0:
                        if isinstance(sep, StrVal) and sep.s == '\n':
                            lines.append([])
                        else:
                            lines[-1].append(('val', sep))
                    lines[-1].append(('val', it))
            else:
                lines[-1].append(a)
    if lines and lines[-1] == []:
        lines.pop()          # text ended with a newline
    return lines


def compare_lines(lines, want):
    """z3 Bool: True iff the printed lines differ from the wanted ones"""
    if len(lines) != len(want):
        return z3.BoolVal(True)
    diffs = []
    for got, w in zip(lines, want):
        if w[0] == 'str':
            if len(got) == 1 and got[0][0] == 'val' and isinstance(got[0][1], StrVal):
                diffs.append(str_expr(got[0][1]) != str_expr(w[1]))
            else:
                return z3.BoolVal(True)
        else:
            # header: num ' ' num ' ' len
            if len(got) != 5 or got[1] != ('lit', ' ') or got[3] != ('lit', ' '):
                return z3.BoolVal(True)
            a, b, c = got[0][1], got[2][1], got[4][1]
            if not (isinstance(a, BV) and isinstance(b, BV) and isinstance(c, BV)):
                return z3.BoolVal(True)
            diffs.append(a.e != w[1].e)
            diffs.append(b.e != w[3].e)
            diffs.append(c.e != z3.BitVecVal(w[5], c.e.size()))
    return z3.Or(diffs) if diffs else z3.BoolVal(False)


def part_emitters(ctx, eng):
    import fmtmodel
    rp = make_replay(ctx)
    dl = eng.enum_variants('DiffLine')
    CTX_, EXP_, RES_ = dl.index('Context'), dl.index('Expected'), dl.index('Resulting')
    mf = [n for n, _ in eng.src.struct_fields('Mismatch', RD)]
    eng.lenient = True
    eng.inline_only = [re.compile(r'src/emitter/(json|checkstyle)\.rs'), re.compile(r'output_checkstyle_file|add_misformatted_file')]
    fmtmodel.install(eng)

    def push_str(eng_, st_, args, ci):
        v = eng_.read_ref(st_, args[0])
        if not isinstance(v, Seq):
            raise Unsupported('push_str on %r' % (v,))
        eng_.write_ref(st_, args[0], Seq(v.items + (fmtmodel.deref(eng_, st_, args[1]),)))
        return UNIT
    eng.stub(r'String::push_str$', push_str, 'String::push_str (atom list)')

    from mirsym.engine import StrSort
    str_is_empty = z3.Function('str_is_empty', StrSort, z3.BoolSort())

    def flat_atoms(eng_, st_, v):
        """a text held as an atom list (line texts, characters, nested lists) -> flat list of atoms"""
        v = fmtmodel.deref(eng_, st_, v)
        if isinstance(v, Seq):
            out = []
            for x in v.items:
                out.extend(flat_atoms(eng_, st_, x))
            return out
        if isinstance(v, StrVal):
            if v.s is not None:
                return [('chr', ord(ch)) for ch in v.s]
            return [('txt', v)]
        if isinstance(v, BV) and v.concrete() is not None:
            return [('chr', v.concrete())]
        raise Unsupported('text atom %r' % (v,))

    def normal_atoms(eng_, st_, v):
        """... with the line texts dropped that the path has established to be empty"""
        out = []
        for a_ in flat_atoms(eng_, st_, v):
            if a_[0] == 'txt' and not eng_.feasible(st_, z3.Not(str_is_empty(str_expr(a_[1])))):
                continue
            out.append(a_)
        return out

    def join_stub(eng_, st_, args, ci):
        xs = fmtmodel.deref(eng_, st_, args[0])
        sep = fmtmodel.deref(eng_, st_, args[1])
        if not isinstance(xs, Seq):
            raise Unsupported('join over %r' % (xs,))
        out = []
        for i, x in enumerate(xs.items):
            if i:
                out.append(sep)
            out.append(fmtmodel.deref(eng_, st_, x))
        return Seq(out)
    eng.stub(r'<impl \[(std::string::)?String\]>::join::<&str>$|<impl \[&str\]>::join::<&str>$', join_stub, '[String]::join(sep) (atom list)')

    def is_empty_stub(eng_, st_, args, ci):
        v = fmtmodel.deref(eng_, st_, args[0])
        if not isinstance(v, Seq):
            return NotImplemented
        at = flat_atoms(eng_, st_, v)
        if any(a_[0] == 'chr' for a_ in at):
            return z3.BoolVal(False)
        return z3.And([str_is_empty(str_expr(a_[1])) for a_ in at]) if at else z3.BoolVal(True)
    eng.stub(r'(^|::)String::is_empty$|<impl str>::is_empty$', is_empty_stub, 'String::is_empty of an atom list = every line text in it is empty (uninterpreted predicate per text)')
    # ---- checkstyle: line= numbers
    ocf = eng.find('output_checkstyle_file', free=True)
    cs_ok = []
    maxL = 3 if ctx.tier == 'quick' else 4
    for L in range(0, maxL + 1):
        st = State()
        h, ln, lno, kinds, texts = sym_hunk(eng, st, mf, dl, L, 'h')
        for k in kinds:
            st.assume(k != CTX_)          # the emitters call make_diff with context 0: hunks have no context lines
        w = eng.ref_to(st, Opaque('Write', 'w'), True)
        fname = eng.ref_to(st, Enum('FileName', 1, {}), False)
        outs = ctx.check_outcomes(eng.run(ocf, [w, fname, Seq([h])], st), 'output_checkstyle_file')
        mv = [ln, lno] + kinds
        for pi, o in enumerate(outs):
            if o.kind != 'ret':
                continue
            okret = o.value.discr == 0
            errs = []
            for t in o.state.trace:
                if t[0] == 'write_fmt':
                    at = fmtmodel.atoms_of(t[1])
                    lits = ''.join(a[1] for a in at if a[0] == 'lit')
                    if '<error line=' in lits:
                        vals = [a[1] for a in at if a[0] == 'val']
                        errs.append(vals)
            nexp = z3.Sum([z3.If(k == EXP_, 1, 0) for k in kinds]) if kinds else z3.IntVal(0)
            conds = [z3.IntVal(len(errs)) != nexp]
            for gi, vals in enumerate(errs):
                if len(vals) != 2 or not isinstance(vals[0], BV):
                    conds.append(z3.BoolVal(True))
                    continue
                msg = vals[1]
                if isinstance(msg, Tup) and msg.items:
                    msg = msg.items[0]     # XmlEscaped(&message), snapshotted at write time
                alts = []
                for j in range(L):
                    prior = z3.Sum([z3.If(kinds[m] == EXP_, 1, 0) for m in range(j)]) if j else z3.IntVal(0)
                    alts.append(z3.And(kinds[j] == EXP_, prior == gi, vals[0].e == ln + gi, str_expr(msg) == texts[j].e if isinstance(msg, StrVal) else z3.BoolVal(False)))
                conds.append(z3.Not(z3.Or(alts)) if alts else z3.BoolVal(True))
            ctx.prop('checkstyle/L%d/p%d/one-error-per-added-line-numbered-by-its-formatted-line' % (L, pi), o.state.pc + [okret], z3.Or(conds), mv, rp, twin=False)
            cs_ok.append(z3.And(o.state.pc + [okret]))
    ctx.cover('cover/checkstyle-has-successful-paths', [z3.Or(cs_ok)])
    # ---- json: begin/end lines and texts
    amf = eng.find('add_misformatted_file', self_ty='JsonEmitter', file='src/emitter/json.rs')
    bf = [n for n, _ in eng.src.struct_fields('MismatchedBlock', 'src/emitter/json.rs')]
    for L in range(0, maxL + 1):
        st = State()
        h, ln, lno, kinds, texts = sym_hunk(eng, st, mf, dl, L, 'h')
        for k in kinds:
            st.assume(k != CTX_)
        selfref = eng.ref_to(st, Tup([Seq([])], 'JsonEmitter'), True)
        fname = eng.ref_to(st, Enum('FileName', 1, {}), False)
        outs = ctx.check_outcomes(eng.run(amf, [selfref, fname, Seq([h])], st), 'add_misformatted_file')
        mv = [ln, lno] + kinds
        for pi, o in enumerate(outs):
            if o.kind != 'ret':
                continue
            files = eng.read_ref(o.state, selfref).items[0].items
            if len(files) != 1:
                ctx.prop('json/L%d/p%d/one-file-record' % (L, pi), o.state.pc, z3.BoolVal(True), mv, rp, twin=False)
                continue
            blocks = files[0].items[1].items
            if len(blocks) != 1:
                ctx.prop('json/L%d/p%d/one-block-per-hunk' % (L, pi), o.state.pc, z3.BoolVal(True), mv, rp, twin=False)
                continue
            blk = dict(zip(bf, blocks[0].items))
            if os.environ.get('C12_DBG'): print('DBG', bf, repr(blocks[0])[:300])
            nrem = z3.Sum([z3.If(k == RES_, 1, 0) for k in kinds]) if kinds else z3.IntVal(0)
            nexp = z3.Sum([z3.If(k == EXP_, 1, 0) for k in kinds]) if kinds else z3.IntVal(0)
            ob, oe = blk['original_begin_line'].e, blk['original_end_line'].e
            eb, ee = blk['expected_begin_line'].e, blk['expected_end_line'].e
            nrem_bv = bvsum([z3.If(k == RES_, z3.BitVecVal(1, 32), z3.BitVecVal(0, 32)) for k in kinds])
            nexp_bv = bvsum([z3.If(k == EXP_, z3.BitVecVal(1, 32), z3.BitVecVal(0, 32)) for k in kinds])
            wrong = z3.Or(ob != lno, eb != ln,
                          oe != lno + z3.If(nrem_bv != 0, nrem_bv - 1, z3.BitVecVal(0, 32)),
                          ee != ln + z3.If(nexp_bv != 0, nexp_bv - 1, z3.BitVecVal(0, 32)))
            ctx.prop('json/L%d/p%d/begin-and-end-lines-delimit-the-removed-and-added-lines' % (L, pi), o.state.pc, wrong, mv, rp)
            for field, KIND in (('original', RES_), ('expected', EXP_)):
                txt = blk[field]
                items = txt.items if isinstance(txt, Seq) else None
                if items is None:
                    raise Inconclusive('json %s text is %r' % (field, txt))
                # atoms alternate: text, '\n'
                conds = []
                n_k = z3.Sum([z3.If(k == KIND, 1, 0) for k in kinds]) if kinds else z3.IntVal(0)
                regular = len(items) % 2 == 0 and all(isinstance(items[2 * g + 1], BV) and items[2 * g + 1].concrete() == 10 and isinstance(items[2 * g], StrVal) for g in range(len(items) // 2))
                if not regular:
                    # built some other way (join, nested pieces): compare the atom lists, line texts that the path knows to be empty dropped.  Two lists
                    # that differ denote different texts for some line contents (every other line text can be chosen non-empty and distinct).
                    got = normal_atoms(eng, o.state, txt)
                    per = []
                    live = [(o.state.fork(), [])]
                    for j in range(L):
                        nxt = []
                        for (s1, acc) in live:
                            p_ = kinds[j] == KIND
                            t_ok, f_ok = eng.feasible(s1, p_), eng.feasible(s1, z3.Not(p_))
                            if t_ok and f_ok:
                                s2 = s1.fork()
                                s2.assume(z3.Not(p_))
                                s1.assume(p_)
                                nxt.append((s1, acc + [j]))
                                nxt.append((s2, acc))
                            elif t_ok:
                                nxt.append((s1, acc + [j]))
                            else:
                                nxt.append((s1, acc))
                        live = nxt
                    for (s1, js) in live:
                        want = []
                        for j in js:
                            if eng.feasible(s1, z3.Not(str_is_empty(texts[j].e))):
                                want.append(('txt', texts[j]))
                            want.append(('chr', 10))
                        same = len(got) == len(want) and all(g[0] == w_[0] and (g[1] == w_[1] if g[0] == 'chr' else str_expr(g[1]).eq(w_[1].e)) for g, w_ in zip(got, want))
                        per.append(z3.And(z3.And(s1.pc) if s1.pc else z3.BoolVal(True), z3.BoolVal(not same)))
                    conds.append(z3.Or(per) if per else z3.BoolVal(False))
                elif len(items) % 2 != 0:
                    conds.append(z3.BoolVal(True))
                else:
                    conds.append(z3.IntVal(len(items) // 2) != n_k)
                    for gi in range(len(items) // 2):
                        tx, nl = items[2 * gi], items[2 * gi + 1]
                        if not (isinstance(nl, BV) and nl.concrete() == 10 and isinstance(tx, StrVal)):
                            conds.append(z3.BoolVal(True))
                            continue
                        alts = []
                        for j in range(L):
                            prior = z3.Sum([z3.If(kinds[m] == KIND, 1, 0) for m in range(j)]) if j else z3.IntVal(0)
                            alts.append(z3.And(kinds[j] == KIND, prior == gi, str_expr(tx) == texts[j].e))
                        conds.append(z3.Not(z3.Or(alts)) if alts else z3.BoolVal(True))
                ctx.prop('json/L%d/p%d/%s-text-is-the-%s-lines-each-newline-terminated' % (L, pi, field, 'removed' if KIND == RES_ else 'added'), o.state.pc, z3.Or(conds), mv, rp)
    eng.stubs = []
    eng.lenient = False
    eng.inline_only = None


def part_xml(ctx, eng):
    import fmtmodel
    rp = make_replay(ctx)
    xf = eng.find('fmt', self_ty='XmlEscaped', file='src/emitter/checkstyle/xml.rs', trait='Display')
    eng.lenient = True
    eng.inline_only = [re.compile(r'checkstyle/xml\.rs')]
    fmtmodel.install(eng)
    c = BV(z3.BitVec('c', 32), 'char')

    def chars_stub(eng_, st_, args, ci):
        cell = eng_.ref_to(st_, Seq([c]), True, 'chars')
        return Tup([cell, bv_const(0, 'usize')], 'OwnedIter')
    eng.stub(r'<impl str>::chars$', chars_stub, 'str::chars over a one-character string (per-character step)')

    def chars_next(eng_, st_, args, ci):
        it = eng_.read_ref(st_, args[0])
        cell, pos = it.items
        seq = eng_.read_ref(st_, cell)
        pp = pos.concrete()
        if pp >= len(seq.items):
            return NONE
        eng_.write_ref(st_, args[0], Tup([cell, bv_const(pp + 1, 'usize')], 'OwnedIter'))
        return some(seq.items[pp])
    eng.stub(r'^<(std::str::)?Chars<.*> as (std::iter::)?Iterator>::next$', chars_next, 'Chars::next')
    st = State()
    st.assume(z3.And(z3.ULE(c.e, 0x10FFFF), z3.Or(z3.ULT(c.e, 0xD800), z3.UGT(c.e, 0xDFFF))))
    selfref = eng.ref_to(st, Tup([StrVal(e=z3.Const('xml.input', str_sort()))], 'XmlEscaped'), False)
    fref = eng.ref_to(st, Opaque('Formatter', 'f'), True)
    outs = ctx.check_outcomes(eng.run(xf, [selfref, fref], st), 'XmlEscaped::fmt')
    xml_ok = []
    ENT = {ord('<'): '&lt;', ord('>'): '&gt;', ord('"'): '&quot;', ord("'"): '&apos;', ord('&'): '&amp;'}
    for pi, o in enumerate(outs):
        if o.kind != 'ret':
            continue
        okret = o.value.discr == 0
        atoms = fmtmodel.output_atoms(o.state.trace)
        # expected: entity literal for a special, the character itself otherwise
        if len(atoms) == 1 and atoms[0][0] == 'lit':
            lit = atoms[0][1]
            cands = [k for k, v in ENT.items() if v == lit]
            viol = z3.BoolVal(True) if not cands else c.e != cands[0]
        elif len(atoms) == 1 and atoms[0][0] == 'val' and isinstance(atoms[0][1], BV):
            viol = z3.Or(atoms[0][1].e != c.e, z3.Or([c.e == k for k in ENT]))
        else:
            viol = z3.BoolVal(True)
        ctx.prop('XmlEscaped/p%d/special-characters-become-their-entity-and-nothing-else-changes' % pi, o.state.pc + [okret], viol, [c.e], rp, meta={'atoms': repr(atoms)[:200]}, twin=False)
        xml_ok.append(z3.And(o.state.pc + [okret]))
    ctx.cover('cover/xml-escape-has-successful-paths', [z3.Or(xml_ok)])
    eng.stubs = []
    eng.lenient = False
    eng.inline_only = None


# ----------------------------------------------------------------------------- native: independent recomputation on small texts

def native_findings(limit_len=5):
    import itertools
    rp = Replayer()
    findings = []
    n = 0
    try:
        for k, variant in [(k_, v_) for k_ in range(0, limit_len + 1) for v_ in (0, 1)]:
            for script in itertools.product('LRB', repeat=k):
                if not (set(script) & set('LB')) or not (set(script) & set('RB')):
                    continue      # an empty text has no final newline: diff::lines then reports a phantom line (outside the native oracle)
                o_lines, f_lines = [], []
                for i, ch in enumerate(script):
                    if ch == 'L':
                        o_lines.append('old%d' % i)
                    elif ch == 'R' and variant == 1:
                        f_lines.append('' if i % 2 == 0 else 'n%d' % i)      # empty added lines next to non-empty ones
                    elif ch == 'R':
                        f_lines.append(['a < b', 'new<%d>' % i, '', 'x & y', 'say "hi"', "it's", 'p -> q'][(i + k) % 7])
                    else:
                        o_lines.append('same%d' % i)
                        f_lines.append('same%d' % i)
                orig = ''.join(x + '\n' for x in o_lines)
                fmt = ''.join(x + '\n' for x in f_lines)
                # the diff crate's line model: pieces between '\n' (a final newline yields a last empty piece on both sides)
                o_lines, f_lines = orig.split('\n'), fmt.split('\n')
                for c in (0, 1, 3):
                    n += 1
                    resp = rp.call({'op': 'make_diff', 'original': orig, 'formatted': fmt, 'context': c})
                    if 'hunks' not in resp:
                        findings.append('make_diff panics on %r -> %r ctx %d: %s' % (o_lines, f_lines, c, resp.get('panic')))
                        continue
                    hunks = resp['hunks']
                    if (len(hunks) == 0) != (o_lines == f_lines):
                        findings.append('emptiness: %r -> %r ctx %d gives %d hunks' % (o_lines, f_lines, c, len(hunks)))
                    prev_o = prev_f = 0
                    for (lnf, lno, lines) in hunks:
                        o, f = lno, lnf
                        if o <= prev_o - 0 and prev_o and o < prev_o or (prev_f and f < prev_f):
                            findings.append('overlapping hunks for %r -> %r ctx %d' % (o_lines, f_lines, c))
                        for (kind, txt) in lines:
                            okk = True
                            if kind in (0, 2):
                                okk = okk and 1 <= o <= len(o_lines) and o_lines[o - 1] == txt
                            if kind in (0, 1):
                                okk = okk and 1 <= f <= len(f_lines) and f_lines[f - 1] == txt
                            if not okk:
                                findings.append('hunk line (%d,%r) inconsistent at orig %d / fmt %d for %r -> %r ctx %d' % (kind, txt, o, f, o_lines, f_lines, c))
                                break
                            if kind in (0, 2):
                                o += 1
                            if kind in (0, 1):
                                f += 1
                        prev_o, prev_f = o, f
                ml = rp.call({'op': 'modified_lines', 'original': orig, 'formatted': fmt})
                out = list(o_lines)
                shift = 0
                for (lno, rem, ls) in ml['chunks']:
                    out[lno - 1 + shift: lno - 1 + shift + rem] = ls
                    shift += len(ls) - rem
                if out != f_lines:
                    findings.append('modified-lines chunks do not rebuild the formatted text: %r -> %r chunks %r' % (o_lines, f_lines, ml['chunks']))
                if ml['reparsed'] != ml['chunks']:
                    findings.append('modified-lines does not survive print/parse: %r printed %r reparsed %r' % (ml['chunks'], ml['printed'], ml['reparsed']))
                js = json.loads(rp.call({'op': 'emit_pair', 'mode': 'json', 'original': orig, 'formatted': fmt})['out'])
                blocks = js[0]['mismatches'] if js else []
                for b in blocks:
                    exp = ''.join(x + '\n' for x in f_lines[b['expected_begin_line'] - 1: b['expected_begin_line'] - 1 + b['expected'].count('\n')])
                    org = ''.join(x + '\n' for x in o_lines[b['original_begin_line'] - 1: b['original_begin_line'] - 1 + b['original'].count('\n')])
                    if exp != b['expected'] or org != b['original']:
                        findings.append('json block %r does not match the texts %r -> %r' % (b, o_lines, f_lines))
                    if b['expected'] and b['expected_end_line'] != b['expected_begin_line'] + b['expected'].count('\n') - 1:
                        findings.append('json expected_end_line wrong: %r' % (b,))
                # independent of the blocks' own line counts: applying the blocks to the original text rebuilds the formatted text
                rebuilt = list(o_lines)
                shift = 0
                for b in blocks:
                    rem = b['original'].count('\n')
                    add = b['expected'].split('\n')[:-1]
                    at = b['original_begin_line'] - 1 + shift
                    rebuilt[at:at + rem] = add
                    shift += len(add) - rem
                if rebuilt != f_lines:
                    findings.append('json blocks applied to %r give %r, the formatted text is %r' % (o_lines, rebuilt, f_lines))
                xml = rp.call({'op': 'emit_pair', 'mode': 'checkstyle', 'original': orig, 'formatted': fmt})['out']
                try:
                    import xml.etree.ElementTree as ET
                    ET.fromstring(xml)
                except Exception as e:
                    findings.append('checkstyle document is not well-formed XML (%s) for formatted lines %r' % (e, f_lines))
                n_added = sum(1 for (_, _, lines_) in rp.call({'op': 'make_diff', 'original': orig, 'formatted': fmt, 'context': 0}).get('hunks', []) for (kind_, _) in lines_ if kind_ == 1)
                n_err = len(re.findall(r'<error line="', xml))
                if n_err != n_added:
                    findings.append('checkstyle reports %d errors for %d added lines (%r -> %r)' % (n_err, n_added, o_lines, f_lines))
                for m in re.finditer(r'<error line="(\d+)" severity="warning" message="Should be `([^"]*)`" />', xml):
                    li = int(m.group(1))
                    msg = m.group(2).replace('&lt;', '<').replace('&gt;', '>').replace('&quot;', '"').replace('&apos;', "'").replace('&amp;', '&')
                    if not (1 <= li <= len(f_lines) and f_lines[li - 1] == msg):
                        findings.append('checkstyle line %d message %r is not formatted line %d of %r' % (li, msg, li, f_lines))
                if len(findings) > 6:
                    return findings, n
    finally:
        rp.close()
    return findings, n


def make_replay(ctx):
    cache = {}

    def replay(model, r):
        if 'f' not in cache:
            cache['f'] = native_findings(5)
        f, n = cache['f']
        return {'reproduced': bool(f), 'detail': f[:4], 'pairs_tried': n}
    return replay


def validate(ctx):
    f, n = native_findings(4)
    ctx.validated += n
    ctx.validation_detail.append({'pairs': n, 'native_findings_on_this_tree': f[:3]})


if __name__ == '__main__':
    main_wrapper('C12', build)
