#!/bin/bash
# usage: benign_batch.sh <PROP> <worktree> <first_dst_index>  -- confirm OUT/1..3 of a sub-agent worktree, store as benign/<PROP>-<k>, run the owning check (must exit 0)
P=$1; WT=$2; K=$3
for n in 1 2 3; do
  [ -f $WT/OUT/$n/patch.diff ] || continue
  r=$(/verif/tools/benign_confirm.sh $WT $n | tail -1)
  if [ "$r" != "CONFIRMED" ]; then echo "$P OUT/$n: $r"; continue; fi
  D=/verif/benign/$P-$K
  mkdir -p $D
  cp $WT/OUT/$n/patch.diff $WT/OUT/$n/notes.md $D/
  tail -2 $WT/OUT/$n/confirm.log > $D/confirmation.txt
  /verif/tools/benign_run.sh $P-$K quick | head -3
  K=$((K+1))
done
