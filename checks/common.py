"""Check framework: MIR dump cache, obligations, known findings, native replay, evidence, exit codes.

Exit codes: 0 held within bounds (KNOWN-FINDING lines allowed); 1 VIOLATION (replayed, unlisted);
2 INCONCLUSIVE (kernel not found, unsupported MIR, encoder/real mismatch, unwinding assertion,
solver timeout/error/disagreement, unreplayed counterexample)."""
import fcntl
import hashlib
import json
import os
import random
import re
import shutil
import subprocess
import sys
import time


def _crash_is_inconclusive(tp, val, tb):
    """an uncaught exception anywhere (imports included) is a failure of the machinery, not a verdict: exit 2, never 1"""
    import traceback as _tb
    _tb.print_exception(tp, val, tb)
    pid = os.path.splitext(os.path.basename(sys.argv[0] or 'check'))[0].upper()
    print('INCONCLUSIVE property=%s internal error %s: %s' % (pid, tp.__name__, val), flush=True)
    sys.stdout.flush()
    sys.stderr.flush()
    os._exit(2)


sys.excepthook = _crash_is_inconclusive
import traceback

import z3

VERIF = os.path.dirname(os.path.dirname(os.path.abspath(__file__)))
sys.path.insert(0, VERIF)
from mirsym.engine import Engine, State, Unsupported, Outcome, Budget  # noqa
from mirsym.values import *  # noqa
from mirsym import smt  # noqa

# portable SMT-LIB: z3 prints `(and)`, `(or)`, `(+ x)` for empty / unary n-ary applications, which cvc5 rejects
_z3_And, _z3_Or, _z3_Sum = z3.And, z3.Or, z3.Sum


def _flat(args):
    if len(args) == 1 and isinstance(args[0], (list, tuple)):
        return list(args[0])
    return list(args)


def _portable_and(*args):
    a = _flat(args)
    if not a:
        return z3.BoolVal(True)
    if len(a) == 1:
        return a[0] if z3.is_expr(a[0]) else z3.BoolVal(bool(a[0]))
    return _z3_And(*a)


def _portable_or(*args):
    a = _flat(args)
    if not a:
        return z3.BoolVal(False)
    if len(a) == 1:
        return a[0] if z3.is_expr(a[0]) else z3.BoolVal(bool(a[0]))
    return _z3_Or(*a)


def _portable_sum(*args):
    a = _flat(args)
    if not a:
        return z3.IntVal(0)
    if len(a) == 1:
        return a[0]
    return _z3_Sum(*a)


z3.And, z3.Or, z3.Sum = _portable_and, _portable_or, _portable_sum

REPO = os.environ.get('VERIF_REPO', '/repo')
BUILD = os.path.join(VERIF, 'build')
GUARD = 'rust_lang_rustfmt_verif'
RUSTFLAGS = '--cfg ' + GUARD


class Inconclusive(Exception):
    pass


def log(*a):
    print(*a, flush=True)


# ----------------------------------------------------------------------------- build products

def tree_hash():
    h = hashlib.sha256()
    paths = []
    for root in ('src', 'config_proc_macro/src'):
        for dp, dn, fns in os.walk(os.path.join(REPO, root)):
            dn.sort()
            for fn in sorted(fns):
                paths.append(os.path.join(dp, fn))
    for fn in ('Cargo.toml', 'Cargo.lock', 'build.rs', 'rust-toolchain', 'config_proc_macro/Cargo.toml'):
        paths.append(os.path.join(REPO, fn))
    for p in paths:
        try:
            with open(p, 'rb') as f:
                data = f.read()
        except OSError:
            continue
        h.update(os.path.relpath(p, REPO).encode())
        h.update(b'\0')
        h.update(data)
        h.update(b'\0')
    return h.hexdigest()[:20]


class Lock:
    def __init__(self, name):
        os.makedirs(BUILD, exist_ok=True)
        self.path = os.path.join(BUILD, name + '.lock')

    def __enter__(self):
        self.f = open(self.path, 'w')
        fcntl.flock(self.f, fcntl.LOCK_EX)
        return self

    def __exit__(self, *a):
        fcntl.flock(self.f, fcntl.LOCK_UN)
        self.f.close()


def cargo_env():
    env = dict(os.environ)
    env['CARGO_NET_OFFLINE'] = 'true'
    env['CARGO_TARGET_DIR'] = os.path.join(BUILD, 'target')
    env['RUSTFLAGS'] = RUSTFLAGS
    env.pop('RUSTC_WRAPPER', None)
    return env


MIR_KINDS = {
    'lib': ['--lib'],
    'rustfmt': ['--bin', 'rustfmt'],
    'cargo-fmt': ['--bin', 'cargo-fmt'],
    'format-diff': ['--bin', 'rustfmt-format-diff'],
}


def ensure_mir(kind='lib'):
    """MIR text of the current working tree of /repo (regenerated whenever the tree changes)."""
    th = tree_hash()
    d = os.path.join(BUILD, 'mir', th)
    out = os.path.join(d, kind + '.s.mir')
    if os.path.exists(out) and os.path.getsize(out) > 1000:
        return out, th
    with Lock('cargo'):
        if os.path.exists(out) and os.path.getsize(out) > 1000:
            return out, th
        os.makedirs(d, exist_ok=True)
        t = time.time()
        cmd = ['cargo', 'rustc', '--offline'] + MIR_KINDS[kind] + ['--', '-Zunpretty=mir', '-Zmir-include-spans=on', '-C', 'debug-assertions=off',
                                                                  '-C', 'overflow-checks=on', '--cfg', 'verif_nonce_%s_%d' % (th, int(time.time()))]
        p = subprocess.run(cmd, cwd=REPO, env=cargo_env(), capture_output=True, text=True)
        if p.returncode != 0 or len(p.stdout) < 1000:
            raise Inconclusive('MIR dump failed for %s: %s' % (kind, p.stderr[-2000:]))
        with open(out + '.tmp', 'w') as f:
            f.write(p.stdout)
        os.rename(out + '.tmp', out)
        log('[mir] dumped %s for tree %s in %.1fs (%d lines)' % (kind, th, time.time() - t, p.stdout.count('\n')))
        # keep at most 3 trees
        root = os.path.join(BUILD, 'mir')
        ds = sorted((os.path.getmtime(os.path.join(root, x)), x) for x in os.listdir(root))
        for _, x in ds[:-8]:
            shutil.rmtree(os.path.join(root, x), ignore_errors=True)
    return out, th


_sysroot = None


def sysroot():
    global _sysroot
    if _sysroot is None:
        _sysroot = subprocess.run(['rustc', '--print', 'sysroot'], cwd=REPO, capture_output=True, text=True).stdout.strip()
    return _sysroot


def run_env():
    env = dict(os.environ)
    env['LD_LIBRARY_PATH'] = os.path.join(sysroot(), 'lib') + ':' + env.get('LD_LIBRARY_PATH', '')
    return env


def ensure_replay(release=False):
    """Build /verif/replay (path dependency on /repo, hooks on). Returns path of the binary."""
    with Lock('cargo'):
        cmd = ['cargo', 'build', '--offline'] + (['--release'] if release else [])
        p = subprocess.run(cmd, cwd=os.path.join(VERIF, 'replay'), env=cargo_env(), capture_output=True, text=True)
        if p.returncode != 0:
            raise Inconclusive('replay crate build failed: %s' % p.stderr[-3000:])
    return os.path.join(BUILD, 'target', 'release' if release else 'debug', 'vreplay')


def ensure_bins():
    """Build the real binaries of /repo's working tree (rustfmt, cargo-fmt, rustfmt-format-diff)."""
    with Lock('cargo'):
        p = subprocess.run(['cargo', 'build', '--offline', '--bins'], cwd=REPO, env=cargo_env(), capture_output=True, text=True)
        if p.returncode != 0:
            raise Inconclusive('building /repo binaries failed: %s' % p.stderr[-3000:])
    return os.path.join(BUILD, 'target', 'debug')


class Replayer:
    def __init__(self, release=False):
        self.bin = ensure_replay(release)
        self.p = subprocess.Popen([self.bin], stdin=subprocess.PIPE, stdout=subprocess.PIPE, stderr=subprocess.DEVNULL,
                                  text=True, env=run_env())

    def call(self, req):
        self.p.stdin.write(json.dumps(req) + '\n')
        self.p.stdin.flush()
        line = self.p.stdout.readline()
        if not line:
            raise Inconclusive('replay driver died on %r' % (req,))
        return json.loads(line)

    def close(self):
        try:
            self.p.stdin.close()
            self.p.wait(timeout=5)
        except Exception:
            self.p.kill()


# ----------------------------------------------------------------------------- known findings

def load_known():
    p = os.path.join(VERIF, 'known_findings.json')
    if not os.path.exists(p):
        return []
    return json.load(open(p))['findings']


# ----------------------------------------------------------------------------- check context

class Ctx:
    def __init__(self, pid, tier, seed, level='model_checking'):
        self.pid = pid
        self.tier = tier
        self.seed = seed
        self.level = level
        self.rng = random.Random(seed)
        self.t0 = time.time()
        self.obls = []
        self.known = [k for k in load_known() if k['property'] == pid]
        self.open_keys = {k['key'] for k in self.known if k.get('status') == 'open'}
        self.engines = {}
        self.assumptions = []
        self.outside = []
        self.bounds = {}
        self.validated = 0
        self.validation_detail = []
        self.samples = []
        self.notes = []
        self.violations = []
        self.known_hits = []
        self.inconclusive = []
        self._replayer = None
        self.env_extra = []
        self.paths = 0
        self.tree = None
        self.outdir = os.path.join(VERIF, 'out', pid)
        os.makedirs(self.outdir, exist_ok=True)

    # -- engines
    def engine(self, kind='lib', **kw):
        if kind not in self.engines:
            kinds = kind if isinstance(kind, tuple) else (kind,)
            paths = []
            for k in kinds:
                path, th = ensure_mir(k)
                paths.append(path)
            self.tree = th
            t = time.time()
            self.engines[kind] = Engine(paths, repo=REPO, **kw)
            log('[%s] engine over %s MIR of tree %s loaded in %.1fs' % (self.pid, kind, th, time.time() - t))
        return self.engines[kind]

    def replayer(self):
        if self._replayer is None:
            self._replayer = Replayer()
        return self._replayer

    # -- obligations
    def prop(self, name, assumptions, violation, model_vars=(), replay=None, classes=(), meta=None, twin=True, hint=None):
        """Property obligation: assumptions ∧ violation must be unsat (outside the open known-finding classes)."""
        open_classes = [(k, p) for (k, p) in classes if k in self.open_keys]
        main = list(assumptions) + [violation] + [z3.Not(p) for (_, p) in open_classes]
        m = dict(meta or {})
        m.update({'kind': 'prop', 'replay': replay})
        self.obls.append(smt.Obligation(name, main, 'unsat', m, list(model_vars), model_hint=hint))
        if twin:
            self.obls.append(smt.Obligation(name + '#reach', list(assumptions), 'sat', {'kind': 'twin', 'of': name}))
        for k, p in open_classes:
            self.obls.append(smt.Obligation(name + '#known:' + k, list(assumptions) + [violation, p], 'sat',
                                            {'kind': 'known', 'key': k, 'replay': replay, 'of': name}, list(model_vars), model_hint=hint))

    def cover(self, name, assertions, model_vars=()):
        self.obls.append(smt.Obligation(name, list(assertions), 'sat', {'kind': 'cover'}, list(model_vars)))

    def check_outcomes(self, outs, what, allow_panic=False):
        """Unwinding assertions and unexpected outcome kinds are inconclusive, never 'held'."""
        self.paths += len(outs)
        for o in outs:
            if o.kind == 'unwind':
                raise Inconclusive('unwinding assertion failed in %s: loop bound reached at %s' % (what, o.info))
            if o.kind == 'panic' and not allow_panic:
                pass
        return outs

    # -- finish
    def finish(self):
        eng_stats = {k: e.stats for k, e in self.engines.items()}
        smtdir = os.path.join(BUILD, 'smt', self.pid + '-' + self.tier)
        t = time.time()
        results = smt.discharge(self.obls, smtdir, tier=self.tier)
        solver_wall = time.time() - t
        n_prop = n_disch = 0
        twins_ok = set()
        exit_code = 0
        lines = []
        for r in results:
            kind = r.ob.meta.get('kind')
            if kind == 'twin':
                if r.verdict == 'sat':
                    twins_ok.add(r.ob.meta['of'])
                elif r.verdict == 'unsat':
                    self.inconclusive.append('vacuous: %s unreachable (assumptions unsatisfiable)' % r.ob.meta['of'])
                else:
                    self.inconclusive.append('twin %s: %s %s' % (r.ob.name, r.verdict, r.detail))
            elif kind == 'cover':
                if r.verdict != 'sat':
                    self.inconclusive.append('cover witness %s not reachable: %s %s' % (r.ob.name, r.verdict, r.detail))
            elif kind == 'prop':
                n_prop += 1
                if r.verdict == 'unsat':
                    n_disch += 1
                elif r.verdict == 'sat':
                    self._handle_cex(r)
                else:
                    self.inconclusive.append('%s: solver %s %s' % (r.ob.name, r.verdict, r.detail))
            elif kind == 'known':
                if r.verdict == 'sat':
                    self._handle_known(r)
                elif r.verdict == 'unsat':
                    log('NOTE: known finding %s is no longer derivable (%s)' % (r.ob.meta['key'], r.ob.name))
                else:
                    self.inconclusive.append('%s: solver %s %s' % (r.ob.name, r.verdict, r.detail))
        reported = set()
        for kh in self.known_hits:
            if kh['key'] in reported:
                continue
            reported.add(kh['key'])
            what = next((k['what'] for k in self.known if k['key'] == kh['key']), kh['key'])
            log('KNOWN-FINDING: property=%s %s [%s]' % (self.pid, what, kh['key']))
        for v in self.violations:
            log('VIOLATION property=%s replay=%s' % (self.pid, v['path']))
        for m in self.inconclusive[:20]:
            log('INCONCLUSIVE property=%s %s' % (self.pid, m))
        if self.violations:
            exit_code = 1
        elif self.inconclusive:
            exit_code = 2
        # evidence
        samples = []
        for r in results:
            if r.ob.meta.get('kind') == 'prop' and len(samples) < 6:
                samples.append({'obligation': r.ob.name, 'verdict': r.verdict, 'solver': r.solver, 'smt2_bytes': r.size,
                                'solver_s': round(r.time, 3), 'cross': {k: list(v) for k, v in r.cross.items()}})
        samples += self.samples[:6]
        fns = {}
        intr = {}
        unint = {}
        blocks = 0
        sat_calls = 0
        sat_time = 0.0
        for k, st in eng_stats.items():
            fns.update(st['fns_executed'])
            for a, b in st['intrinsics_used'].items():
                intr[a] = intr.get(a, 0) + b
            for a, b in st['calls_uninterpreted'].items():
                unint[a] = unint.get(a, 0) + b
            blocks += st['blocks']
            sat_calls += st['sat_calls']
            sat_time += st['sat_time']
        nontrivial = len({r.ob.name for r in results if r.ob.meta.get('kind') == 'prop' and r.ob.name in twins_ok})
        cov = {
            'obligations': n_prop,
            'discharged': n_disch,
            'evaluations': len(results),
            'distinct_nontrivial': nontrivial,
            'rule': 'one evaluation = one SMT query discharged by an external solver process; an obligation is non-trivial '
                    'if its reachability twin (same path condition and assumptions, property dropped) is satisfiable; '
                    'obligations are distinct by name (kernel, path, clause)',
            'states': max(1, self.paths),
            'transitions': max(1, blocks),
            'traces_validated_against_impl': self.validated,
            'samples': samples or [{'note': 'no obligations'}],
            'checker_cmd': 'cvc5 --lang smt2 | z3-new | /usr/bin/z3 on SMT-LIB2 files under build/smt/%s-%s (tier %s: %s)' % (
                self.pid, self.tier, self.tier, 'first definite answer' if self.tier == 'quick' else 'cvc5 decides, z3-new and z3 4.8 cross-check (all obligations up to 400, else a fixed sample of 400; a different answer or an (error line is inconclusive)'),
            'trusted_base': ['rustc -Zunpretty=mir printer (pinned nightly)', 'mirsym MIR executor (validated per kernel against the real code, see traces_validated_against_impl)',
                             'cvc5 1.0 / z3 5.1 / z3 4.8.12'] + ['summary: ' + k for k in sorted(intr)] + ['uninterpreted: ' + k for k in sorted(unint)] + self.env_extra,
            'functions_encoded': [{'fn': k, 'mir_fingerprint': v} for k, v in sorted(fns.items())],
            'bounds': self.bounds,
            'outside_claim': self.outside,
            'queries': len(results),
            'solver_wall_s': round(solver_wall, 2),
            'solver_cpu_s': round(sum(r.time for r in results), 2),
            'feasibility_queries': sat_calls,
            'feasibility_s': round(sat_time, 2),
            'paths': self.paths,
            'vacuity_witnesses': {'reach_twins_sat': len(twins_ok), 'covers': sum(1 for r in results if r.ob.meta.get('kind') == 'cover' and r.verdict == 'sat')},
            'validation': self.validation_detail[:10],
            'known_findings_rederived': sorted(reported),
            'tree': self.tree,
            'exhaustive': False,
            'explanation': 'bounded symbolic execution of the MIR of the listed functions; every obligation is decided by an SMT solver over all values within the stated bounds',
            'notes': self.notes,
        }
        ev = {
            'property_id': self.pid,
            'tier': self.tier,
            'seed': self.seed,
            'level': self.level,
            'coverage': cov,
            'assumptions': self.assumptions,
            'wall_s': round(time.time() - self.t0, 2),
            'violations': len(self.violations),
        }
        os.makedirs(os.path.join(VERIF, 'evidence'), exist_ok=True)
        with open(os.path.join(VERIF, 'evidence', self.pid + '.json'), 'w') as f:
            json.dump(ev, f, indent=1, default=str)
        if self._replayer:
            self._replayer.close()
        log('[%s] tier=%s obligations=%d discharged=%d queries=%d paths=%d validated=%d wall=%.1fs exit=%d' % (
            self.pid, self.tier, n_prop, n_disch, len(results), self.paths, self.validated, time.time() - self.t0, exit_code))
        return exit_code

    def _handle_cex(self, r):
        rp = r.ob.meta.get('replay')
        if rp is None:
            self.inconclusive.append('%s: counterexample without replay function: %r' % (r.ob.name, r.model))
            return
        try:
            res = rp(r.model or {}, r)
        except Inconclusive as e:
            self.inconclusive.append('%s: replay inconclusive: %s' % (r.ob.name, e))
            return
        except Exception as e:
            self.inconclusive.append('%s: replay raised %s: %s' % (r.ob.name, type(e).__name__, e))
            return
        if res and res.get('reproduced'):
            n = len(self.violations)
            path = os.path.join(self.outdir, 'cex-%d.json' % n)
            with open(path, 'w') as f:
                json.dump({'property': self.pid, 'obligation': r.ob.name, 'model': r.model, 'replay': res}, f, indent=1, default=str)
            self.violations.append({'path': path, 'ob': r.ob.name})
        else:
            self.inconclusive.append('%s: counterexample did not reproduce natively (encoding or summary wrong?): model=%r detail=%r' % (
                r.ob.name, r.model, res))

    def _handle_known(self, r):
        rp = r.ob.meta.get('replay')
        ok = True
        if rp is not None:
            try:
                res = rp(r.model or {}, r)
                ok = bool(res and res.get('reproduced'))
            except Exception as e:
                ok = False
                res = str(e)
            if not ok:
                self.inconclusive.append('%s: known finding did not replay: %r' % (r.ob.name, res))
                return
        self.known_hits.append({'key': r.ob.meta['key'], 'ob': r.ob.name, 'model': r.model})


def main_wrapper(pid, build, level='model_checking'):
    import argparse
    ap = argparse.ArgumentParser()
    ap.add_argument('--tier', default=os.environ.get('VERIF_TIER', 'quick'))
    args, _ = ap.parse_known_args()
    seed = int(os.environ.get('VERIF_SEED', '0') or 0)
    ctx = Ctx(pid, args.tier, seed, level)
    try:
        build(ctx)
        code = ctx.finish()
    except (Inconclusive, Unsupported, KeyError) as e:
        log('INCONCLUSIVE property=%s %s: %s' % (pid, type(e).__name__, e))
        traceback.print_exc()
        write_failure_evidence(ctx, str(e))
        code = 2
    except SystemExit:
        raise
    except BaseException as e:      # a crash of the machinery is never a verdict: exit 2, not 1
        log('INCONCLUSIVE property=%s internal error %s: %s' % (pid, type(e).__name__, e))
        traceback.print_exc()
        write_failure_evidence(ctx, 'internal error %s: %s' % (type(e).__name__, e))
        code = 2
    sys.exit(code)


def write_failure_evidence(ctx, msg):
    ev = {'property_id': ctx.pid, 'tier': ctx.tier, 'seed': ctx.seed, 'level': 'other',
          'coverage': {'explanation': 'check did not complete: ' + msg, 'evaluations': 0, 'distinct_nontrivial': 0},
          'wall_s': round(time.time() - ctx.t0, 2), 'violations': 0}
    os.makedirs(os.path.join(VERIF, 'evidence'), exist_ok=True)
    with open(os.path.join(VERIF, 'evidence', ctx.pid + '.json'), 'w') as f:
        json.dump(ev, f, indent=1)
