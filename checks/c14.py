"""C14 — configuration precedence: width heuristics vs max_width, user-override clamp, style-edition precedence,
deprecated aliases, config file name order, per-file config in multi-file runs."""
from common import *
from mirsym.config import make_config, config_layout, config_value, config_was_set
import binmodel

WIDTHS = ['fn_call_width', 'attr_fn_like_width', 'struct_lit_width', 'struct_variant_width', 'array_width', 'chain_width',
          'single_line_if_else_max_width', 'single_line_let_else_max_width']
DOC_DEFAULT = {'fn_call_width': 60, 'attr_fn_like_width': 70, 'struct_lit_width': 18, 'struct_variant_width': 35, 'array_width': 60, 'chain_width': 60,
               'single_line_if_else_max_width': 50, 'single_line_let_else_max_width': 50}
CT = 'src/config/config_type.rs'


def build(ctx):
    eng = ctx.engine('lib')
    hi = 1000 if ctx.tier == 'quick' else 10000
    ctx.bounds = {'max_width': '20..=%d' % hi, 'user width overrides': 'arbitrary usize', 'heuristics mode': 'all three', 'f32': 'bit-exact IEEE (z3/cvc5 FP theory)',
                  'config files per directory': 'both names, each file / other / absent / io error', 'input files': '0..2'}
    ctx.outside = ['walking up the directory tree and home/config-dir fallbacks', 'TOML and getopts parsing', '--print-config round trip through the toml crate',
                   'that each option value has the same effect whatever its source']
    ctx.assumptions = ['Config::default_with_style_edition(se) is uninterpreted and observed', 'eprintln! ignored', 'fs::metadata / Path::join / canonicalize are stubs with symbolic outcomes']
    lay = config_layout(eng)
    hv = eng.enum_variants('Heuristics')
    rp = replay_cli(ctx)

    # ------------------------------------------------------------------ 1. set_heuristics / set_width_heuristics
    sh = eng.find('set_heuristics', self_ty='Config', file=CT)
    eng.ignored.append(re.compile(r'_eprint|Arguments::|Argument::|UnsafeArg::|fmt::rt::'))
    eng.merge_closure_calls = True
    st = State()
    cfgref, cv = make_config(eng, st)
    mw = cv['max_width'].e
    st.assume(z3.And(z3.UGE(mw, 20), z3.ULE(mw, hi)))
    mode = cv['use_small_heuristics']
    pre_vals = {w: cv[w].e for w in WIDTHS}
    pre_set = {w: config_was_set(eng, st, cfgref, w) for w in WIDTHS}
    mv = [mw, mode.discr] + [pre_vals[w] for w in WIDTHS] + [pre_set[w] for w in WIDTHS]
    outs = ctx.check_outcomes(eng.run(sh, [cfgref], st), 'set_heuristics')
    log('[C14] set_heuristics: %d paths' % len(outs))
    for w in WIDTHS:
        vio_clamp, vio_max, vio_le, vio_doc, vio_off = [], [], [], [], []
        for o in outs:
            if o.kind != 'ret':
                continue
            pc = z3.And(o.state.pc) if o.state.pc else z3.BoolVal(True)
            after = config_value(eng, o.state, cfgref, w).e
            was = pre_set[w]
            vio_clamp.append(z3.And(pc, was, after != z3.If(z3.UGT(pre_vals[w], mw), mw, pre_vals[w])))
            vio_max.append(z3.And(pc, z3.Not(was), mode.discr == hv.index('Max'), after != mw))
            vio_le.append(z3.And(pc, z3.Not(was), mode.discr == hv.index('Default'), z3.UGT(after, mw)))
            vio_doc.append(z3.And(pc, z3.Not(was), mode.discr == hv.index('Default'), z3.ULE(mw, 100), after != DOC_DEFAULT[w]))
            vio_off.append(z3.And(pc, z3.Not(was), mode.discr == hv.index('Off'), z3.UGT(after, mw)))
        ctx.prop('heuristics/%s/user-override-clamped-to-max_width' % w, [], z3.Or(vio_clamp), mv, rp, twin=False)
        ctx.prop('heuristics/%s/Max=>max_width' % w, [], z3.Or(vio_max), mv, rp, twin=False)
        ctx.prop('heuristics/%s/Default=>documented-default-up-to-100' % w, [], z3.Or(vio_doc), mv, rp, twin=False)
        kd = 'C14/heuristics/Default/max_width<%d/%s' % (DOC_DEFAULT[w], w)
        ctx.prop('heuristics/%s/Default=>never-exceeds-max_width' % w, [], z3.Or(vio_le), mv, rp, twin=False,
                 classes=[(kd, z3.ULT(mw, DOC_DEFAULT[w]))], hint=[z3.ULT(mw, 200)])
        ko = 'C14/heuristics/Off/%s' % w
        ctx.prop('heuristics/%s/Off=>never-exceeds-max_width' % w, [], z3.Or(vio_off), mv, rp, twin=False, classes=[(ko, z3.BoolVal(True))], hint=[z3.ULT(mw, 200)])
    for o in outs:
        if o.kind == 'panic':
            ctx.prop('heuristics/no-panic[%s]' % o.info.get('msg', '')[:40], o.state.pc, z3.BoolVal(True), mv, rp, twin=False)
    ctx.cover('cover/heuristics-default-above-100', [z3.UGT(mw, 100), z3.ULE(mw, hi)])

    # monotonicity of scaled() above 100 (two copies)
    sc = eng.find('scaled', self_ty='WidthHeuristics', file='src/config/options.rs')
    a, b = z3.BitVec('mw_a', 64), z3.BitVec('mw_b', 64)
    ra = ctx.check_outcomes(eng.run(sc, [BV(a, 'usize')], State()), 'scaled')
    rb = ctx.check_outcomes(eng.run(sc, [BV(b, 'usize')], State()), 'scaled')
    wf = [n for n, _ in eng.src.struct_fields('WidthHeuristics', 'src/config/options.rs')]
    for fi_, fname in enumerate(wf):
        vio = []
        for oa in ra:
            for ob in rb:
                if oa.kind != 'ret' or ob.kind != 'ret':
                    continue
                vio.append(z3.And(z3.And(oa.state.pc + ob.state.pc), z3.UGT(oa.value.items[fi_].e, ob.value.items[fi_].e)))
        ctx.prop('scaled/%s/non-decreasing-in-max_width' % fname, [z3.ULE(a, b), z3.UGE(a, 20), z3.ULE(b, hi)], z3.Or(vio), [a, b], rp, twin=False)

    # ------------------------------------------------------------------ 1b. clamping and a later max_width from another source
    # a file sets max_width = m1 and a width w (user value v); the command line then sets max_width = m2: the effective options are
    # {max_width = m2, w = v}, so the width in force must be min(v, m2), as if both had been given together
    KF_CLAMP = 'C14/heuristics/clamp-overwrites-the-user-value-so-a-later-larger-max_width-does-not-restore-it'
    lay_ = config_layout(eng)
    for w in WIDTHS:
        st = State()
        cfgref, cv = make_config(eng, st)
        m1 = cv['max_width'].e
        v = cv[w].e
        m2 = z3.BitVec('max_width_from_the_command_line', 64)
        st.assume(z3.And(z3.UGE(m1, 20), z3.ULE(m1, hi), z3.UGE(m2, 20), z3.ULE(m2, hi), z3.ULT(v, 1 << 32), config_was_set(eng, st, cfgref, w)))
        for other in WIDTHS:
            if other != w:
                st.assume(z3.Not(config_was_set(eng, st, cfgref, other)))
        viol = []
        for o1 in ctx.check_outcomes(eng.run(sh, [cfgref], st), 'set_heuristics#1'):
            if o1.kind != 'ret':
                continue
            s1 = o1.state
            cur = eng.read_ref(s1, cfgref)
            idx = lay_['max_width'][0]
            ent = cur.items[idx]
            items = list(cur.items)
            items[idx] = Tup(list(ent.items[:2]) + [BV(m2, 'usize')] + list(ent.items[3:]), ent.name)
            eng.write_ref(s1, cfgref, Tup(items, cur.name))
            for o2 in ctx.check_outcomes(eng.run(sh, [cfgref], s1), 'set_heuristics#2'):
                if o2.kind != 'ret':
                    continue
                after = config_value(eng, o2.state, cfgref, w).e
                pc = z3.And(o2.state.pc) if o2.state.pc else z3.BoolVal(True)
                viol.append(z3.And(pc, after != z3.If(z3.UGT(v, m2), m2, v)))
        ctx.prop('heuristics/%s/file-then-command-line-max_width=>as-if-given-together' % w, [], z3.Or(viol), [m1, m2, v], rp, twin=False,
                 classes=[(KF_CLAMP, z3.And(z3.UGT(v, m1), z3.UGT(m2, m1)))], hint=[z3.ULT(m1, 200), z3.ULT(m2, 200), z3.ULT(v, 200)])

    # ------------------------------------------------------------------ 2. style-edition precedence
    dps = eng.find('default_for_possible_style_edition', self_ty='Config', file='src/config/mod.rs')
    se_v = eng.enum_variants('StyleEdition')
    ed_v = eng.enum_variants('Edition')
    ver_v = eng.enum_variants('Version')
    calls = []

    def dwse_stub(eng_, st_, args, ci):
        st_.trace.append(('default_with_style_edition', args[0]))
        return Opaque('Config', 'dwse')
    eng.stub(r'Config::default_with_style_edition$', dwse_stub, 'Config::default_with_style_edition(se) uninterpreted, argument observed')

    def default_stub(eng_, st_, args, ci):
        st_.trace.append(('default',))
        return Opaque('Config', 'default')
    eng.stub(r'^<(config::)?Config as (std::default::)?Default>::default$', default_stub, 'Config::default() uninterpreted, observed')
    st = State()
    se = eng.fresh_of_type(st, 'Option<StyleEdition>', 'se')
    ed = eng.fresh_of_type(st, 'Option<Edition>', 'ed')
    ver = eng.fresh_of_type(st, 'Option<Version>', 'ver')
    outs = ctx.check_outcomes(eng.run(dps, [se, ed, ver], st), 'default_for_possible_style_edition')
    mvp = [se.discr, ed.discr, ver.discr, se.payloads[1].items[0].discr, ed.payloads[1].items[0].discr, ver.payloads[1].items[0].discr]
    for i, o in enumerate(outs):
        if o.kind != 'ret':
            ctx.prop('precedence/p%d/no-panic' % i, o.state.pc, z3.BoolVal(True), mvp, rp, twin=False)
            continue
        tr = [t for t in o.state.trace if t[0] in ('default_with_style_edition', 'default')]
        sed = se.payloads[1].items[0].discr
        edd = ed.payloads[1].items[0].discr
        verd = ver.payloads[1].items[0].discr
        # expected style edition
        from_ed = z3.If(edd == ed_v.index('Edition2015'), z3.BitVecVal(se_v.index('Edition2015'), 64),
                        z3.If(edd == ed_v.index('Edition2018'), z3.BitVecVal(se_v.index('Edition2018'), 64),
                              z3.If(edd == ed_v.index('Edition2021'), z3.BitVecVal(se_v.index('Edition2021'), 64), z3.BitVecVal(se_v.index('Edition2024'), 64))))
        from_ver = z3.If(verd == ver_v.index('Two'), z3.BitVecVal(se_v.index('Edition2024'), 64), z3.BitVecVal(se_v.index('Edition2015'), 64))
        want_some = z3.Or(se.discr == 1, ver.discr == 1, ed.discr == 1)
        want = z3.If(se.discr == 1, sed, z3.If(ver.discr == 1, from_ver, from_ed))
        if len(tr) != 1:
            ctx.prop('precedence/p%d/exactly-one-default-constructor' % i, o.state.pc, z3.BoolVal(True), mvp, rp, twin=False)
            continue
        if tr[0][0] == 'default':
            ctx.prop('precedence/p%d/plain-default-only-when-nothing-given' % i, o.state.pc, want_some, mvp, rp)
        else:
            got = tr[0][1].discr
            ctx.prop('precedence/p%d/style_edition>version>edition' % i, o.state.pc, z3.Or(z3.Not(want_some), got != want), mvp, rp)
    eng.stubs = [x for x in eng.stubs if 'default' not in x[2]]

    # ------------------------------------------------------------------ 2b. the command line beats the file when the base defaults are chosen
    tpc = eng.find('to_parsed_config', self_ty='PartialConfig', file='src/config/mod.rs')
    eng.lenient = True
    eng.inline_only = [re.compile(r'to_parsed_config')]

    def dps_stub(eng_, st_, args, ci):
        st_.trace.append(('dps', args[0], args[1], args[2]))
        return Opaque('Config', 'dps')
    eng.stub(r'Config::default_for_possible_style_edition$', dps_stub, 'Config::default_for_possible_style_edition(se, ed, ver): arguments observed (decided in part 2)')
    eng.stub(r'fill_from_parsed_config$', lambda e, s_, a, c: a[0], 'fill_from_parsed_config: not part of this step')
    st = State()
    pc_fields = [n for n, _ in eng.src.struct_fields('PartialConfig', 'src/config/mod.rs')] if eng.src.struct_fields('PartialConfig', 'src/config/mod.rs') else None
    fn_t = eng.get_fn(tpc)
    pcobj = Opaque('PartialConfig', 'file')
    cli = [eng.fresh_of_type(st, ty, nm) for nm, ty in (('cli_se', 'Option<StyleEdition>'), ('cli_ed', 'Option<Edition>'), ('cli_ver', 'Option<Version>'))]
    dirref = eng.fresh_of_type(st, fn_t.params[4][1], 'dir')
    outs = ctx.check_outcomes(eng.run(tpc, [pcobj, cli[0], cli[1], cli[2], dirref], st), 'to_parsed_config')
    for i, o in enumerate(outs):
        if o.kind != 'ret':
            ctx.prop('cli-over-file/p%d/no-panic' % i, o.state.pc, z3.BoolVal(True), [], rp, twin=False)
            continue
        tr = [t for t in o.state.trace if t[0] == 'dps']
        if len(tr) != 1:
            ctx.prop('cli-over-file/p%d/base-defaults-chosen-once' % i, o.state.pc, z3.BoolVal(True), [], rp, twin=False)
            continue
        # the file's values: the lazily materialised Option fields of the PartialConfig object that the function read
        filev = {}
        for (key, v) in o.state.notes.items():
            if isinstance(key, tuple) and len(key) == 3 and key[0] == 'lazy' and key[1] == pcobj.ident and isinstance(v, Enum) and v.name == 'Option':
                inner = v.payloads.get(1)
                nm = inner.items[0].name if inner is not None and isinstance(inner.items[0], Enum) else None
                if nm in ('StyleEdition', 'Edition', 'Version'):
                    filev[nm] = v
        for j, nm in enumerate(('StyleEdition', 'Edition', 'Version')):
            got, c, f = tr[0][1 + j], cli[j], filev.get(nm)
            if f is None or not isinstance(got, Enum):
                ctx.prop('cli-over-file/p%d/%s/file-value-consulted' % (i, nm), o.state.pc, z3.BoolVal(True), [], rp, twin=False)
                continue
            gd, cd, fd = got.discr, c.discr, f.discr
            gp, cp, fp = (x.payloads[1].items[0].discr for x in (got, c, f))
            want_d = z3.If(cd == 1, z3.BitVecVal(1, 64), fd)
            want_p = z3.If(cd == 1, cp, fp)
            ctx.prop('cli-over-file/p%d/%s/command-line-value-wins-else-the-file' % (i, nm), o.state.pc, z3.Or(gd != want_d, z3.And(want_d == 1, gp != want_p)), [cd, cp, fd, fp, gd, gp], rp)
    eng.stubs = [x for x in eng.stubs if 'part 2' not in x[2] and 'fill_from' not in x[2]]
    eng.lenient = False
    eng.inline_only = None

    # ------------------------------------------------------------------ 2c. what the command line reports as its edition / style_edition / version
    # an inline `--config edition=..` counts like the dedicated flag when the base defaults are chosen (it is read before apply_to runs)
    both_ = ctx.engine(('rustfmt', 'lib'), loop_bound=4)
    both_.stubs = []
    was_len, was_inl = both_.lenient, both_.inline_only
    both_.lenient = True
    gf_ = both_.src.struct_fields('GetOptsOptions', 'src/bin/main.rs')
    for meth, key_, ety in (('edition', 'edition', 'Edition'), ('style_edition', 'style_edition', 'StyleEdition'), ('version', 'version', 'Version')):
        try:
            gname = both_.find(meth, self_ty='GetOptsOptions', file='src/bin/main.rs', trait='CliOptions')
        except KeyError as e:
            raise Inconclusive('CliOptions::%s not found: %s' % (meth, e))
        both_.inline_only = [re.compile(re.escape(meth) + '$')]
        both_.stubs = []
        st = State()
        has_inline = z3.Bool('inline_config.has[%s]' % key_)
        parsed = both_.fresh_of_type(st, 'Option<%s>' % ety, 'parsed_inline_' + key_)
        flag = both_.fresh_of_type(st, 'Option<%s>' % ety, 'flag_' + key_)
        if meth not in [n for n, _ in gf_]:
            st.assume(flag.discr == 0)          # no dedicated flag for this option: only the inline value counts
        asked = []

        def hm_get(e, s_, a, c, asked=asked):
            k = a[1]
            while isinstance(k, Ref):
                k = e.read_ref(s_, k)
            asked.append(k.s if isinstance(k, StrVal) else None)
            tok = e.ref_to(s_, StrVal(s='<inline value>'), False, 'inline_val')
            return Enum('Option', z3.If(has_inline, z3.BitVecVal(1, 64), z3.BitVecVal(0, 64)), {1: Tup([tok])})
        both_.stub(r'HashMap::<.*>::get::<', hm_get, 'inline_config.get(key) = Some(value) | None, symbolic; the key is observed')
        both_.stub(r'as (std::str::)?FromStr>::from_str$', lambda e, s_, a, c, p_=parsed: Enum('Result', z3.If(p_.discr == 1, z3.BitVecVal(0, 64), z3.BitVecVal(1, 64)), {0: Tup([p_.payloads[1].items[0]]), 1: Tup([Opaque('ParseError', 'pe')])}),
                   'FromStr::from_str(inline value) = Ok(v) | Err, symbolic')
        vals = []
        for n, ty in gf_:
            if n == meth:
                vals.append(flag)
            elif n == 'inline_config':
                vals.append(Opaque('HashMap', 'inline_config'))
            else:
                vals.append(Opaque('GetOptsOptions.' + n, n))
        selfref = both_.ref_to(st, Tup(vals, 'GetOptsOptions'), False, 'options')
        outs = ctx.check_outcomes(both_.run(gname, [selfref], st), 'CliOptions::' + meth)
        for i, o in enumerate(outs):
            if o.kind != 'ret':
                ctx.prop('cli-getter/%s/p%d/no-panic' % (meth, i), o.state.pc, z3.BoolVal(True), [], rp, twin=False)
                continue
            v = o.value
            if not isinstance(v, Enum):
                raise Inconclusive('CliOptions::%s returns %r' % (meth, v))
            want_d = z3.If(has_inline, parsed.discr, flag.discr)
            want_p = z3.If(has_inline, parsed.payloads[1].items[0].discr, flag.payloads[1].items[0].discr)
            gp = v.payloads[1].items[0].discr if 1 in v.payloads and isinstance(v.payloads[1].items[0], Enum) else z3.BitVecVal(-1, 64)
            ctx.prop('cli-getter/%s/p%d/inline-value-counts-like-the-flag' % (meth, i), o.state.pc, z3.Or(v.discr != want_d, z3.And(want_d == 1, gp != want_p)),
                     [has_inline, parsed.discr, flag.discr], rp)
        if asked and any(a_ != key_ for a_ in asked):
            ctx.prop('cli-getter/%s/asks-for-its-own-key' % meth, [], z3.BoolVal(True), [], rp, twin=False)
    both_.stubs = []
    both_.lenient, both_.inline_only = was_len, was_inl

    # ------------------------------------------------------------------ 3. deprecated aliases
    ig = eng.enum_variants('ImportGranularity')
    for setter, old, new, kind in (('set_merge_imports', 'merge_imports', 'imports_granularity', 'merge'),
                                   ('set_fn_args_layout', 'fn_args_layout', 'fn_params_layout', 'same'),
                                   ('set_hide_parse_errors', 'hide_parse_errors', 'show_parse_errors', 'negated')):
        fn = eng.find(setter, self_ty='Config', file=CT)
        st = State()
        cfgref, cv = make_config(eng, st)
        old_set = config_was_set(eng, st, cfgref, old)
        new_set = config_was_set(eng, st, cfgref, new)
        oldv, newv = cv[old], cv[new]
        outs = ctx.check_outcomes(eng.run(fn, [cfgref], st), setter)
        mva = [old_set, new_set]
        for i, o in enumerate(outs):
            if o.kind != 'ret':
                ctx.prop('alias/%s/p%d/no-panic' % (old, i), o.state.pc, z3.BoolVal(True), mva, rp, twin=False)
                continue
            after = config_value(eng, o.state, cfgref, new)
            if kind == 'merge':
                want = z3.If(oldv, z3.BitVecVal(ig.index('Crate'), 64), z3.BitVecVal(ig.index('Preserve'), 64))
                mapped = after.discr == want
                unchanged = after.discr == newv.discr
            elif kind == 'same':
                mapped = after.discr == oldv.discr
                unchanged = after.discr == newv.discr
            else:
                mapped = after == z3.Not(oldv)
                unchanged = after == newv
            ctx.prop('alias/%s/p%d/maps-to-successor-when-only-the-alias-is-set' % (old, i), o.state.pc, z3.And(old_set, z3.Not(new_set), z3.Not(mapped)), mva + ([oldv] if z3.is_bool(oldv) else []),
                     rp, classes=[('C14/alias/hide_parse_errors/polarity', z3.BoolVal(setter == 'set_hide_parse_errors'))])
            ctx.prop('alias/%s/p%d/successor-wins-when-set' % (old, i), o.state.pc, z3.And(new_set, z3.Not(unchanged)), mva, rp)
            ctx.prop('alias/%s/p%d/no-effect-when-alias-unset' % (old, i), o.state.pc, z3.And(z3.Not(old_set), z3.Not(unchanged)), mva, rp)

    # ------------------------------------------------------------------ 3b. `--config key=val`: every key is stored as set, and the keys with a derived meaning re-derive it
    ov = eng.find('override_value', self_ty='Config', file=CT)
    old_state = (eng.lenient, eng.inline_only, list(eng.stubs))
    eng.lenient = True
    eng.inline_only = [re.compile(r'override_value$')]
    eng.stubs = []
    eng.stub(r'Config::set_(heuristics|merge_imports|fn_args_layout|hide_parse_errors|version)$',
             lambda e, s_, a, c: (s_.trace.append(('derive', c.func.rsplit('::', 1)[-1])), UNIT)[1], 'Config::set_* (the derivations decided in parts 1 and 3) observed')

    def parse_stub(e, s_, a, c):
        v = e.fresh_of_type(s_, re.search(r'parse::<(.*)>$', c.func).group(1), 'parsed')
        s_.trace.append(('parsed', v))
        return Enum('Result', 0, {0: Tup([v])})
    eng.stub(r'<impl str>::parse::<', parse_stub, 'str::parse::<T> = Ok(an arbitrary value of T)')
    derive_of = {'merge_imports': 'set_merge_imports', 'fn_args_layout': 'set_fn_args_layout', 'hide_parse_errors': 'set_hide_parse_errors', 'version': 'set_version'}
    for w in list(WIDTHS) + ['max_width', 'use_small_heuristics']:
        derive_of[w] = 'set_heuristics'
    try:
        for key in sorted(lay):
            st = State()
            cfgref, cv = make_config(eng, st)
            outs = ctx.check_outcomes(eng.run(ov, [cfgref, StrVal(s=key), eng.fresh_str('val')], st), 'override_value')
            for i, o in enumerate(outs):
                if o.kind != 'ret':
                    continue            # the parse failure panics by design (expect)
                hooks = [t[1] for t in o.state.trace if t[0] == 'derive']
                want = [derive_of[key]] if key in derive_of else []
                ctx.prop('override_value/%s/p%d/the-derived-options-are-recomputed' % (key, i), o.state.pc, z3.BoolVal(hooks != want), [], rp, twin=False, meta={'hooks': hooks, 'want': want})
                ctx.prop('override_value/%s/p%d/the-option-counts-as-set' % (key, i), o.state.pc, z3.Not(config_was_set(eng, o.state, cfgref, key)), [], rp, twin=False)
    finally:
        eng.lenient, eng.inline_only, eng.stubs = old_state

    # ------------------------------------------------------------------ 4. config file name order in one directory
    eng.lenient = True
    eng.inline_only = [re.compile(r'get_toml_path')]
    gtp = eng.find('get_toml_path', free=True)
    st = State()
    meta = {}

    def join_stub(eng_, st_, args, ci):
        nm = args[1]
        while isinstance(nm, Ref):
            nm = eng_.read_ref(st_, nm)
        return Tup([args[0], nm], 'Joined')
    eng.stub(r'(^|::)Path::join::<', join_stub, 'Path::join(dir, name) = constructor')

    def metadata_stub(eng_, st_, args, ci):
        p = args[0]
        while isinstance(p, Ref):
            p = eng_.read_ref(st_, p)
        nm = p.items[1].s
        ok = z3.Bool('metadata_ok[%s]' % nm)
        isf = z3.Bool('is_file[%s]' % nm)
        meta[nm] = (ok, isf)
        s2 = st_.fork()
        st_.assume(ok)
        s2.assume(z3.Not(ok))
        return [(st_, 'ret', Enum('Result', 0, {0: Tup([Opaque('Metadata', nm)])})), (s2, 'ret', Enum('Result', 1, {1: Tup([Opaque('io::Error', nm)])}))]
    eng.stub(r'(^|::)fs::metadata::<', metadata_stub, 'fs::metadata(path) = Ok(md) or Err(e), symbolic per file name')

    def is_file_stub(eng_, st_, args, ci):
        md = args[0]
        while isinstance(md, Ref):
            md = eng_.read_ref(st_, md)
        return meta[md.ident][1]
    eng.stub(r'Metadata::is_file$', is_file_stub, 'Metadata::is_file = symbolic per file name')

    def canon_stub(eng_, st_, args, ci):
        p = args[0]
        while isinstance(p, Ref):
            p = eng_.read_ref(st_, p)
        d = z3.BitVec(eng_.fresh_name('canon.ok'), 64)
        st_.assume(z3.Or(d == 0, d == 1))
        return Enum('Result', d, {0: Tup([p]), 1: Tup([Opaque('io::Error', 'canon')])})
    eng.stub(r'Path::canonicalize$', canon_stub, 'Path::canonicalize = Ok(same path) or Err')
    dirref = eng.ref_to(st, Opaque('Path', 'dir'), False, 'dir')
    outs = ctx.check_outcomes(eng.run(gtp, [dirref], st), 'get_toml_path')
    log('[C14] get_toml_path: %d paths' % len(outs))
    DOT, PLAIN = '.rustfmt.toml', 'rustfmt.toml'
    for i, o in enumerate(outs):
        if o.kind != 'ret':
            continue
        v = o.value
        if DOT not in meta or PLAIN not in meta:
            # get_toml_path no longer probes both names itself: the walk kernel (4b) inlines whatever helpers there are and decides the same clause
            ctx.notes.append('get_toml_path alone does not probe both names (%r): clause decided by the walk kernel only' % (sorted(meta),))
            break
        dot_file = z3.And(*meta[DOT])
        plain_file = z3.And(*meta[PLAIN])
        is_ok = v.discr == 0
        optv = v.payloads.get(0)
        if optv is None:
            continue
        optv = optv.items[0]
        chosen = None
        if 1 in optv.payloads:
            pth = optv.payloads[1].items[0]
            if isinstance(pth, Tup) and pth.name == 'Joined':
                chosen = pth.items[1].s
        is_some = optv.discr == 1
        mvf = list(meta[DOT]) + list(meta[PLAIN])
        ctx.prop('config-file/p%d/dotted-name-wins-in-the-same-directory' % i, o.state.pc + [is_ok], z3.And(dot_file, z3.Or(z3.Not(is_some), z3.BoolVal(chosen != DOT))), mvf, rp, twin=False)
        ctx.prop('config-file/p%d/plain-name-used-when-no-dotted-file' % i, o.state.pc + [is_ok], z3.And(z3.Not(dot_file), plain_file, z3.Or(z3.Not(is_some), z3.BoolVal(chosen != PLAIN))), mvf, rp, twin=False)
        ctx.prop('config-file/p%d/none-only-when-neither-is-a-file' % i, o.state.pc + [is_ok], z3.And(z3.Not(is_some), z3.Or(dot_file, plain_file)), mvf, rp, twin=False)
    eng.stubs = []
    eng.lenient = False
    eng.inline_only = None

    # ------------------------------------------------------------------ 4b. the walk: nearest directory first, then home, then <config dir>/rustfmt
    # resolve_project_file with everything it calls inlined (get_toml_path and whatever helpers exist); the std::path API is a model over
    # a chain of D directories (level 0 = the start directory, level D-1 = the file-system root) plus the home and config directories.
    rpf = eng.find('resolve_project_file', free=True)
    eng.stubs = []
    eng.lenient = True          # error construction (format!, anyhow) is uninterpreted; every crate function is inlined
    eng.inline_only = None
    D = 2 if ctx.tier == 'quick' else 3
    HOME, CFG, CFGR = 10, 11, 12
    fmeta = {}

    def dirv(level):
        return Tup([bv_const(level, 'usize')], 'Dir')

    def dv(e, s_, v):
        while isinstance(v, Ref):
            v = e.read_ref(s_, v)
        return v

    def lvl(v):
        if isinstance(v, Tup) and v.name == 'Dir':
            return v.items[0].concrete()
        raise Unsupported('not a modelled directory: %r' % (v,))

    def st_join(e, s_, a, c):
        d_, nm = dv(e, s_, a[0]), dv(e, s_, a[1])
        if isinstance(nm, StrVal) and nm.s is not None:
            return Tup([d_, nm], 'Joined')
        raise Unsupported('join with %r' % (nm,))

    def st_pop(e, s_, a, c):
        cur = dv(e, s_, a[0])
        l_ = lvl(cur)
        if l_ < D - 1:
            e.write_ref(s_, a[0], dirv(l_ + 1))
            return z3.BoolVal(True)
        return z3.BoolVal(False)

    def st_push(e, s_, a, c):
        cur = dv(e, s_, a[0])
        if lvl(cur) == CFG:
            e.write_ref(s_, a[0], dirv(CFGR))
            return UNIT
        raise Unsupported('push on %r' % (cur,))

    def st_ancestors(e, s_, a, c):
        return Tup([bv_const(lvl(dv(e, s_, a[0])), 'usize')], 'Ancestors')

    def st_anc_next(e, s_, a, c):
        it = dv(e, s_, a[0])
        l_ = it.items[0].concrete()
        if l_ >= D:
            return Enum('Option', 0, {})
        e.write_ref(s_, a[0], Tup([bv_const(l_ + 1, 'usize')], 'Ancestors'))
        return Enum('Option', 1, {1: Tup([e.ref_to(s_, dirv(l_), False, 'anc')])})

    def st_parent(e, s_, a, c):
        l_ = lvl(dv(e, s_, a[0]))
        return Enum('Option', 1, {1: Tup([e.ref_to(s_, dirv(l_ + 1), False, 'parent')])}) if l_ < D - 1 else Enum('Option', 0, {})

    def st_opt_dir(level, what):
        def f(e, s_, a, c):
            s2 = s_.fork()
            s_.trace.append((what, True))
            s2.trace.append((what, False))
            return [(s_, 'ret', Enum('Option', 1, {1: Tup([dirv(level)])})), (s2, 'ret', Enum('Option', 0, {}))]
        return f

    def st_metadata(e, s_, a, c):
        pth = dv(e, s_, a[0])
        if not (isinstance(pth, Tup) and pth.name == 'Joined'):
            raise Unsupported('metadata of %r' % (pth,))
        key = (lvl(pth.items[0]), pth.items[1].s)
        if key not in fmeta:
            fmeta[key] = (z3.Bool('exists[%d,%s]' % key), z3.Bool('is_file[%d,%s]' % key), z3.Bool('not_found[%d,%s]' % key))
        ok, isf, nf = fmeta[key]
        s2 = s_.fork()
        s_.assume(ok)
        s2.assume(z3.Not(ok))
        return [(s_, 'ret', Enum('Result', 0, {0: Tup([Opaque('Metadata', key)])})), (s2, 'ret', Enum('Result', 1, {1: Tup([Opaque('io::Error', key)])}))]

    ek_notfound = None
    eng.stub(r'(^|::)Path::is_relative$', lambda e, s_, a, c: z3.BoolVal(False), 'the start directory is absolute')
    eng.stub(r'(^|::)Path::to_path_buf$|<PathBuf as (std::ops::)?Deref>::deref$|<PathBuf as (std::convert::)?AsRef<.*>>::as_ref$|<PathBuf as (std::clone::)?Clone>::clone$', lambda e, s_, a, c: (dv(e, s_, a[0]) if not c.func.endswith('deref') else a[0]), 'PathBuf/Path views = the same directory value')
    eng.stub(r'(^|::)canonicalize::<|(^|::)Path::canonicalize$', lambda e, s_, a, c: Enum('Result', 0, {0: Tup([dv(e, s_, a[0])])}), 'canonicalize = Ok(the same path): paths are canonical')
    eng.stub(r'(^|::)Path::join::<', st_join, 'Path::join(dir, name) = constructor')
    eng.stub(r'PathBuf::pop$', st_pop, 'PathBuf::pop: one level up, false at the root (chain of D directories)')
    eng.stub(r'PathBuf::push::<', st_push, 'PathBuf::push("rustfmt") on the config directory')
    eng.stub(r'(^|::)Path::ancestors$', st_ancestors, 'Path::ancestors = the chain from this directory to the root')
    eng.stub(r'Ancestors<.*> as (std::iter::)?Iterator>::next$', st_anc_next, 'Ancestors::next')
    eng.stub(r'Ancestors<.*> as (std::iter::)?IntoIterator>::into_iter$', lambda e, s_, a, c: a[0], 'Ancestors::into_iter = itself')
    eng.stub(r'(^|::)Path::parent$', st_parent, 'Path::parent')
    eng.stub(r'(^|::)home_dir$', st_opt_dir(HOME, 'home'), 'dirs::home_dir = Some(home) | None')
    eng.stub(r'(^|::)config_dir$', st_opt_dir(CFG, 'config'), 'dirs::config_dir = Some(dir) | None')
    eng.stub(r'(^|::)fs::metadata::<|(^|::)metadata::<', st_metadata, 'fs::metadata(dir/name) = Ok | Err, symbolic per (directory, name)')
    eng.stub(r'Metadata::is_file$', lambda e, s_, a, c: fmeta[dv(e, s_, a[0]).ident][1], 'Metadata::is_file symbolic per (directory, name)')
    eng.stub(r'io::Error::kind$|error::Error::kind$', lambda e, s_, a, c: Enum('ErrorKind', z3.If(fmeta[dv(e, s_, a[0]).ident][2], z3.BitVecVal(0, 64), z3.BitVecVal(1, 64)), {}), 'io::Error::kind = NotFound | other, symbolic')
    def ek_eq(e, s_, a, c):
        x, y = dv(e, s_, a[0]), dv(e, s_, a[1])
        # one side is the error's kind (harness enum: 0 = NotFound), the other the constant ErrorKind::NotFound
        sym = x if isinstance(x, Enum) and x.name == 'ErrorKind' and not z3.is_bv_value(z3.simplify(x.discr)) else y
        if not (isinstance(sym, Enum) and sym.name == 'ErrorKind'):
            raise Unsupported('ErrorKind comparison %r %r' % (x, y))
        r = sym.discr == 0
        return r if c.func.endswith('eq') else z3.Not(r)
    eng.stub(r'<(std::io::)?ErrorKind as (std::cmp::)?PartialEq>::(eq|ne)$', ek_eq, 'kind == ErrorKind::NotFound')
    st = State()
    startref = eng.ref_to(st, dirv(0), False, 'start')
    eng.loop_bound = 12
    try:
        outs = ctx.check_outcomes(eng.run(rpf, [startref], st), 'resolve_project_file')
    except Unsupported as e:
        raise Inconclusive('resolve_project_file not encodable: %s' % e)
    log('[C14] resolve_project_file over %d directories + home + config: %d paths' % (D, len(outs)))
    DOT, PLAIN = '.rustfmt.toml', 'rustfmt.toml'
    nsome = 0
    for i, o in enumerate(outs):
        if o.kind != 'ret':
            ctx.prop('walk/p%d/no-panic' % i, o.state.pc, z3.BoolVal(True), [], rp, twin=False)
            continue
        v = o.value
        if v.concrete() != 0:
            continue                     # an io error other than NotFound ends the search: Err
        optv = v.payloads[0].items[0]
        has_home = any(t == ('home', True) for t in o.state.trace)
        has_cfg = any(t == ('config', True) for t in o.state.trace)
        order = [(l_, n_) for l_ in range(D) for n_ in (DOT, PLAIN)] + ([(HOME, DOT), (HOME, PLAIN)] if has_home else []) + ([(CFGR, DOT), (CFGR, PLAIN)] if has_cfg else [])

        def isfile(key):
            if key not in fmeta:
                fmeta[key] = (z3.Bool('exists[%d,%s]' % key), z3.Bool('is_file[%d,%s]' % key), z3.Bool('not_found[%d,%s]' % key))
            return z3.And(fmeta[key][0], fmeta[key][1])
        mvw = [x for key in order for x in fmeta.get(key, ())[:2]]
        if optv.concrete() == 1:
            nsome += 1
            pth = dv(eng, o.state, optv.payloads[1].items[0])
            if not (isinstance(pth, Tup) and pth.name == 'Joined'):
                raise Inconclusive('resolve_project_file returns %r' % (pth,))
            key = (lvl(pth.items[0]), pth.items[1].s)
            if key not in order:
                ctx.prop('walk/p%d/returns-a-config-file-of-a-searched-directory' % i, o.state.pc, z3.BoolVal(True), mvw, rp, twin=False)
                continue
            earlier = order[:order.index(key)]
            ctx.prop('walk/p%d/nearest-directory-first-then-home-then-config,dotted-name-first' % i, o.state.pc,
                     z3.Or([z3.Not(isfile(key))] + [isfile(e_) for e_ in earlier]), mvw, rp, twin=False)
        elif optv.concrete() == 0:
            ctx.prop('walk/p%d/none-only-when-no-searched-directory-has-a-config-file' % i, o.state.pc, z3.Or([isfile(e_) for e_ in order]), mvw, rp, twin=False)
        else:
            raise Inconclusive('resolve_project_file: symbolic Option result')
    if not nsome:
        raise Inconclusive('resolve_project_file: no path finds a file')
    eng.stubs = []
    eng.lenient = False
    eng.loop_bound = 8

    # ------------------------------------------------------------------ 5. per-file configuration in multi-file invocations (binary)
    both = ctx.engine(('rustfmt', 'lib'), loop_bound=5)
    both.lenient = True
    both.inline_only = [re.compile(p) for p in binmodel.LENIENT_INLINE]
    for nfiles in (1, 2):
        paths, info = binmodel.run_format_fn(ctx, both, nfiles)
        ctx.paths += len(paths)
        for i, p in enumerate(paths):
            o = p['outcome']
            if o.kind != 'ret':
                continue
            init_cfg = p['new'][0][1] if p['new'] else None
            tr = o.state.trace
            for k, call in enumerate(p['fer']):
                idx = tr.index(call)
                start = 0
                for j in range(idx - 1, -1, -1):
                    if tr[j][0] in ('format_and_emit_report', 'Session::new'):
                        start = j
                        break
                wl = [t for t in tr[start + 1:idx] if t[0] == 'load_config']
                allowed = {wl[-1][1].ident} if wl else {init_cfg.ident if isinstance(init_cfg, Opaque) else None}
                ok = isinstance(call[1], Opaque) and call[1].ident in allowed
                ctx.prop('per-file-config/n%d/p%d/input%d/formatted-with-the-config-resolved-for-it' % (nfiles, i, k), o.state.pc, z3.BoolVal(not ok), [], rp, twin=False)
                if not wl:
                    first_load = [t for t in tr if t[0] == 'load_config'][0]
                    ctx.prop('per-file-config/n%d/p%d/input%d/lookup-skipped-only-with-a-resolved-config-path' % (nfiles, i, k), o.state.pc, first_load[3] == 0, [], rp, twin=False)
    validate(ctx)


# ----------------------------------------------------------------------------- native side

def print_config(args, files=None, cwd=None, env_home=None):
    bins = ensure_bins()
    env = run_env()
    if env_home:
        env['HOME'] = env_home
        env['XDG_CONFIG_HOME'] = env_home
    r = subprocess.run([os.path.join(bins, 'rustfmt')] + args, capture_output=True, text=True, env=env, timeout=60, cwd=cwd)
    vals = {}
    for ln in r.stdout.split('\n'):
        m = re.match(r'^(\w+) = (.*)$', ln)
        if m:
            vals[m.group(1)] = m.group(2).strip('"')
    return vals, r


def cls(x):
    return x if x in ('2024', '2027') else 'pre-2024'


def cli_findings():
    """facts about the real binary that contradict C14's clauses; keyed so that known findings can be told apart"""
    d = os.path.join(BUILD, 'scratch', 'c14-%d' % os.getpid())
    shutil.rmtree(d, ignore_errors=True)
    os.makedirs(d)
    found = {}
    for mw in (20, 40, 59, 69, 70, 100, 101, 150, 999):
        vals, r = print_config(['--config', 'max_width=%d' % mw, '--print-config', 'current', '.'], cwd=d, env_home=d)
        for w in WIDTHS:
            if w in vals and vals[w].isdigit() and int(vals[w]) > mw:
                found.setdefault('C14/heuristics/Default/max_width<%d/%s' % (DOC_DEFAULT[w], w), []).append('max_width=%d gives %s=%s' % (mw, w, vals[w]))
        if mw <= 100:
            for w in WIDTHS:
                if w in vals and vals[w].isdigit() and int(vals[w]) != DOC_DEFAULT[w] and int(vals[w]) <= mw:
                    found.setdefault('other', []).append('max_width=%d gives %s=%s (documented %d)' % (mw, w, vals[w], DOC_DEFAULT[w]))
    vals, r = print_config(['--config', 'use_small_heuristics=Off', '--print-config', 'current', '.'], cwd=d, env_home=d)
    if r.returncode != 0 or not vals:
        # the printer fails on the four widths that Off documents as unbounded; the other four are 0
        for w in ('fn_call_width', 'attr_fn_like_width', 'array_width', 'chain_width'):
            found.setdefault('C14/heuristics/Off/%s' % w, []).append('use_small_heuristics=Off: --print-config current fails: %s' % r.stderr.strip()[:120])
    else:
        for w in WIDTHS:
            if w in vals and vals[w].isdigit() and int(vals[w]) > 100:
                found.setdefault('C14/heuristics/Off/%s' % w, []).append('Off gives %s=%s' % (w, vals[w]))
    vals, r = print_config(['--config', 'use_small_heuristics=Max,max_width=77', '--print-config', 'current', '.'], cwd=d, env_home=d)
    for w in WIDTHS:
        if vals.get(w) != '77':
            found.setdefault('other', []).append('Max with max_width=77 gives %s=%s' % (w, vals.get(w)))
    vals, r = print_config(['--config', 'max_width=50,fn_call_width=80,chain_width=30', '--print-config', 'current', '.'], cwd=d, env_home=d)
    if vals.get('fn_call_width') != '50' or vals.get('chain_width') != '30':
        found.setdefault('other', []).append('override clamp: fn_call_width=%s chain_width=%s' % (vals.get('fn_call_width'), vals.get('chain_width')))
    # every width option on its own, from the command line and from a file, in two modes: an explicit value above max_width is clamped
    for w in WIDTHS:
        for mode in ('Default', 'Max'):
            vals, r = print_config(['--config', 'max_width=80,use_small_heuristics=%s,%s=150' % (mode, w), '--print-config', 'current', '.'], cwd=d, env_home=d)
            if vals.get(w) != '80':
                found.setdefault('other', []).append('--config max_width=80,use_small_heuristics=%s,%s=150 gives %s=%s (expected 80)' % (mode, w, w, vals.get(w)))
        open(os.path.join(d, 'rustfmt.toml'), 'w').write('max_width = 80\n%s = 150\n' % w)
        vals, r = print_config(['--print-config', 'current', '.'], cwd=d, env_home=d)
        if vals.get(w) != '80':
            found.setdefault('other', []).append('rustfmt.toml max_width=80, %s=150 gives %s=%s (expected 80)' % (w, w, vals.get(w)))
        os.remove(os.path.join(d, 'rustfmt.toml'))
    # aliases: from a file and from the command line
    vals, r = print_config(['--config', 'hide_parse_errors=true', '--print-config', 'current', '.'], cwd=d, env_home=d)
    if vals.get('show_parse_errors') != 'false':
        found.setdefault('other', []).append('--config hide_parse_errors=true leaves show_parse_errors=%s' % vals.get('show_parse_errors'))
    vals, r = print_config(['--config', 'fn_args_layout=Compressed', '--print-config', 'current', '.'], cwd=d, env_home=d)
    if vals.get('fn_params_layout') != '"Compressed"' and vals.get('fn_params_layout') != 'Compressed':
        found.setdefault('other', []).append('--config fn_args_layout=Compressed leaves fn_params_layout=%s' % vals.get('fn_params_layout'))
    open(os.path.join(d, 'rustfmt.toml'), 'w').write('hide_parse_errors = true\n')
    vals, r = print_config(['--print-config', 'current', '.'], cwd=d, env_home=d)
    if vals.get('show_parse_errors') != 'false':
        found.setdefault('C14/alias/hide_parse_errors/polarity', []).append('hide_parse_errors=true gives show_parse_errors=%s' % vals.get('show_parse_errors'))
    open(os.path.join(d, 'rustfmt.toml'), 'w').write('merge_imports = true\n')
    vals, r = print_config(['--print-config', 'current', '.'], cwd=d, env_home=d)
    if vals.get('imports_granularity') != 'Crate':
        found.setdefault('other', []).append('merge_imports=true gives imports_granularity=%s' % vals.get('imports_granularity'))
    open(os.path.join(d, 'rustfmt.toml'), 'w').write('fn_args_layout = "Compressed"\n')
    vals, r = print_config(['--print-config', 'current', '.'], cwd=d, env_home=d)
    if vals.get('fn_params_layout') != 'Compressed':
        found.setdefault('other', []).append('fn_args_layout=Compressed gives fn_params_layout=%s' % vals.get('fn_params_layout'))
    # both config file names
    open(os.path.join(d, 'rustfmt.toml'), 'w').write('tab_spaces = 2\n')
    open(os.path.join(d, '.rustfmt.toml'), 'w').write('tab_spaces = 7\n')
    vals, r = print_config(['--print-config', 'current', '.'], cwd=d, env_home=d)
    if vals.get('tab_spaces') != '7':
        found.setdefault('other', []).append('both config file names present: tab_spaces=%s, the dotted file says 7' % vals.get('tab_spaces'))
    os.remove(os.path.join(d, 'rustfmt.toml'))
    os.remove(os.path.join(d, '.rustfmt.toml'))
    # the two names mixed across levels: the nearer directory wins whatever the name
    sub = os.path.join(d, 'lvl', 'sub')
    os.makedirs(sub)
    for outer, inner in (('.rustfmt.toml', 'rustfmt.toml'), ('rustfmt.toml', '.rustfmt.toml')):
        open(os.path.join(d, 'lvl', outer), 'w').write('tab_spaces = 2\n')
        open(os.path.join(sub, inner), 'w').write('tab_spaces = 8\n')
        open(os.path.join(sub, 'x.rs'), 'w').write('fn f() {}\n')
        vals, r = print_config(['--print-config', 'current', 'x.rs'], cwd=sub, env_home=os.path.join(d, 'nohome'))
        if vals.get('tab_spaces') != '8':
            found.setdefault('other', []).append('%s one level up, %s in the directory: tab_spaces=%s, the nearer file says 8' % (outer, inner, vals.get('tab_spaces')))
        os.remove(os.path.join(d, 'lvl', outer))
        os.remove(os.path.join(sub, inner))
    # precedence
    for args, want in ((['--style-edition', '2024', '--edition', '2015'], '2024'), (['--edition', '2018'], '2018'), (['--config', 'version=Two', '--edition', '2015'], '2024'),
                       (['--config', 'version=One,style_edition=2024'], '2024'), (['--config', 'edition=2024'], '2024'), (['--edition', '2024'], '2024'),
                       (['--config', 'edition=2024', '--edition', '2015'], '2024'), (['--config', 'style_edition=2024', '--edition', '2015'], '2024')):
        vals, r = print_config(args + ['--print-config', 'current', '.'], cwd=d, env_home=d)
        # the style_edition option's own default is 2024 for 2024 and 2015 for every earlier edition (options.rs: the editions
        # 2015/2018/2021 share all defaults, C09), so an unset style_edition under --edition 2018 prints as 2015: compare classes
        if cls(vals.get('style_edition')) != cls(want):
            found.setdefault('other', []).append('%s gives style_edition=%s, expected %s' % (' '.join(args), vals.get('style_edition'), want))
    # a width and max_width in the file, a larger max_width on the command line
    open(os.path.join(d, 'rustfmt.toml'), 'w').write('max_width = 50\nchain_width = 80\n')
    vals, r = print_config(['--config', 'max_width=120', '--print-config', 'current', '.'], cwd=d, env_home=d)
    if vals.get('chain_width') != '80':
        found.setdefault('C14/heuristics/clamp-overwrites-the-user-value-so-a-later-larger-max_width-does-not-restore-it', []).append(
            'file max_width=50 chain_width=80, --config max_width=120: chain_width=%s (given together: 80)' % vals.get('chain_width'))
    vals, r = print_config(['--config', 'max_width=60', '--print-config', 'current', '.'], cwd=d, env_home=d)
    if vals.get('chain_width') != '60':
        found.setdefault('C14/heuristics/clamp-overwrites-the-user-value-so-a-later-larger-max_width-does-not-restore-it', []).append(
            'file max_width=50 chain_width=80, --config max_width=60: chain_width=%s (given together: 60)' % vals.get('chain_width'))
    vals, r = print_config(['--config', 'max_width=40', '--print-config', 'current', '.'], cwd=d, env_home=d)
    if vals.get('chain_width') != '40':
        found.setdefault('other', []).append('file max_width=50 chain_width=80, --config max_width=40: chain_width=%s (expected 40)' % vals.get('chain_width'))
    os.remove(os.path.join(d, 'rustfmt.toml'))
    # a file that sets edition, a command line that sets another one across the 2021/2024 boundary, nothing else set
    for file_ed, cli_args, want in (('2021', ['--edition', '2024'], '2024'), ('2024', ['--edition', '2018'], '2015'), ('2021', ['--config', 'edition=2024'], '2024'),
                                    ('2024', [], '2024'), ('2021', ['--style-edition', '2024'], '2024')):
        open(os.path.join(d, 'rustfmt.toml'), 'w').write('edition = "%s"\n' % file_ed)
        vals, r = print_config(cli_args + ['--print-config', 'current', '.'], cwd=d, env_home=d)
        if cls(vals.get('style_edition')) != cls(want):
            found.setdefault('other', []).append('file edition=%s with %s gives style_edition=%s, expected %s' % (file_ed, ' '.join(cli_args) or 'no flag', vals.get('style_edition'), want))
    os.remove(os.path.join(d, 'rustfmt.toml'))
    shutil.rmtree(d, ignore_errors=True)
    import c15
    pf = c15.cli_runs()
    if pf:
        found.setdefault('other', []).extend(pf)
    return found


def replay_cli(ctx):
    cache = {}

    def replay(model, r):
        if 'f' not in cache:
            cache['f'] = cli_findings()
        f = cache['f']
        key = r.ob.meta.get('key')
        if key:
            return {'reproduced': key in f, 'detail': f.get(key, [])[:3]}
        # an unlisted violation: anything the CLI shows outside the known keys
        known = {k['key'] for k in ctx.known}
        other = {k: v for k, v in f.items() if k not in known or k not in ctx.open_keys}
        return {'reproduced': bool(other), 'detail': {k: v[:2] for k, v in list(other.items())[:4]}}
    return replay


def validate(ctx):
    f = cli_findings()
    ctx.validated += 1
    ctx.validation_detail.append({'cli_findings_on_this_tree': {k: v[:2] for k, v in f.items()}})


if __name__ == '__main__':
    main_wrapper('C14', build)
