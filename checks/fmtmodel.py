"""Token model of Rust formatting output: format_args! becomes (pieces, args); write_fmt appends to an output list kept in the
state trace. Used where the *text* an emitter produces is the subject (C12)."""
from common import *
from mirsym.values import StrVal


def deref(eng, st, v):
    while isinstance(v, Ref):
        v = eng.read_ref(st, v)
    return v


def snapshot(eng, st, v, depth=0):
    """values as they are *now*: references into frames are resolved (locals are reused across loop iterations)"""
    if depth > 6:
        return v
    if isinstance(v, Ref):
        try:
            return snapshot(eng, st, eng.read_ref(st, v), depth + 1)
        except Unsupported:
            return v
    if isinstance(v, Tup):
        return Tup([snapshot(eng, st, x, depth + 1) for x in v.items], v.name)
    if isinstance(v, Seq):
        return Seq([snapshot(eng, st, x, depth + 1) for x in v.items])
    return v


def install(eng):
    def new_v1(eng_, st_, args, ci):
        pieces = deref(eng_, st_, args[0])
        fargs = deref(eng_, st_, args[1])
        return Tup([Seq([deref(eng_, st_, x) for x in pieces.items]), fargs], 'FmtArguments')
    eng.stub(r'^Arguments::<.*>::new_v1::<', new_v1, 'fmt::Arguments::new_v1(pieces, args) = token structure')

    def new_const(eng_, st_, args, ci):
        pieces = deref(eng_, st_, args[0])
        return Tup([Seq([deref(eng_, st_, x) for x in pieces.items]), Seq([])], 'FmtArguments')
    eng.stub(r'^Arguments::<.*>::new_const::<', new_const, 'fmt::Arguments::new_const(pieces)')

    def new_display(eng_, st_, args, ci):
        return Tup([deref(eng_, st_, args[0])], 'FmtArg')
    eng.stub(r'fmt::rt::Argument::<.*>::new_display::<', new_display, 'fmt::rt::Argument::new_display(x) = x')

    def write_fmt(eng_, st_, args, ci):
        a = snapshot(eng_, st_, deref(eng_, st_, args[1]))
        st_.trace.append(('write_fmt', a))
        d = z3.BitVec(eng_.fresh_name('write.ok'), 64)
        st_.assume(z3.Or(d == 0, d == 1))
        return Enum('Result', d, {0: Tup([UNIT]), 1: Tup([Opaque('fmt/io::Error', 'w')])})
    eng.stub(r'write_fmt$', write_fmt, 'write_fmt(w, args) = appends the token structure to the output; may fail')


def atoms_of(fa):
    """flatten one FmtArguments into atoms: ('lit', str) | ('val', value)"""
    pieces = fa.items[0].items
    args = fa.items[1].items
    out = []
    for i, p in enumerate(pieces):
        if isinstance(p, StrVal) and p.s is not None:
            if p.s:
                out.append(('lit', p.s))
        else:
            out.append(('val', p))
        if i < len(args):
            a = args[i]
            out.append(('val', a.items[0] if isinstance(a, Tup) and a.name == 'FmtArg' else a))
    return out


def output_atoms(trace):
    out = []
    for t in trace:
        if t[0] == 'write_fmt':
            out.extend(atoms_of(t[1]))
    return out
