"""Shared harness pieces for the `rustfmt` binary's `format()` function and the Session flag algebra
(used by C06, C14 and C15)."""
from common import *

FLAGS = ['has_operational_errors', 'has_parsing_errors', 'has_formatting_errors', 'has_macro_format_failure', 'has_check_errors', 'has_diff',
         'has_unformatted_code_errors']

LENIENT_INLINE = [r'src/lib\.rs', r'src/bin/main\.rs', r'^Session::', r'^(std|core)::mem::', r'ReportedErrors', r'GetOptsOptions::']


def reported_errors_fields(eng):
    f = eng.src.struct_fields('ReportedErrors', 'src/formatting.rs')
    names = [n for n, _ in f]
    if names != FLAGS:
        raise Inconclusive('ReportedErrors fields changed: %r' % (names,))
    return names


def install_env(eng):
    """stubs shared by format() and format_string(): format_and_emit_report, load_config, Session::new"""
    cfg_idx = eng.src.field_index('Session', 'config', 'src/lib.rs')
    err_idx = eng.src.field_index('Session', 'errors', 'src/lib.rs')
    flags = reported_errors_fields(eng)
    gfields = [n for n, _ in eng.src.struct_fields('GetOptsOptions', 'src/bin/main.rs')]

    calls = []

    def fer_stub(eng_, st, args, ci):
        sref = args[0]
        sess = eng_.read_ref(st, sref)
        cfg = eng_.lazy_field(st, sess, cfg_idx, 'Config') if isinstance(sess, Opaque) else sess.items[cfg_idx]
        inp = args[1]
        newflags = Tup([eng_.fresh_bool('after_input.%s' % f) for f in flags], 'ReportedErrors')
        # flags only ever go false -> true while formatting an input (ReportedErrors::add ORs; proved separately)
        old = eng_.lazy_field(st, sess, err_idx, 'ReportedErrors') if isinstance(sess, Opaque) else sess.items[err_idx]
        st.trace.append(('format_and_emit_report', cfg, inp, old, newflags))
        if isinstance(old, Tup):
            for o, n in zip(old.items, newflags.items):
                st.assume(z3.Implies(o, n))
        eng_.write_ref(st, Ref(sref.key, sref.projs + (('field', err_idx, 'ReportedErrors'),), True), newflags)
        return UNIT
    eng.stubs = [x for x in eng.stubs if 'format_and_emit_report' not in x[2]]
    eng.stub(r'^format_and_emit_report::<', fer_stub, 'format_and_emit_report = records the Config the session holds, havocs session.errors monotonically (frame: does not assign session.config)')

    def load_config_stub(eng_, st, args, ci):
        n = next(eng_.counter)
        cfg = Opaque('Config', 'cfg%d' % n)
        d = z3.BitVec(eng_.fresh_name('load_config.ok'), 64)
        st.assume(z3.Or(d == 0, d == 1))
        pd = z3.BitVec(eng_.fresh_name('load_config.path'), 64)
        st.assume(z3.Or(pd == 0, pd == 1))
        path = Enum('Option', pd, {1: Tup([Opaque('PathBuf', 'cfgpath%d' % n)])})
        res = Enum('Result', d, {0: Tup([Tup([cfg, path])]), 1: Tup([Opaque('io::Error', 'e%d' % n)])})
        st.trace.append(('load_config', cfg, args[0], pd))
        return res
    eng.stubs = [x for x in eng.stubs if 'load_config' not in x[2]]
    eng.stub(r'^load_config::<', load_config_stub, 'load_config = returns a fresh Config object and an optional path, or an io error')

    def session_new_stub(eng_, st, args, ci):
        cfg = args[0]
        sess = Opaque('Session', 'sess%d' % next(eng_.counter))
        st.notes[('lazy', sess.ident, cfg_idx)] = cfg
        st.notes[('lazy', sess.ident, err_idx)] = Tup([z3.BoolVal(False) for _ in flags], 'ReportedErrors')
        st.trace.append(('Session::new', cfg))
        return sess
    eng.stubs = [x for x in eng.stubs if 'Session::new' not in x[2]]
    eng.stub(r'^Session::<.*>::new$', session_new_stub, 'Session::new(config, out) = session holding that config with all error flags false (ReportedErrors::default)')

    return cfg_idx, err_idx, flags, gfields


def run_format_fn(ctx, eng, nfiles, check_flag=None):
    """Under-constrained symbolic execution of bin/main.rs::format with `nfiles` input files.

    Environment: load_config / Session::new / Path probes / printing are uninterpreted; format_and_emit_report is a stub that records
    which Config object the session holds at the call and havocs session.errors (frame condition: formatting an input does not
    assign session.config). Returns list of dict(path facts)."""
    name = eng.find('format', free=True)
    cfg_idx, err_idx, flags, gfields = install_env(eng)
    eng.no_inline = [re.compile(r'verify_file_lines|should_print_with_colors|used_options|to_toml')]
    st = State()
    files = Seq([Opaque('PathBuf', 'file%d' % i) for i in range(nfiles)])
    mcp = Enum('Option', 0, {})
    opts_fields = []
    check = z3.Bool('options.check') if check_flag is None else z3.BoolVal(check_flag)
    for n in gfields:
        if n == 'check':
            opts_fields.append(check)
        else:
            opts_fields.append(Opaque('GetOptsOptions.' + n, n))
    optsref = eng.ref_to(st, Tup(opts_fields, 'GetOptsOptions'), False, 'options')
    outs = eng.run(name, [files, mcp, optsref], st)
    res = []
    for o in outs:
        if o.kind == 'unwind':
            raise Inconclusive('unwinding assertion in format(): %s' % (o.info,))
        d = {'outcome': o, 'check': check}
        tr = o.state.trace
        d['fer'] = [t for t in tr if t[0] == 'format_and_emit_report']
        d['loads'] = [t for t in tr if t[0] == 'load_config']
        d['new'] = [t for t in tr if t[0] == 'Session::new']
        res.append(d)
    return res, dict(cfg_idx=cfg_idx, err_idx=err_idx, flags=flags)


def final_session(eng, st, info):
    """the Session object at the end of a path: the one created by Session::new (tracked through the store)"""
    for k, v in st.store.items():
        if isinstance(v, Opaque) and v.tag == 'Session':
            yield v


def run_format_string_fn(ctx, eng):
    """bin/main.rs::format_string (standard input) with the same environment as run_format_fn; `check` and `emit_mode` symbolic."""
    name = eng.find('format_string', free=True)
    fn = eng.get_fn(name)
    cfg_idx, err_idx, flags, gfields = install_env(eng)
    eng.no_inline = [re.compile(r'verify_file_lines|should_print_with_colors|used_options|to_toml')]
    eng.stubs = [x for x in eng.stubs if 'file_lines().files()' not in x[2]]
    eng.stub(r'Files<.*> as (std::iter::)?Iterator>::next$', lambda e, s_, a, c: Enum('Option', 0, {}),
             'config.file_lines().files() yields nothing (the loop only prints a warning per extra file name)')
    st = State()
    check = z3.Bool('options.check')
    gf = eng.src.struct_fields('GetOptsOptions', 'src/bin/main.rs')
    vals = []
    for n, ty in gf:
        if n == 'check':
            vals.append(check)
        elif n == 'emit_mode':
            vals.append(eng.fresh_of_type(st, ty, 'options.emit_mode'))
        else:
            vals.append(Opaque('GetOptsOptions.' + n, n))
    outs = eng.run(name, [eng.fresh_str('stdin_text'), Tup(vals, 'GetOptsOptions')], st)
    res = []
    for o in outs:
        if o.kind == 'unwind':
            raise Inconclusive('unwinding assertion in format_string(): %s' % (o.info,))
        tr = o.state.trace
        res.append({'outcome': o, 'check': check, 'fer': [t for t in tr if t[0] == 'format_and_emit_report'], 'new': [t for t in tr if t[0] == 'Session::new']})
    return res, dict(cfg_idx=cfg_idx, err_idx=err_idx, flags=flags)
