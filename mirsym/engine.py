"""mirsym: path-wise symbolic execution of rustc MIR text, discharged by z3."""
import os
import re
import sys
import time
import itertools
import z3

from .values import *
from .mirparse import Mir, block_parsed, ParseError
from .srcinfo import SrcInfo

STD_ENUMS = {
    'Option': ['None', 'Some'],
    'Result': ['Ok', 'Err'],
    'ControlFlow': ['Continue', 'Break'],
    'Ordering': ['Less', 'Equal', 'Greater'],
    'EitherOrBoth': ['Both', 'Left', 'Right'],
    'Cow': ['Borrowed', 'Owned'],
    'DiffResult': ['Left', 'Both', 'Right'],      # diff::Result of the `diff` crate (declaration order)
}
STD_DISCR = {'Ordering': {'Less': -1, 'Equal': 0, 'Greater': 1}}

StrSort = z3.DeclareSort('Str')

_gen_re = re.compile(r'::<')


def strip_generics(path):
    """remove every ::<...> and <...> generic argument list from a path (keeps leading <T as Trait>)"""
    out = []
    i = 0
    n = len(path)
    depth = 0
    while i < n:
        if depth == 0 and path.startswith('::<', i):
            depth = 1
            i += 3
            continue
        ch = path[i]
        if depth > 0:
            if ch == '-' and path.startswith('->', i):
                i += 2
                continue
            if ch == '<':
                depth += 1
            elif ch == '>':
                depth -= 1
            i += 1
            continue
        out.append(ch)
        i += 1
    return ''.join(out)


def last_seg(ty):
    """last path segment of a type, references/generics stripped: '&mut config::file_lines::Range' -> 'Range'"""
    t = ty.strip()
    while True:
        t0 = t
        t = re.sub(r"^&('[a-z_]+ )?(mut )?", '', t).strip()
        if t.startswith('mut '):
            t = t[4:]
        if t == t0:
            break
    # cut generics
    d = 0
    out = []
    for ch in t:
        if ch == '<':
            d += 1
        elif ch == '>':
            d -= 1
        elif d == 0:
            out.append(ch)
    t = ''.join(out)
    return t.split('::')[-1].strip()


class Budget(Exception):
    pass


class Outcome:
    __slots__ = ('kind', 'state', 'value', 'info')

    def __init__(self, kind, state, value=None, info=None):
        self.kind = kind      # 'ret' | 'panic' | 'unwind'
        self.state = state
        self.value = value
        self.info = info

    def __repr__(self):
        return 'Outcome(%s,%r,%r)' % (self.kind, self.value, self.info)


class State:
    __slots__ = ('store', 'pc', 'trace', 'visits', 'depth', 'notes')

    def __init__(self):
        self.store = {}
        self.pc = []
        self.trace = []
        self.visits = {}
        self.depth = 0
        self.notes = {}

    def fork(self):
        s = State()
        s.store = dict(self.store)
        s.pc = list(self.pc)
        s.trace = list(self.trace)
        s.visits = dict(self.visits)
        s.depth = self.depth
        s.notes = dict(self.notes)
        return s

    def assume(self, c):
        self.pc.append(c)


class Forks:
    def __init__(self, alts):
        self.alts = alts   # list of (state, value)


class PanicNow:
    def __init__(self, msg):
        self.msg = msg


class CallInfo:
    __slots__ = ('func', 'dest_ty', 'frame', 'fn', 'bb', 'arg_ops')


class Engine:
    def __init__(self, mir_paths, repo='/repo', loop_bound=8, inline_depth=12):
        if isinstance(mir_paths, str):
            mir_paths = [mir_paths]
        self.mirs = [Mir(p) for p in mir_paths]
        self.src = SrcInfo(repo)
        self.solver = z3.Solver()
        self.loop_bound = loop_bound
        self.inline_depth = inline_depth
        self.intrinsics = []      # (regex, fn, label)
        self.stubs = []           # per-check (regex, fn, label)
        self.struct_models = {}   # type last segment -> fn(eng, st, base) building a symbolic value
        self.inline_pred = None   # harness hook: (eng, name, callee) -> bool, consulted when inline_only does not list the callee
        self.type_models = []     # harness hook: (regex over the full type text, maker(eng, st, base, ty)) consulted first by fresh_of_type
        self.unsupported_as_outcome = False   # harness option: a path that leaves the executor's vocabulary ends as Outcome('unsupported')
        self.lenient = False      # under-constrained mode: unknown callees become uninterpreted calls
        self.block_budget = None  # deterministic exploration budget (basic blocks) for bug-hunting scans
        self.merge_closure_calls = False   # pure closure calls are summarised into one ite value instead of forking
        self.ignored = []         # regexes of callees that are no-ops for the property (printing); return unit, no trace
        self.usize_bound = None   # if set: every fresh usize (lazy fields, uninterpreted results) is assumed below it
        self.inline_only = None   # if set: only crate functions matching one of these regexes are inlined
        self.uninterpreted = []   # regexes of callees treated as uninterpreted (effect trace)
        self.no_inline = []       # regexes: crate fns deliberately not inlined (treated uninterpreted)
        self.counter = itertools.count()
        self.stats = {'sat_calls': 0, 'sat_time': 0.0, 'paths': 0, 'blocks': 0, 'fns_executed': {}, 'calls_uninterpreted': {},
                      'intrinsics_used': {}}
        self._build_index()
        self.closure_index = None
        from . import intrinsics
        intrinsics.register_all(self)

    # ------------------------------------------------------------------ index / resolve
    def _build_index(self):
        self.records = []
        hdr_re = re.compile(r'<impl at ([^:>]+):(\d+):(\d+): (\d+):(\d+)>')
        for mi, mir in enumerate(self.mirs):
            for name in mir.names():
                rec = {'name': name, 'mir': mi}
                m = hdr_re.search(name)
                tail = name
                if m:
                    rec['file'] = m.group(1)
                    rec['impl_span'] = tuple(int(x) for x in m.groups()[1:])
                    tr, st = self.src.impl_info(m.group(1), *rec['impl_span'])
                    rec['trait'] = last_seg(tr) if tr else None
                    rec['self_ty'] = last_seg(st) if st else None
                    rec['prefix'] = name[:m.start()].rstrip(':')
                    tail = name[m.end():].lstrip(':')
                else:
                    rec['file'] = None
                    rec['trait'] = None
                    rec['self_ty'] = None
                    rec['prefix'] = None
                segs = tail.split('::')
                # method = first plain segment of tail; suffix = closures/promoted
                rec['tail'] = tail
                rec['method'] = segs[-1]
                rec['is_plain'] = ('{closure' not in tail and 'promoted[' not in tail and mir.headers[name].startswith('fn '))
                self.records.append(rec)
        self.by_method = {}
        for r in self.records:
            if r['is_plain']:
                self.by_method.setdefault(r['method'], []).append(r)
        self.by_name = {r['name']: r for r in self.records}

    def _first_param_ty(self, rec):
        mir = self.mirs[rec['mir']]
        hdr = mir.headers[rec['name']]
        m = re.search(re.escape(rec['name']) + r'\(_1: (.*)', hdr)
        if not m:
            return None
        # type up to ',' or ')' at depth 0
        s = m.group(1)
        d = 0
        for i, ch in enumerate(s):
            if ch in '<([':
                d += 1
            elif ch in '>)]':
                if d == 0:
                    return s[:i]
                d -= 1
            elif ch == ',' and d == 0:
                return s[:i]
        return s

    def _derive_self_ty(self, rec):
        fp = self._first_param_ty(rec)
        if fp:
            return last_seg(fp)
        hdr = self.mirs[rec['mir']].headers[rec['name']]
        m = re.search(r'\) -> (.*) \{$', hdr)
        return last_seg(m.group(1)) if m else None

    def find(self, method, self_ty=None, file=None, trait=None, free=False):
        """Locate a kernel by source-level identity (never by line number)."""
        c = []
        for r in self.by_method.get(method, []):
            if free:
                if r['file'] is None:
                    c.append(r)
                continue
            if file and r['file'] != file:
                continue
            if trait is not None and r['trait'] != trait:
                continue
            if trait is None and r['file'] and r['trait'] is not None and self_ty is not None and r['self_ty'] is None:
                continue
            if self_ty is not None:
                st = r['self_ty']
                if st is None:
                    st = self._derive_self_ty(r)
                if st != self_ty:
                    continue
            c.append(r)
        if trait is None and len(c) > 1:
            c2 = [r for r in c if r['trait'] is None]
            if c2:
                c = c2
        if len(c) != 1:
            raise KeyError('kernel not found or ambiguous: %s %s %s %s -> %s' % (method, self_ty, file, trait, [r['name'] for r in c]))
        return c[0]['name']

    def get_fn(self, name):
        r = self.by_name[name]
        return self.mirs[r['mir']].get(name)

    def fn_file(self, name):
        """source file a function's body comes from (impl headers carry it; for free functions it is read from the first span comment)"""
        memo = self.__dict__.setdefault('_fn_file', {})
        if name in memo:
            return memo[name]
        r = self.by_name.get(name) or {}
        f = r.get('file')
        if not f and r:
            mir = self.mirs[r['mir']]
            try:
                s0, e0 = mir.index[name]
                for ln in mir.lines[s0:min(e0, s0 + 400)]:
                    m = re.search(r'\bat (src/[^:\s]+\.rs):\d+', ln)
                    if m:
                        f = m.group(1)
                        break
            except Exception:
                f = None
        memo[name] = f or ''
        return memo[name]

    def resolve_call(self, callee, nargs):
        """callee text from a MIR call terminator -> header name or None"""
        mi = re.match(r"^((?:[A-Za-z_0-9]+::)*)<impl (?:<[^>]*> )?([A-Za-z_0-9:]+)(?:<.*?>)?>::([A-Za-z_0-9]+)(?:::<.*>)?$", callee)
        if mi:
            # inherent method of a type whose impl block lives in another module: `missed_spans::<impl FmtVisitor<'_>>::format_missing_inner`
            mod, ty, meth = mi.group(1).rstrip(':'), last_seg(mi.group(2)), mi.group(3)
            c = [r for r in self.by_method.get(meth, []) if r['file'] and r['self_ty'] == ty and r['trait'] is None]
            if len(c) > 1 and mod:
                c2 = [r for r in c if r['prefix'] and r['prefix'].split('::')[-1] == mod.split('::')[-1]]
                if c2:
                    c = c2
            if len(c) > 1:
                c2 = [r for r in c if len(self.get_fn(r['name']).params) == nargs]
                if c2:
                    c = c2
            if len(c) == 1:
                return c[0]['name']
        p = strip_generics(callee)
        m = re.match(r'^<(.*) as (.*)>::([A-Za-z_0-9]+)$', p)
        if m:
            sty, tr, meth = last_seg(m.group(1)), last_seg(m.group(2)), m.group(3)
            c = []
            for r in self.by_method.get(meth, []):
                if not r['file'] or r['trait'] != tr:
                    continue
                st = r['self_ty']
                if st is None:
                    st = self._derive_self_ty(r)
                if st == sty:
                    c.append(r)
            if len(c) == 1:
                return c[0]['name']
            return None
        if p.startswith('<'):
            return None
        segs = p.split('::')
        meth = segs[-1]
        cands = self.by_method.get(meth, [])
        if not cands:
            return None
        # exact free function (never for a path into std / core / alloc: `std::fmt::format` is not the crate's `format`)
        foreign = re.match(r'^(std|core|alloc|rustc_[a-z_]+|itertools|regex|serde\w*|toml|diff|ignore|annotate_snippets|thin_vec)::', p) is not None or mi is not None
        c = [] if foreign else [r for r in cands if r['file'] is None and (r['name'] == p or r['name'].endswith('::' + p) or p.endswith('::' + r['name']))]
        if len(c) == 1:
            return c[0]['name']
        if len(segs) >= 2:
            ty = segs[-2]
            c = [r for r in cands if r['file'] and r['self_ty'] == ty and r['trait'] is None]
            if len(c) > 1:
                c2 = [r for r in c if len(self.get_fn(r['name']).params) == nargs]
                if c2:
                    c = c2
            if len(c) > 1 and len(segs) >= 3:
                c2 = [r for r in c if r['prefix'] and r['prefix'].split('::')[-1] == segs[-3]]
                if c2:
                    c = c2
            if len(c) == 1:
                return c[0]['name']
            if not c:
                # trait method called through the type path (e.g. Range::cmp)
                c = [r for r in cands if r['file'] and (r['self_ty'] == ty)]
                if len(c) == 1:
                    return c[0]['name']
        return None

    def closure_fn(self, descr):
        """'{closure@src/x.rs:1:2: 3:4}' -> header name of its body"""
        if self.closure_index is None:
            self.closure_index = {}
            for mi, mir in enumerate(self.mirs):
                for name, hdr in mir.headers.items():
                    if '{closure#' in name.split('::')[-1] if True else False:
                        m = re.search(r'\(_1: (?:&mut |&)?(\{closure@[^}]*\})', hdr)
                        if m:
                            self.closure_index.setdefault(m.group(1), name)
        return self.closure_index.get(descr)

    # ------------------------------------------------------------------ fresh values
    def fresh_name(self, base):
        return '%s!%d' % (base, next(self.counter))

    def fresh_bv(self, base, ty):
        w, _ = INT_TYPES[ty]
        return BV(z3.BitVec(self.fresh_name(base), w), ty)

    def fresh_bool(self, base):
        return z3.Bool(self.fresh_name(base))

    def fresh_str(self, base):
        return StrVal(e=z3.Const(self.fresh_name(base), StrSort))

    def enum_variants(self, name):
        if name in STD_ENUMS:
            return STD_ENUMS[name]
        return self.src.enum_variants(name)

    def variant_index(self, enum_name, variant):
        if enum_name in STD_DISCR:
            return STD_DISCR[enum_name].get(variant)        # e.g. atomic::Ordering::Release is not cmp::Ordering
        vs = self.enum_variants(enum_name)
        if vs is None or variant not in vs:
            return None
        return vs.index(variant)

    def fresh_enum(self, st, base, name, payload_makers=None):
        vs = self.enum_variants(name)
        d = z3.BitVec(self.fresh_name(base + '.d'), 64)
        if name in STD_DISCR:
            vals = list(STD_DISCR[name].values())
            st.assume(z3.Or([d == v for v in vals]))
        else:
            st.assume(z3.And(d >= 0, d < len(vs)))
        pl = {}
        if payload_makers:
            for vname, mk in payload_makers.items():
                pl[self.variant_index(name, vname)] = mk()
        elif name not in STD_DISCR:
            for vi, vname in enumerate(vs):
                pl[vi] = Opaque('payload:%s::%s' % (name, vname), next(self.counter))
        return Enum(name, d, pl)

    def fresh_of_type(self, st, ty, base='v', depth=0):
        ty = ty.strip()
        for rx, mk in self.type_models:          # harness-supplied models of types take precedence over the generic ones
            if rx.search(ty):
                return mk(self, st, base, ty)
        if ty == 'bool':
            return self.fresh_bool(base)
        if ty in INT_TYPES:
            v = self.fresh_bv(base, ty)
            if ty == 'usize' and self.usize_bound is not None:
                st.assume(z3.ULT(v.e, self.usize_bound))
            if ty == 'char':
                st.assume(z3.And(z3.ULE(v.e, 0x10FFFF), z3.Or(z3.ULT(v.e, 0xD800), z3.UGT(v.e, 0xDFFF))))
            return v
        if ty == '()':
            return UNIT
        if ty in ('&str', "&'static str", 'std::string::String', 'String', 'str') or re.fullmatch(r"&('[a-z_]+ )?(mut )?str", ty):
            return self.fresh_str(base)
        if ty.startswith('(') and ty.endswith(')'):
            parts = split_top_commas(ty[1:-1])
            return Tup([self.fresh_of_type(st, p, base + '.%d' % i, depth + 1) for i, p in enumerate(parts)])
        m = re.match(r'^(?:std::option::)?Option<(.*)>$', ty)
        if m and depth < 3:
            inner = m.group(1)
            d = z3.BitVec(self.fresh_name(base + '.d'), 64)
            st.assume(z3.Or(d == 0, d == 1))
            return Enum('Option', d, {1: Tup([self.fresh_of_type(st, inner, base + '.some', depth + 1)])})
        m = re.match(r'^(?:std::result::)?Result<(.*)>$', ty)
        if m and depth < 3:
            parts = split_top_commas(m.group(1))
            d = z3.BitVec(self.fresh_name(base + '.d'), 64)
            st.assume(z3.Or(d == 0, d == 1))
            return Enum('Result', d, {0: Tup([self.fresh_of_type(st, parts[0], base + '.ok', depth + 1)]),
                                      1: Tup([self.fresh_of_type(st, parts[1] if len(parts) > 1 else '()', base + '.err', depth + 1)])})
        m = re.match(r"^&('[a-z_]+ )?(mut )?(.*)$", ty)
        if m and depth < 4:
            inner = self.fresh_of_type(st, m.group(3), base + '.p', depth + 1)
            return Ref(self.alloc(st, inner, 'fresh'), (), bool(m.group(2)))
        for rx, mk in self.type_models:
            if rx.search(ty):
                return mk(self, st, base, ty)
        ls = last_seg(ty)
        if not ty.startswith('&') and '<' not in ty and ls in self.struct_models:
            return self.struct_models[ls](self, st, base)
        if not ty.startswith('&') and '<' not in ty:
            vs = self.enum_variants(ls)
            if vs is not None and ls not in STD_ENUMS:
                return self.fresh_enum(st, base, ls)
            if ls == 'Ordering':
                return self.fresh_enum(st, base, 'Ordering')
        return Opaque(ty, next(self.counter))

    # ------------------------------------------------------------------ solver
    def feasible(self, st, extra=None):
        conds = list(st.pc)
        if extra is not None:
            e = z3.simplify(extra)
            if z3.is_true(e):
                if not conds:
                    return True
            elif z3.is_false(e):
                return False
            conds.append(e)
        t = time.time()
        self.solver.push()
        self.solver.add(*conds)
        r = self.solver.check()
        self.solver.pop()
        self.stats['sat_calls'] += 1
        self.stats['sat_time'] += time.time() - t
        if r == z3.unknown:
            raise Unsupported('solver unknown in feasibility check')
        return r == z3.sat

    def concrete_under(self, st, bv):
        """the unique value a bit-vector has under the path condition, or None"""
        c = bv.concrete()
        if c is not None:
            return c
        self.solver.push()
        self.solver.add(*st.pc)
        r = self.solver.check()
        val = None
        if r == z3.sat:
            m = self.solver.model().eval(bv.e, model_completion=True)
            self.solver.add(bv.e != m)
            if self.solver.check() == z3.unsat:
                val = m.as_signed_long() if bv.signed else m.as_long()
        self.solver.pop()
        self.stats['sat_calls'] += 2
        return val

    # ------------------------------------------------------------------ places
    def read_projs(self, st, val, projs, frame):
        i = 0
        n = len(projs)
        while i < n:
            p = projs[i]
            k = p[0]
            if k == 'deref':
                if isinstance(val, Ref):
                    val = self.read_ref(st, val)
                elif isinstance(val, Opaque) or isinstance(val, Undef):
                    raise Unsupported('deref of %r' % (val,))
                else:
                    raise Unsupported('deref of non-ref %r' % (val,))
            elif k == 'field':
                if isinstance(val, Tup):
                    if p[1] >= len(val.items):
                        raise Unsupported('field %d of %r' % (p[1], val))
                    val = val.items[p[1]]
                elif isinstance(val, Opaque):
                    val = self.lazy_field(st, val, p[1], p[2] if len(p) > 2 else None)
                else:
                    raise Unsupported('field of %r' % (val,))
            elif k == 'downcast':
                if isinstance(val, Opaque) and self.lenient:
                    # enum of another crate held as an under-constrained object: one lazily materialised payload per variant name
                    key = ('lazy', val.ident, ('variant', p[1]))
                    if key not in st.notes:
                        st.notes[key] = Opaque('payload:%s::%s' % (val.tag, p[1]), next(self.counter))
                    val = st.notes[key]
                    i += 1
                    continue
                if not isinstance(val, Enum):
                    raise Unsupported('downcast of %r' % (val,))
                vi = self.variant_index(val.name, p[1]) if val.name else None
                if vi is None:
                    vi = self._guess_variant(val, p[1])
                val = val.payloads.get(vi, UNDEF)
                if isinstance(val, Undef):
                    raise Unsupported('downcast to absent payload %s' % (p[1],))
            elif k == 'index':
                idx = self.read_local(st, frame, p[1])
                val = self.index_seq(st, val, idx)
            elif k == 'constindex':
                if not isinstance(val, Seq):
                    raise Unsupported('constindex of %r' % (val,))
                j = (len(val.items) - p[1]) if p[3] else p[1]
                val = val.items[j]
            else:
                raise Unsupported('projection %r' % (p,))
            i += 1
        return val

    def lazy_field(self, st, op, idx, ty):
        """under-constrained objects: a field of an opaque object is materialised on first use from the
        type annotation of the MIR projection and memoised per state"""
        key = ('lazy', op.ident, idx)
        if key in st.notes:
            return st.notes[key]
        if ty is None:
            raise Unsupported('field %d of opaque %r without type' % (idx, op))
        v = self.fresh_of_type(st, ty, 'lz%s.%d' % (op.ident, idx))
        st.notes[key] = v
        return v

    def _guess_variant(self, enumv, vname):
        ext = getattr(self, 'ext_enums', {}).get(enumv.name)       # harness-supplied {variant: discriminant} for an enum of another crate
        if ext and vname in ext:
            return ext[vname]
        for nm, vs in STD_ENUMS.items():
            if vname in vs:
                if nm in STD_DISCR:
                    return STD_DISCR[nm][vname]
                return vs.index(vname)
        raise Unsupported('unknown variant %s of %s' % (vname, enumv.name))

    def index_seq(self, st, val, idx):
        if not isinstance(val, Seq):
            raise Unsupported('index of %r' % (val,))
        c = idx.concrete()
        if c is not None:
            if c >= len(val.items):
                raise Unsupported('concrete index out of range (should have been caught by bounds assert)')
            return val.items[c]
        # symbolic read: ite chain
        if not val.items:
            raise Unsupported('symbolic index into empty seq')
        res = val.items[-1]
        for j in range(len(val.items) - 2, -1, -1):
            res = merge_val(idx.e == j, val.items[j], res)
        return res

    def read_ref(self, st, ref):
        if ref.key not in st.store:
            raise Unsupported('dangling ref %r' % (ref,))
        return self._read_resolved(st, st.store[ref.key], ref.projs)

    def read_local(self, st, frame, n):
        return st.store.get((frame, n), UNDEF)

    def read_place(self, st, frame, place):
        loc, projs = place
        v = st.store.get((frame, loc), UNDEF)
        if not projs:
            return v
        return self.read_projs(st, v, projs, frame)

    def resolve_place(self, st, frame, place):
        """-> (root key, projs) with derefs resolved and index locals made concrete"""
        loc, projs = place
        key = (frame, loc)
        out = []
        for p in projs:
            if p[0] == 'deref':
                cur = self._read_resolved(st, st.store.get(key, UNDEF), tuple(out))
                if not isinstance(cur, Ref):
                    raise Unsupported('deref (write) of %r' % (cur,))
                key = cur.key
                out = list(cur.projs)
            elif p[0] == 'index':
                idx = self.read_local(st, frame, p[1])
                c = idx.concrete()
                if c is None:
                    out.append(('symindex', idx))
                else:
                    out.append(('cindex', c))
            elif p[0] == 'constindex':
                out.append(('constindex',) + p[1:])
            elif p[0] == 'field':
                out.append(('field', p[1], p[2]) if len(p) > 2 else ('field', p[1]))
            else:
                out.append(p)
        return key, tuple(out)

    def _norm_projs(self, projs):
        return projs

    def update(self, st, val, projs, newv):
        if not projs:
            return newv
        p = projs[0]
        k = p[0]
        if k == 'field':
            if isinstance(val, Undef):
                raise Unsupported('field write into undef')
            if isinstance(val, Opaque):
                # copy-on-write of a lazily materialised object
                cur = self.lazy_field(st, val, p[1], p[2] if len(p) > 2 else None)
                nv = self.update(st, cur, projs[1:], newv)
                no = Opaque(val.tag, next(self.counter), val.data)
                for kk in [kk for kk in st.notes if isinstance(kk, tuple) and kk[0] == 'lazy' and kk[1] == val.ident]:
                    st.notes[('lazy', no.ident, kk[2])] = st.notes[kk]
                st.notes[('lazy', no.ident, p[1])] = nv
                return no
            if not isinstance(val, Tup):
                raise Unsupported('field write into %r' % (val,))
            items = list(val.items)
            items[p[1]] = self.update(st, items[p[1]], projs[1:], newv)
            return Tup(items, val.name)
        if k == 'downcast':
            vi = self.variant_index(val.name, p[1]) if val.name else None
            if vi is None:
                vi = self._guess_variant(val, p[1])
            pl = dict(val.payloads)
            pl[vi] = self.update(st, pl.get(vi, UNDEF), projs[1:], newv)
            return Enum(val.name, val.discr, pl)
        if k in ('cindex', 'constindex'):
            if not isinstance(val, Seq):
                raise Unsupported('index write into %r' % (val,))
            j = p[1] if k == 'cindex' else ((len(val.items) - p[1]) if p[3] else p[1])
            items = list(val.items)
            items[j] = self.update(st, items[j], projs[1:], newv)
            return Seq(items)
        if k == 'symindex':
            if not isinstance(val, Seq):
                raise Unsupported('index write into %r' % (val,))
            items = []
            for j, it in enumerate(val.items):
                items.append(merge_val(p[1].e == j, self.update(st, it, projs[1:], newv), it))
            return Seq(items)
        raise Unsupported('update through %r' % (p,))

    def _read_resolved(self, st, val, projs):
        for p in projs:
            k = p[0]
            if k == 'field':
                if isinstance(val, Opaque):
                    val = self.lazy_field(st, val, p[1], p[2] if len(p) > 2 else None)
                elif isinstance(val, Tup):
                    val = val.items[p[1]]
                else:
                    raise Unsupported('field of %r' % (val,))
            elif k == 'downcast':
                if isinstance(val, Opaque) and self.lenient:
                    key = ('lazy', val.ident, ('variant', p[1]))
                    if key not in st.notes:
                        st.notes[key] = Opaque('payload:%s::%s' % (val.tag, p[1]), next(self.counter))
                    val = st.notes[key]
                    continue
                if not isinstance(val, Enum):
                    raise Unsupported('downcast of %r' % (val,))
                vi = self.variant_index(val.name, p[1]) if val.name else None
                if vi is None:
                    vi = self._guess_variant(val, p[1])
                if vi not in val.payloads:
                    raise Unsupported('downcast to absent payload %s' % (p[1],))
                val = val.payloads[vi]
            elif k == 'cindex':
                val = val.items[p[1]]
            elif k == 'constindex':
                val = val.items[(len(val.items) - p[1]) if p[3] else p[1]]
            elif k == 'symindex':
                val = self.index_seq(st, val, p[1])
            else:
                raise Unsupported('read resolved %r' % (p,))
        return val

    def write_place(self, st, frame, place, newv):
        key, projs = self.resolve_place(st, frame, place)
        if not projs:
            st.store[key] = newv
        else:
            st.store[key] = self.update(st, st.store.get(key, UNDEF), projs, newv)

    def write_ref(self, st, ref, newv):
        projs = tuple(self._ref_to_resolved(p) for p in ref.projs)
        if not projs:
            st.store[ref.key] = newv
        else:
            st.store[ref.key] = self.update(st, st.store.get(ref.key, UNDEF), projs, newv)

    @staticmethod
    def _ref_to_resolved(p):
        return p

    def make_ref(self, st, frame, place, mut):
        key, projs = self.resolve_place(st, frame, place)
        return Ref(key, projs, mut)

    # Ref.projs use the *resolved* vocabulary: field/downcast/cindex/constindex/symindex.
    def read_projs_resolved(self, st, val, projs):
        return self._read_resolved(st, val, projs)

    # ------------------------------------------------------------------ operands / consts
    def eval_operand(self, st, frame, fn, op):
        k = op[0]
        if k in ('copy', 'move'):
            v = self.read_place(st, frame, op[1])
            if isinstance(v, Undef):
                raise Unsupported('read of uninitialised %r in %s' % (op[1], fn.name))
            return v
        if k == 'const':
            return self.eval_const(st, fn, op[1])
        raise Unsupported('operand %r' % (op,))

    _int_const = re.compile(r'^(-?\d+)_(usize|isize|u8|i8|u16|i16|u32|i32|u64|i64|u128|i128)$')

    def eval_const(self, st, fn, txt):
        m = self._int_const.match(txt)
        if m:
            return bv_const(int(m.group(1)), m.group(2))
        if txt == 'true':
            return z3.BoolVal(True)
        if txt == 'false':
            return z3.BoolVal(False)
        if txt == '()':
            return UNIT
        m = re.fullmatch(r'(?:(?:core|std)::num::<impl )?(usize|isize|u8|i8|u16|i16|u32|i32|u64|i64)>?::(MAX|MIN)', txt)
        if m:
            w, s = INT_TYPES[m.group(1)]
            if m.group(2) == 'MAX':
                v = (1 << (w - 1)) - 1 if s else (1 << w) - 1
            else:
                v = -(1 << (w - 1)) if s else 0
            return bv_const(v, m.group(1))
        if txt.startswith('"'):
            return StrVal(s=_unescape(txt[1:-1]))
        if txt.startswith("'"):
            s = _unescape(txt[1:-1])
            return bv_const(ord(s), 'char')
        m = re.fullmatch(r'(-?[0-9.]+(?:e-?\d+)?)_?f32', txt)
        if m:
            return FP(z3.FPVal(float(m.group(1)), z3.Float32()))
        m = re.match(r'^ZeroSized: (.*)$', txt)
        if m:
            t = m.group(1)
            if t.startswith('{closure@'):
                # `{closure@..} as fn(..) -> .. (PointerCoercion(ClosureFnPointer(..)))`: the value is still the capture-less closure
                mc = re.match(r'^(\{closure@[^}]*\})', t)
                return Tup([], mc.group(1) if mc else t)
            m2 = re.search(r'\{([^{}]*)\}$', t)
            if m2:
                return FnItem(m2.group(1))
            return Tup([], last_seg(t))
        m = re.search(r'promoted\[(\d+)\]$', txt)
        if m:
            name = fn.name.split('::promoted[')[0] + '::promoted[%s]' % m.group(1)
            return self.eval_const_item(st, name)
        # unit enum variants / unit structs spelled as consts, fn items
        p = strip_generics(txt)
        segs = p.split('::')
        if len(segs) >= 2:
            vi = self.variant_index(segs[-2], segs[-1])
            if vi is not None:
                return Enum(segs[-2], vi, {})
        # named constant in the dump
        for mir in self.mirs:
            for cand in (txt, p):
                if cand in mir.index:
                    if mir.headers[cand].startswith('fn '):
                        return FnItem(cand)          # a function named as a value (`map_or("", format_defaultness)`)
                    return self.eval_const_item(st, cand)
            c = [n for n in mir.names() if n.endswith('::' + p) or p.endswith('::' + n)]
            c = [n for n in c if mir.headers[n].startswith('const ') or mir.headers[n].startswith('static ')]
            if len(c) == 1:
                return self.eval_const_item(st, c[0])
        return FnItem(txt)

    def eval_const_item(self, st, name):
        key = ('const', name)
        if key in st.store:
            return st.store[key]
        fn = self.get_fn(name)
        outs = self.exec_fn(st, fn, [])
        outs = [o for o in outs if o.kind == 'ret']
        if len(outs) != 1:
            raise Unsupported('const item %s has %d outcomes' % (name, len(outs)))
        # const evaluation must not fork; state is shared (same object) in that case
        o = outs[0]
        if o.state is not st:
            st.store.update(o.state.store)
        st.store[key] = o.value
        return o.value

    # ------------------------------------------------------------------ rvalues
    def eval_rvalue(self, st, frame, fn, rv, dest_ty):
        k = rv[0]
        if k == 'use':
            return self.eval_operand(st, frame, fn, rv[1])
        if k == 'ref' or k == 'addr':
            pl = rv[2]
            if pl[1] and pl[1][-1][0] == 'deref':
                # reborrow `&*x` of a value that is itself modelled as a pointer-like atom (&str constants, opaque references)
                inner = self.read_place(st, frame, (pl[0], pl[1][:-1]))
                if isinstance(inner, (StrVal, Opaque)):
                    return inner
                if isinstance(inner, Ref):
                    return Ref(inner.key, inner.projs, rv[1])
            return self.make_ref(st, frame, rv[2], rv[1])
        if k == 'binop':
            a = self.eval_operand(st, frame, fn, rv[2])
            b = self.eval_operand(st, frame, fn, rv[3])
            return self.binop(rv[1], a, b)
        if k == 'unop':
            a = self.eval_operand(st, frame, fn, rv[2])
            if rv[1] == 'Not':
                if z3.is_bool(a):
                    return z3.Not(a)
                if isinstance(a, BV):
                    return BV(~a.e, a.ty)
            if rv[1] == 'Neg':
                if isinstance(a, BV):
                    return BV(-a.e, a.ty)
                if isinstance(a, FP):
                    return FP(z3.fpNeg(a.e))
            if rv[1] == 'PtrMetadata':
                if isinstance(a, Ref):
                    v = self.read_ref(st, a)
                    if isinstance(v, Seq):
                        return bv_const(len(v.items), 'usize')
                    if isinstance(v, StrVal) and v.s is not None:
                        return bv_const(len(v.s.encode()), 'usize')
            raise Unsupported('unop %s on %r' % (rv[1], a))
        if k == 'discr':
            v = self.read_place(st, frame, rv[1])
            if isinstance(v, Opaque) and self.lenient:
                # under-constrained enum of another crate: an unconstrained discriminant (every switch arm is explored)
                key = ('lazy', v.ident, 'discr')
                if key not in st.notes:
                    st.notes[key] = self.fresh_bv('lz%s.discr' % v.ident, 'isize')
                return st.notes[key]
            if not isinstance(v, Enum):
                raise Unsupported('discriminant of %r' % (v,))
            if dest_ty in INT_TYPES and INT_TYPES[dest_ty][0] < 64:
                # `_n = discriminant(x)` with a narrow discriminant type (Ordering: i8, so Less is printed as 255 in switch targets)
                w_ = INT_TYPES[dest_ty][0]
                return BV(z3.Extract(w_ - 1, 0, v.discr), dest_ty)
            return BV(v.discr, 'isize')
        if k == 'len':
            v = self.read_place(st, frame, rv[1])
            if isinstance(v, Seq):
                return bv_const(len(v.items), 'usize')
            raise Unsupported('Len of %r' % (v,))
        if k == 'cast':
            a = self.eval_operand(st, frame, fn, rv[1])
            return self.cast(st, a, rv[2], rv[3])
        if k == 'aggregate':
            return self.aggregate(st, frame, fn, rv, dest_ty)
        if k == 'repeat':
            a = self.eval_operand(st, frame, fn, rv[1])
            n = int(re.match(r'(\d+)', rv[2]).group(1)) if re.match(r'\d+', rv[2]) else None
            if n is None:
                raise Unsupported('repeat count %s' % rv[2])
            return Seq([a] * n)
        raise Unsupported('rvalue %r' % (rv,))

    def aggregate(self, st, frame, fn, rv, dest_ty):
        _, kind, name, ops = rv[:4]
        vals = [self.eval_operand(st, frame, fn, o) for o in ops]
        if kind == 'tuple':
            return Tup(vals)
        if kind == 'array':
            return Seq(vals)
        if name.startswith('{closure@') or name.startswith('{coroutine@'):
            return Tup(vals, name)
        p = strip_generics(name)
        segs = p.split('::')
        if len(segs) >= 2:
            vi = self.variant_index(segs[-2], segs[-1])
            if vi is not None:
                return Enum(segs[-2], vi, {vi: Tup(vals)})
        if dest_ty:
            # variant printed without its enum (imported name): resolve through the destination type
            en = last_seg(dest_ty)
            vi = self.variant_index(en, segs[-1])
            if vi is not None:
                return Enum(en, vi, {vi: Tup(vals)})
        return Tup(vals, segs[-1])

    def binop(self, op, a, b):
        if isinstance(a, Enum) and isinstance(b, Enum) and op in ('Eq', 'Ne'):
            r = a.discr == b.discr
            return r if op == 'Eq' else z3.Not(r)
        if z3.is_bool(a) and z3.is_bool(b):
            if op == 'Eq':
                return a == b
            if op == 'Ne':
                return a != b
            if op == 'BitAnd':
                return z3.And(a, b)
            if op == 'BitOr':
                return z3.Or(a, b)
            if op == 'BitXor':
                return z3.Xor(a, b)
            if op in ('Lt', 'Le', 'Gt', 'Ge'):
                ai, bi = z3.If(a, 1, 0), z3.If(b, 1, 0)
                return {'Lt': ai < bi, 'Le': ai <= bi, 'Gt': ai > bi, 'Ge': ai >= bi}[op]
            raise Unsupported('bool binop %s' % op)
        if isinstance(a, FP) and isinstance(b, FP):
            rm = z3.RNE()
            if op == 'Add':
                return FP(z3.fpAdd(rm, a.e, b.e))
            if op == 'Sub':
                return FP(z3.fpSub(rm, a.e, b.e))
            if op == 'Mul':
                return FP(z3.fpMul(rm, a.e, b.e))
            if op == 'Div':
                return FP(z3.fpDiv(rm, a.e, b.e))
            if op == 'Lt':
                return z3.fpLT(a.e, b.e)
            if op == 'Le':
                return z3.fpLEQ(a.e, b.e)
            if op == 'Gt':
                return z3.fpGT(a.e, b.e)
            if op == 'Ge':
                return z3.fpGEQ(a.e, b.e)
            if op == 'Eq':
                return z3.fpEQ(a.e, b.e)
            if op == 'Ne':
                return z3.Not(z3.fpEQ(a.e, b.e))
            raise Unsupported('fp binop %s' % op)
        if not (isinstance(a, BV) and isinstance(b, BV)):
            raise Unsupported('binop %s on %r, %r' % (op, a, b))
        s = a.signed
        x, y = a.e, b.e
        if op in ('Shl', 'Shr', 'ShlUnchecked', 'ShrUnchecked'):
            if y.size() != x.size():
                y = z3.ZeroExt(x.size() - y.size(), y) if y.size() < x.size() else z3.Extract(x.size() - 1, 0, y)
            if op.startswith('Shl'):
                return BV(x << y, a.ty)
            return BV((x >> y) if s else z3.LShR(x, y), a.ty)
        if x.size() != y.size():
            raise Unsupported('binop width mismatch %s %r %r' % (op, a, b))
        if op in ('Add', 'AddUnchecked'):
            return BV(x + y, a.ty)
        if op in ('Sub', 'SubUnchecked'):
            return BV(x - y, a.ty)
        if op in ('Mul', 'MulUnchecked'):
            return BV(x * y, a.ty)
        if op == 'Div':
            return BV((x / y) if s else z3.UDiv(x, y), a.ty)
        if op == 'Rem':
            return BV(z3.SRem(x, y) if s else z3.URem(x, y), a.ty)
        if op == 'BitAnd':
            return BV(x & y, a.ty)
        if op == 'BitOr':
            return BV(x | y, a.ty)
        if op == 'BitXor':
            return BV(x ^ y, a.ty)
        if op == 'Eq':
            return x == y
        if op == 'Ne':
            return x != y
        if op == 'Lt':
            return (x < y) if s else z3.ULT(x, y)
        if op == 'Le':
            return (x <= y) if s else z3.ULE(x, y)
        if op == 'Gt':
            return (x > y) if s else z3.UGT(x, y)
        if op == 'Ge':
            return (x >= y) if s else z3.UGE(x, y)
        if op == 'AddWithOverflow':
            ovf = z3.Not(z3.BVAddNoOverflow(x, y, s))
            if s:
                ovf = z3.Or(ovf, z3.Not(z3.BVAddNoUnderflow(x, y)))
            return Tup([BV(x + y, a.ty), ovf])
        if op == 'SubWithOverflow':
            if s:
                ovf = z3.Or(z3.Not(z3.BVSubNoOverflow(x, y)), z3.Not(z3.BVSubNoUnderflow(x, y, True)))
            else:
                ovf = z3.ULT(x, y)
            return Tup([BV(x - y, a.ty), ovf])
        if op == 'MulWithOverflow':
            # portable encoding (cvc5 has no bvumul_noovfl): multiply in twice the width
            w = x.size()
            if s:
                wide = z3.SignExt(w, x) * z3.SignExt(w, y)
                ovf = wide != z3.SignExt(w, z3.Extract(w - 1, 0, wide))
            else:
                wide = z3.ZeroExt(w, x) * z3.ZeroExt(w, y)
                ovf = z3.Extract(2 * w - 1, w, wide) != 0
            return Tup([BV(x * y, a.ty), ovf])
        if op == 'Cmp':
            lt = (x < y) if s else z3.ULT(x, y)
            d = z3.If(lt, z3.BitVecVal(-1, 64), z3.If(x == y, z3.BitVecVal(0, 64), z3.BitVecVal(1, 64)))
            return Enum('Ordering', d, {})
        raise Unsupported('binop %s' % op)

    def cast(self, st, a, ty, kind):
        if kind.startswith('PointerCoercion') or kind in ('PtrToPtr',):
            return a
        if kind == 'IntToInt':
            if isinstance(a, Enum):
                a = BV(a.discr, 'isize')
            if z3.is_bool(a):
                a = BV(z3.If(a, z3.BitVecVal(1, 8), z3.BitVecVal(0, 8)), 'u8')
            if not isinstance(a, BV) or ty not in INT_TYPES:
                raise Unsupported('IntToInt %r -> %s' % (a, ty))
            w, _ = INT_TYPES[ty]
            sw = a.e.size()
            if w == sw:
                return BV(a.e, ty)
            if w < sw:
                return BV(z3.Extract(w - 1, 0, a.e), ty)
            return BV(z3.SignExt(w - sw, a.e) if a.signed else z3.ZeroExt(w - sw, a.e), ty)
        if kind == 'IntToFloat':
            if ty != 'f32' or not isinstance(a, BV):
                raise Unsupported('IntToFloat to %s' % ty)
            e = z3.fpSignedToFP(z3.RNE(), a.e, z3.Float32()) if a.signed else z3.fpUnsignedToFP(z3.RNE(), a.e, z3.Float32())
            return FP(e)
        if kind == 'FloatToInt':
            if not isinstance(a, FP) or ty not in INT_TYPES:
                raise Unsupported('FloatToInt %r' % (a,))
            w, s = INT_TYPES[ty]
            if s:
                raise Unsupported('FloatToInt signed')
            # Rust `as`: saturating, NaN -> 0
            maxv = z3.BitVecVal((1 << w) - 1, w)
            x = a.e
            toobig = z3.fpGEQ(x, z3.FPVal(float(1 << w), z3.Float32()))
            neg = z3.fpLEQ(x, z3.FPVal(0.0, z3.Float32()))
            conv = z3.fpToUBV(z3.RTZ(), x, z3.BitVecSort(w))
            e = z3.If(z3.fpIsNaN(x), z3.BitVecVal(0, w), z3.If(neg, z3.BitVecVal(0, w), z3.If(toobig, maxv, conv)))
            return BV(e, ty)
        if kind == 'Transmute':
            return a
        raise Unsupported('cast kind %s' % kind)

    # ------------------------------------------------------------------ execution
    def exec_fn(self, st, fn, args, start_bb=0, init_locals=None):
        """-> list of Outcome. `st` is consumed (may be mutated / shared with one outcome).
        start_bb/init_locals: begin in the middle of the function from a harness-supplied frame (inductive steps over loops)."""
        frame = next(self.counter)
        self.stats['fns_executed'][fn.name] = fn.fingerprint
        if init_locals is not None:
            for k, v in init_locals.items():
                st.store[(frame, k)] = v
        elif len(args) != len(fn.params):
            raise Unsupported('arity mismatch calling %s: %d vs %d' % (fn.name, len(args), len(fn.params)))
        else:
            for (p, _), a in zip(fn.params, args):
                st.store[(frame, p)] = a
        st.notes['frame:' + fn.name] = frame
        if st.depth > self.inline_depth:
            raise Unsupported('inline depth exceeded at %s' % fn.name)
        st.depth += 1
        outcomes = []
        work = [(st, start_bb)]
        while work:
            s, bb = work.pop()
            if self.unsupported_as_outcome:
                try:
                    self._run_block(s, frame, fn, bb, work, outcomes)
                except Unsupported as e:
                    # the path ends where the executor's vocabulary ends; the harness decides what that means
                    outcomes.append(Outcome('unsupported', s, None, {'msg': str(e), 'fn': fn.name}))
            else:
                self._run_block(s, frame, fn, bb, work, outcomes)
        for o in outcomes:
            o.state.depth -= 1
        return outcomes

    def _run_block(self, s, frame, fn, bb, work, outcomes):
        while True:
            self.stats['blocks'] += 1
            if self.block_budget is not None:
                self.block_budget -= 1
                if self.block_budget < 0:
                    raise Budget('block budget exhausted in %s' % fn.name)
            vk = (frame, bb)
            c = s.visits.get(vk, 0) + 1
            s.visits[vk] = c
            if c > self.loop_bound:
                outcomes.append(Outcome('unwind', s, None, '%s bb%d' % (fn.name, bb)))
                return
            blk = fn.blocks[bb]
            stmts, term = block_parsed(blk)
            for stt in stmts:
                k = stt[0]
                if k == 'assign':
                    dty = fn.locals.get(stt[1][0]) if not stt[1][1] else None
                    v = self.eval_rvalue(s, frame, fn, stt[2], dty)
                    self.write_place(s, frame, stt[1], v)
                elif k == 'nop':
                    pass
                elif k == 'setdiscr':
                    cur = self.read_place(s, frame, stt[1])
                    if isinstance(cur, Enum):
                        self.write_place(s, frame, stt[1], Enum(cur.name, stt[2], cur.payloads))
                    else:
                        raise Unsupported('setdiscr on %r' % (cur,))
                else:
                    raise Unsupported('statement %r in %s bb%d' % (stt[1:], fn.name, bb))
            k = term[0]
            if k == 'goto':
                bb = term[1]
                continue
            if k == 'return':
                outcomes.append(Outcome('ret', s, s.store.get((frame, 0), UNIT)))
                return
            if k == 'drop':
                bb = term[2]
                continue
            if k == 'unreachable':
                if self.feasible(s):
                    if self.lenient:
                        # under-constrained objects carry unconstrained discriminants; rustc's validity invariant excludes this path
                        self.stats['lenient_unreachable_pruned'] = self.stats.get('lenient_unreachable_pruned', 0) + 1
                        return
                    if os.environ.get('MIRSYM_DEBUG'):
                        for (fr_, k_), v_ in list(s.store.items()):
                            if fr_ == frame:
                                print('[mirsym] unreachable: _%s = %s' % (k_, repr(v_)[:200]), file=sys.stderr)
                    raise Unsupported('feasible path reaches `unreachable` in %s bb%d' % (fn.name, bb))
                return
            if k == 'switch':
                v = self.eval_operand(s, frame, fn, term[1])
                self._dbg = (fn.name, bb, term[1])
                alts = self._switch_alts(s, v, term[2], term[3])
                if not alts:
                    return
                for (cond, tgt) in alts[1:]:
                    s2 = s.fork()
                    if cond is not None:
                        s2.assume(cond)
                    work.append((s2, tgt))
                cond, tgt = alts[0]
                if cond is not None:
                    s.assume(cond)
                bb = tgt
                continue
            if k == 'assert':
                cv = self.eval_operand(s, frame, fn, term[1])
                ok = cv if term[2] else z3.Not(cv)
                ok = z3.simplify(ok)
                if z3.is_true(ok):
                    bb = term[4]
                    continue
                bad_feasible = self.feasible(s, z3.Not(ok))
                ok_feasible = (not z3.is_false(ok)) and self.feasible(s, ok)
                if bad_feasible:
                    sp = s.fork() if ok_feasible else s
                    sp.assume(z3.Not(ok))
                    outcomes.append(Outcome('panic', sp, None, {'msg': term[3], 'fn': fn.name, 'bb': bb, 'kind': 'assert',
                                                                'span': (blk.get('spans') or [None])[-1]}))
                if ok_feasible:
                    s.assume(ok)
                    bb = term[4]
                    continue
                return
            if k == 'call':
                res = self._do_call(s, frame, fn, bb, term)
                # res: list of (state, kind, value/info)
                first = None
                for (s2, kind, val) in res:
                    if kind == 'ret':
                        if term[4] is None:
                            continue  # diverging call returned?? ignore
                        self.write_place(s2, frame, term[1], val)
                        if first is None:
                            first = s2
                        else:
                            work.append((s2, term[4]))
                    else:
                        if isinstance(val, dict) and val.get('fn') == fn.name and 'span' not in val:
                            val['span'] = (blk.get('spans') or [None])[-1]
                        outcomes.append(Outcome(kind, s2, None, val))
                if first is None:
                    return
                s = first
                bb = term[4]
                continue
            if k in ('resume', 'abort'):
                return
            raise Unsupported('terminator %r in %s bb%d' % (term, fn.name, bb))

    def _switch_alts(self, s, v, targets, otherwise):
        if z3.is_bool(v):
            e = z3.If(v, z3.BitVecVal(1, 8), z3.BitVecVal(0, 8))
        elif isinstance(v, BV):
            e = v.e
        elif isinstance(v, Enum):
            e = v.discr
        else:
            raise Unsupported('switchInt on %r (operand %r)' % (v, self._dbg))
        w = e.size()
        es = z3.simplify(e)
        if z3.is_bv_value(es):
            cv = es.as_long()
            for (tv, tgt) in targets:
                if (tv % (1 << w)) == cv:
                    return [(None, tgt)]
            if otherwise is None:
                return []
            return [(None, otherwise)]
        alts = []
        neg = []
        for (tv, tgt) in targets:
            if z3.is_bool(v):
                c = v if tv != 0 else z3.Not(v)
            else:
                c = (e == z3.BitVecVal(tv, w))
            neg.append(z3.Not(c))
            if self.feasible(s, c):
                alts.append((c, tgt))
        if otherwise is not None:
            c = z3.And(neg) if len(neg) > 1 else neg[0]
            if self.feasible(s, c):
                alts.append((c, otherwise))
        return alts

    # ------------------------------------------------------------------ calls
    def _do_call(self, s, frame, fn, bb, term):
        _, dest, func, ops, ret = term
        args = [self.eval_operand(s, frame, fn, o) for o in ops]
        if not dest[1]:
            dest_ty = fn.locals.get(dest[0])
        elif dest[1][-1][0] == 'field' and len(dest[1][-1]) > 2:
            dest_ty = dest[1][-1][2]
        else:
            dest_ty = None
        if func[0] == 'operand':
            fv = self.eval_operand(s, frame, fn, func[1])
            return self.call_value(s, fv, args, dest_ty)
        callee = func[1]
        ci = CallInfo()
        ci.func = callee
        ci.dest_ty = dest_ty
        ci.frame = frame
        ci.fn = fn
        ci.bb = bb
        ci.arg_ops = ops
        return self.call_path(s, callee, args, ci)

    def call_value(self, s, fv, args, dest_ty):
        """call a closure value / fn item with already-evaluated args (args NOT tupled)"""
        if isinstance(fv, Ref):
            tgt = self.read_ref(s, fv)
            if isinstance(tgt, Tup) and tgt.name and tgt.name.startswith('{closure@'):
                name = self.closure_fn(tgt.name)
                if name is None:
                    raise Unsupported('closure body not found %s' % tgt.name)
                cfn = self.get_fn(name)
                return self._inline(s, cfn, [fv] + list(args))
            fv = tgt
        if isinstance(fv, Tup) and fv.name and fv.name.startswith('{closure@'):
            name = self.closure_fn(fv.name)
            if name is None:
                raise Unsupported('closure body not found %s' % fv.name)
            cfn = self.get_fn(name)
            p1 = cfn.params[0][1] if cfn.params else ''
            if p1.startswith('&'):
                key = ('tmp', next(self.counter))
                s.store[key] = fv
                selfarg = Ref(key, (), True)
            else:
                selfarg = fv
            return self._inline(s, cfn, [selfarg] + list(args))
        if isinstance(fv, FnItem):
            ci = CallInfo()
            ci.func = fv.path
            ci.dest_ty = dest_ty
            ci.frame = None
            ci.fn = None
            ci.bb = None
            ci.arg_ops = None
            return self.call_path(s, fv.path, list(args), ci)
        raise Unsupported('call of value %r' % (fv,))

    def _inline(self, s, cfn, args):
        outs = self.exec_fn(s, cfn, args)
        res = []
        for o in outs:
            if o.kind == 'ret':
                res.append((o.state, 'ret', o.value))
            else:
                res.append((o.state, o.kind, o.info))
        return res

    def call_path(self, s, callee, args, ci):
        # 0. per-check environment stubs (listed in evidence)
        for rx, f, label in self.stubs:
            if rx.search(callee):
                self.stats['intrinsics_used']['stub: ' + label] = self.stats['intrinsics_used'].get('stub: ' + label, 0) + 1
                r = f(self, s, args, ci)
                if r is NotImplemented:       # the stub declines this callee
                    continue
                if isinstance(r, Forks):
                    return [(s2, 'ret', v) for (s2, v) in r.alts]
                if isinstance(r, list):
                    return r
                return [(s, 'ret', r)]
        # 1. intrinsics
        for rx, f, label in self.intrinsics:
            if rx.search(callee):
                self.stats['intrinsics_used'][label] = self.stats['intrinsics_used'].get(label, 0) + 1
                try:
                    r = f(self, s, args, ci)
                except (Unsupported, AttributeError, TypeError, KeyError, IndexError, AssertionError) as e:
                    if self.lenient:
                        if os.environ.get('MIRSYM_DEBUG'):
                            print('[mirsym] summary %s does not apply to %s: %s: %s' % (label, callee[:80], type(e).__name__, e), file=sys.stderr)
                        self.stats.setdefault('summaries_declined', {})[label] = str(e)[:120]
                        return [(s, 'ret', self.uninterpreted_call(s, callee, args, ci))]
                    if isinstance(e, Unsupported):
                        raise
                    raise Unsupported('summary %s does not apply to these arguments (%s: %s)' % (label, type(e).__name__, e))
                if isinstance(r, Forks):
                    return [(s2, 'ret', v) for (s2, v) in r.alts]
                if isinstance(r, PanicNow):
                    return [(s, 'panic', {'msg': r.msg, 'fn': ci.fn.name if ci.fn else '?', 'bb': ci.bb, 'kind': 'call:' + callee})]
                if isinstance(r, list):
                    return r
                return [(s, 'ret', r)]
        # 2. closures invoked through Fn* traits
        m = re.match(r'^<(?:&mut |&)?(\{closure@[^}]*\}) as (?:std::ops::|core::ops::)?Fn(?:Mut|Once)?<.*>>::call(?:_mut|_once)?$', callee)
        if not m and re.match(r'^<.* as (?:std::ops::|core::ops::)?Fn(?:Mut|Once)?<.*>>::call(?:_mut|_once)?$', callee) and len(args) == 2 and isinstance(args[1], Tup):
            # generic F: dispatch on the value actually passed
            f0 = args[0]
            probe = self.read_ref(s, f0) if isinstance(f0, Ref) else f0
            if isinstance(probe, FnItem) or (isinstance(probe, Tup) and probe.name and probe.name.startswith('{closure@') and self.closure_fn(probe.name)):
                m = True
        if m:
            # args: (closure or ref, tuple of args)
            packed = args[1]
            if self.merge_closure_calls:
                from .intrinsics import merged_call_value
                try:
                    return [(s, 'ret', merged_call_value(self, s, args[0], list(packed.items), ci.dest_ty))]
                except (Unsupported, MergeFail):
                    pass
            f0 = args[0]
            if isinstance(f0, Ref) and f0.key not in s.store and m is not True:
                f0 = Tup([], m.group(1))      # capture-less closure held in a never-assigned (zero-sized) local
            return self.call_value(s, f0, list(packed.items), ci.dest_ty)
        for rx in self.ignored:
            if rx.search(callee):
                self.stats['calls_uninterpreted']['ignored: ' + callee] = self.stats['calls_uninterpreted'].get('ignored: ' + callee, 0) + 1
                return [(s, 'ret', self.fresh_of_type(s, ci.dest_ty or '()', 'ign'))]
        # 3. deliberately not inlined / uninterpreted
        for rx in self.no_inline + self.uninterpreted:
            if rx.search(callee):
                return [(s, 'ret', self.uninterpreted_call(s, callee, args, ci))]
        # 4. inline crate function
        name = self.resolve_call(callee, len(args))
        if name is not None and self.inline_only is not None and not any(rx.search(name) or rx.search(callee) or rx.search(self.fn_file(name)) for rx in self.inline_only) \
                and not (self.inline_pred is not None and self.inline_pred(self, name, callee)):
            return [(s, 'ret', self.uninterpreted_call(s, callee, args, ci))]
        if name is not None:
            cfn = self.get_fn(name)
            if cfn.kind == 'fn':
                return self._inline(s, cfn, args)
        if self.lenient:
            return [(s, 'ret', self.uninterpreted_call(s, callee, args, ci))]
        raise Unsupported('no model for callee %s (called from %s)' % (callee, ci.fn.name if ci.fn else '?'))

    def uninterpreted_call(self, s, callee, args, ci):
        self.stats['calls_uninterpreted'][callee] = self.stats['calls_uninterpreted'].get(callee, 0) + 1
        # havoc &mut pointees
        for a in args:
            if isinstance(a, Ref) and a.mut:
                try:
                    cur = self.read_ref(s, a)
                except Unsupported:
                    continue
                self.write_ref(s, a, self.havoc_like(s, cur))
        res = self.fresh_of_type(s, ci.dest_ty or '()', 'ret')
        s.trace.append(('call', callee, tuple(args), res))
        return res

    def havoc_like(self, s, v):
        if z3.is_bool(v):
            return self.fresh_bool('hv')
        if isinstance(v, BV):
            return self.fresh_bv('hv', v.ty)
        if isinstance(v, Tup):
            return Tup([self.havoc_like(s, x) for x in v.items], v.name)
        if isinstance(v, Enum):
            d = z3.BitVec(self.fresh_name('hv.d'), 64)
            vs = self.enum_variants(v.name) if v.name else None
            if v.name in STD_DISCR:
                s.assume(z3.Or([d == x for x in STD_DISCR[v.name].values()]))
            elif vs:
                s.assume(z3.And(d >= 0, d < len(vs)))
            return Enum(v.name, d, {k: self.havoc_like(s, p) for k, p in v.payloads.items()})
        if isinstance(v, StrVal):
            return self.fresh_str('hv')
        if isinstance(v, Seq):
            return Opaque('havoc-seq', next(self.counter))
        return Opaque('havoc', next(self.counter))

    # ------------------------------------------------------------------ harness helpers
    def run_from(self, name, start_bb, locals_by_name, st=None, extra_locals=None):
        """execute from basic block `start_bb` with source-level variables given by name (via MIR debug info)"""
        st = st or State()
        fn = self.get_fn(name)
        init = {}
        for k, v in locals_by_name.items():
            if k not in fn.debug:
                raise Unsupported('no debug info for variable %s in %s' % (k, name))
            init[fn.debug[k]] = v
        for k, v in (extra_locals or {}).items():
            init[k] = v
        outs = self.exec_fn(st, fn, [], start_bb=start_bb, init_locals=init)
        self.stats['paths'] += len(outs)
        return outs

    def local_by_name(self, st, name, var):
        fn = self.get_fn(name)
        frame = st.notes.get('frame:' + name)
        return st.store.get((frame, fn.debug[var]), UNDEF)

    def run(self, name, args, st=None):
        st = st or State()
        fn = self.get_fn(name)
        outs = self.exec_fn(st, fn, args)
        self.stats['paths'] += len(outs)
        return outs

    def stub(self, pattern, f, label):
        self.stubs.append((re.compile(pattern), f, label))

    def alloc(self, st, val, tag='obj'):
        key = (tag, next(self.counter))
        st.store[key] = val
        return key

    def ref_to(self, st, val, mut=False, tag='obj'):
        return Ref(self.alloc(st, val, tag), (), mut)


def split_top_commas(s):
    parts = []
    d = 0
    cur = []
    i = 0
    n = len(s)
    while i < n:
        ch = s[i]
        if ch == '-' and s.startswith('->', i):
            cur.append('->')
            i += 2
            continue
        if ch in '<([':
            d += 1
        elif ch in '>)]':
            d -= 1
        if ch == ',' and d == 0:
            parts.append(''.join(cur).strip())
            cur = []
        else:
            cur.append(ch)
        i += 1
    t = ''.join(cur).strip()
    if t:
        parts.append(t)
    return parts


def _unescape(s):
    out = []
    i = 0
    n = len(s)
    while i < n:
        ch = s[i]
        if ch == '\\' and i + 1 < n:
            nx = s[i + 1]
            if nx == 'n':
                out.append('\n'); i += 2; continue
            if nx == 't':
                out.append('\t'); i += 2; continue
            if nx == 'r':
                out.append('\r'); i += 2; continue
            if nx == '0':
                out.append('\0'); i += 2; continue
            if nx in '\\"\'':
                out.append(nx); i += 2; continue
            if nx == 'u':
                j = s.index('}', i)
                out.append(chr(int(s[i + 3:j], 16)))
                i = j + 1
                continue
            if nx == 'x':
                out.append(chr(int(s[i + 2:i + 4], 16)))
                i += 4
                continue
        out.append(ch)
        i += 1
    return ''.join(out)
