#!/usr/bin/env python3
"""store a confirmed seeded change: seed_store.py <PROP> <n> <worktree> [<n_dst>]  (confirm.log is read from <worktree>/OUT/<n>/ or build/seedconf)"""
import json, os, shutil, sys, re
pid, n, wt = sys.argv[1], sys.argv[2], sys.argv[3]
src = os.path.join(wt, 'OUT', n)
ndst = sys.argv[4] if len(sys.argv) > 4 else n
dst = '/verif/seeded/%s-%s' % (pid, ndst)
os.makedirs(dst, exist_ok=True)
for f in ('patch.diff', 'demo.sh', 'notes.md'):
    shutil.copy(os.path.join(src, f), os.path.join(dst, f))
cl = os.path.join(src, 'confirm.log')
if not os.path.exists(cl):
    cl = '/verif/build/seedconf/%s-%s/confirm.log' % (pid, n)
conf = open(cl).read().strip().split('\n')
notes = open(os.path.join(src, 'notes.md')).read()
meta = {
    'property': pid,
    'files_touched': sorted(set(re.findall(r'^\+\+\+ b/(\S+)', open(os.path.join(src, 'patch.diff')).read(), re.M))),
    'needs_to_manifest': 'see notes.md',
    'confirmed_by': 'tools/seed_confirm.sh in a scratch worktree: patch applied, cargo build, demo.sh (must fail), cargo nextest run --workspace (must pass), patch reverted, demo.sh (must pass)',
    'confirmation': conf[-2:],
    'detected_by': None,
}
json.dump(meta, open(os.path.join(dst, 'meta.json'), 'w'), indent=1)
print('stored', dst)
