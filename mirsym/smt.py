"""Discharging obligations: SMT-LIB2 files, a process pool of cvc5 / z3 / z3-new, models via get-value."""
import os
import re
import subprocess
import time
import shutil
import concurrent.futures as cf
import z3

SOLVERS = {
    'cvc5': lambda f, t: ['cvc5', '--lang', 'smt2', '--strings-exp', '--tlimit=%d' % int(t * 1000), f],
    'cvc5-int': lambda f, t: ['cvc5', '--lang', 'smt2', '--solve-bv-as-int=sum', '--tlimit=%d' % int(t * 1000), f],
    'z3': lambda f, t: ['/usr/bin/z3', '-T:%d' % int(t), f],
    'z3-new': lambda f, t: ['z3-new', '-T:%d' % int(t), f],
}


class Obligation:
    __slots__ = ('name', 'assertions', 'expect', 'meta', 'model_vars', 'group', 'model_hint')

    def __init__(self, name, assertions, expect='unsat', meta=None, model_vars=None, group=None, model_hint=None):
        self.model_hint = model_hint   # extra assertions tried first when extracting a model (e.g. small values)
        self.name = name
        self.assertions = list(assertions)
        self.expect = expect          # 'unsat' (property) | 'sat' (vacuity witness / cover)
        self.meta = meta or {}
        self.model_vars = model_vars or []   # z3 consts whose values are wanted on sat
        self.group = group


class Result:
    __slots__ = ('ob', 'verdict', 'solver', 'time', 'model', 'detail', 'cross', 'size')

    def __init__(self, ob):
        self.ob = ob
        self.verdict = None
        self.solver = None
        self.time = 0.0
        self.model = None
        self.detail = ''
        self.cross = {}
        self.size = 0


def to_smt2(assertions, model_vars=None, get_values=False):
    s = z3.Solver()
    s.add(*assertions)
    if get_values and model_vars:
        # make sure every requested constant is declared even if the obligation does not mention it
        for v in model_vars:
            s.add(z3.Or(v == v, z3.BoolVal(True)) if False else (v == v))
    body = s.sexpr()
    # z3-internal spellings of standard operators (divisor known non-zero: MIR asserts it before every division)
    for a, b in (('bvudiv_i', 'bvudiv'), ('bvurem_i', 'bvurem'), ('bvsdiv_i', 'bvsdiv'), ('bvsrem_i', 'bvsrem'), ('bvsmod_i', 'bvsmod')):
        body = body.replace('(' + a + ' ', '(' + b + ' ')
    out = ['(set-logic ALL)']
    if get_values:
        out.append('(set-option :produce-models true)')
    out.append(body)
    out.append('(check-sat)')
    if get_values and model_vars:
        out.append('(get-value (%s))' % ' '.join(v.sexpr() for v in model_vars))
    return '\n'.join(out) + '\n'


def run_solver(solver, path, timeout):
    t = time.time()
    try:
        p = subprocess.run(SOLVERS[solver](path, timeout), capture_output=True, text=True, timeout=timeout + 10)
        out = p.stdout + p.stderr
    except subprocess.TimeoutExpired:
        return 'timeout', '', time.time() - t
    dt = time.time() - t
    first = out.strip().split('\n')[0].strip() if out.strip() else ''
    if '(error' in out:
        return 'error', out[:500], dt
    if first in ('sat', 'unsat'):
        return first, out, dt
    if first == 'unknown' or 'timeout' in out or 'interrupted' in out:
        return 'timeout', out[:200], dt
    return 'error', out[:500], dt


_val_re = re.compile(r'\(\s*([^\s()]+|\|[^|]*\|)\s+(#x[0-9a-fA-F]+|#b[01]+|true|false|\(_ bv(\d+) (\d+)\))\s*\)')


def parse_values(out):
    vals = {}
    for m in _val_re.finditer(out):
        name = m.group(1).strip('|')
        v = m.group(2)
        if v.startswith('#x'):
            vals[name] = int(v[2:], 16)
        elif v.startswith('#b'):
            vals[name] = int(v[2:], 2)
        elif v == 'true':
            vals[name] = True
        elif v == 'false':
            vals[name] = False
        else:
            vals[name] = int(m.group(3))
    return vals


def _one(ob, idx, outdir, order, timeout, cross, txt, txt_model, txt_hint=None, cross_timeout=60):
    """first solver in `order` that gives a definite answer decides; with `cross`, the remaining solvers are asked too
    (shorter time limit): a different definite answer => 'disagree'; their timeouts are recorded and ignored."""
    r = Result(ob)
    path = os.path.join(outdir, '%04d_%s.smt2' % (idx, re.sub(r'[^A-Za-z0-9_.-]', '_', ob.name)[:80]))
    r.size = len(txt)
    with open(path, 'w') as f:
        f.write(txt)
    t0 = time.time()
    for sv in order:
        tl = timeout if r.verdict is None else cross_timeout
        v, out, dt = run_solver(sv, path, tl)
        r.cross[sv] = (v, round(dt, 3))
        if v in ('sat', 'unsat'):
            if r.verdict is None:
                r.verdict = v
                r.solver = sv
            elif r.verdict != v:
                r.verdict = 'disagree'
                r.detail = 'solvers disagree: %r' % (r.cross,)
                break
            if not cross:
                break
        elif v == 'error':
            r.detail += '%s: %s; ' % (sv, out[:200])
    if r.verdict is None:
        r.verdict = 'timeout' if all(x[0] == 'timeout' for x in r.cross.values()) else 'error'
    if cross and r.verdict in ('sat', 'unsat') and any(x[0] == 'error' for x in r.cross.values()):
        # an `(error` line from any solver makes the obligation inconclusive in the cross-checked tier
        r.verdict = 'error'
    if r.verdict == 'sat' and ob.model_vars and txt_hint:
        path3 = path[:-5] + '.model-small.smt2'
        with open(path3, 'w') as f:
            f.write(txt_hint)
        for sv in order:
            v, out, dt = run_solver(sv, path3, min(timeout, 20))
            if v == 'sat':
                r.model = parse_values(out)
                break
            if v == 'unsat':
                break
    if r.verdict == 'sat' and ob.model_vars and r.model is None:
        path2 = path[:-5] + '.model.smt2'
        with open(path2, 'w') as f:
            f.write(txt_model)
        for sv in [r.solver] + [s for s in order if s != r.solver]:
            v, out, dt = run_solver(sv, path2, timeout)
            if v == 'sat':
                r.model = parse_values(out)
                break
    r.time = time.time() - t0
    return r


def discharge(obls, outdir, tier='quick', workers=None, order=None, timeout=None, cross=None):
    """Run all obligations; returns list of Result in order."""
    if os.path.isdir(outdir):
        shutil.rmtree(outdir)
    os.makedirs(outdir, exist_ok=True)
    if order is None:
        order = ['cvc5', 'z3-new'] if tier == 'quick' else ['cvc5', 'z3-new', 'z3']
    if timeout is None:
        timeout = 20 if tier == 'quick' else 300
    if cross is None:
        cross = (tier != 'quick')
    workers = workers or max(1, (os.cpu_count() or 4) - 2)
    # cross-checking every obligation with three solvers is affordable up to a few hundred obligations; beyond that a
    # deterministic sample is cross-checked and every obligation is still decided by the primary portfolio
    cross_set = set(range(len(obls)))
    if cross and len(obls) > 400:
        import random as _r
        rr = _r.Random(12345)
        cross_set = set(rr.sample(range(len(obls)), 400))
    results = [None] * len(obls)
    # z3's Python API is not thread-safe: render all SMT-LIB text in this thread
    texts = [(to_smt2(ob.assertions), to_smt2(ob.assertions, ob.model_vars, True) if ob.model_vars else None,
              to_smt2(ob.assertions + list(ob.model_hint), ob.model_vars, True) if (ob.model_vars and ob.model_hint) else None) for ob in obls]
    with cf.ThreadPoolExecutor(max_workers=workers) as ex:
        futs = {ex.submit(_one, ob, i, outdir, order, timeout, bool(cross and i in cross_set), texts[i][0], texts[i][1], texts[i][2]): i for i, ob in enumerate(obls)}
        for fu in cf.as_completed(futs):
            results[futs[fu]] = fu.result()
    return results
