#!/bin/bash
# runs every registered check at the given tier sequentially; prints one line per check
TIER=${1:-quick}
for c in $(python3 -c "import json; print(' '.join(x['property_id'] for x in json.load(open('/verif/MANIFEST.json'))['checks']))"); do
  lc=$(echo $c | tr 'A-Z' 'a-z')
  s=$(date +%s)
  timeout 7200 python3-vt /verif/checks/$lc.py --tier $TIER > /verif/build/runall-$c-$TIER.log 2>&1
  rc=$?
  e=$(date +%s)
  echo "$c tier=$TIER exit=$rc wall=$((e-s))s $(grep -c KNOWN-FINDING /verif/build/runall-$c-$TIER.log) known $(tail -1 /verif/build/runall-$c-$TIER.log | cut -c1-140)"
done
