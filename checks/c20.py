"""C20 — the --backup write protocol never loses the original.

The real MIR of FilesWithBackupEmitter::emit_formatted_file is executed with std::fs::{write,rename}
as effect-trace entries returning a symbolic io::Result. The file-system state after every sub-step is
a z3 term; the crash point and the failure pattern are symbolic; the solver decides the invariants."""
from common import *
from mirsym.intrinsics import str_expr, intrinsic

FS_OPS = r'(^|::)(std::fs::)?(write|rename|copy|remove_file|hard_link|remove_dir|remove_dir_all|create_dir|create_dir_all|set_permissions)::<|(^|::)fs::|(^|::)File::(create|open|options)|OpenOptions'


def setup_stubs(eng):
    eng.uninterpreted.append(re.compile(FS_OPS))

    def with_extension(eng, st, args, ci):
        base, ext = args
        return Tup([base, ext], 'WithExt')
    eng.stub(r'^std::path::Path::with_extension::<', with_extension, 'Path::with_extension = constructor recording the extension')

    # read-only queries about the file: no effect on the modelled state
    eng.stub(r'(^|::)symlink_metadata::<|(^|::)fs::metadata::<', lambda e, s_, a, c: Enum('Result', z3.If(z3.Bool('stat.ok'), z3.BitVecVal(0, 64), z3.BitVecVal(1, 64)),
                                                                               {0: Tup([Opaque('Metadata', 'md')]), 1: Tup([Opaque('io::Error', 'stat')])}),
             'fs::symlink_metadata / fs::metadata = Ok(md) | Err, symbolic; a query without effect')
    eng.stub(r'Metadata::file_type$', lambda e, s_, a, c: Opaque('FileType', 'ft'), 'Metadata::file_type')
    eng.stub(r'FileType::is_symlink$|Metadata::is_symlink$', lambda e, s_, a, c: z3.Bool('file.is_symlink'), 'is_symlink = symbolic')

    def bool_default(eng, st, args, ci):
        return z3.BoolVal(False)
    eng.stub(r'^<bool as (std::default::)?Default>::default$', bool_default, 'bool::default() = false')


def classify_path(eng, st, v):
    """which of F / F.tmp / F.bk a path argument denotes"""
    seen = 0
    while isinstance(v, Ref) and seen < 5:
        v = eng.read_ref(st, v)
        seen += 1
    if isinstance(v, Opaque) and v.ident == 'F':
        return 'F'
    if isinstance(v, Tup) and v.name == 'WithExt':
        b = classify_path(eng, st, v.items[0])
        e = v.items[1]
        if b == 'F' and isinstance(e, StrVal) and e.s is not None:
            return 'F.' + e.s
    return None


KF_ALIAS = 'C20/backup/input-named-x.tmp-or-x.bk-is-its-own-temporary-or-backup-file'


def build(ctx):
    eng = ctx.engine('lib')
    setup_stubs(eng)
    ctx.bounds = {'files': 'one rewrite (the emitter is a stateless unit struct)', 'fs_operations_per_rewrite': '<= 6',
                  'crash_point': 'symbolic, after any sub-step (write = truncate then fill; rename atomic)',
                  'failing_operation': 'symbolic: any single operation may return Err; a failing write may or may not have truncated its target'}
    ctx.outside = ['durability (fsync) and other processes', 'multi-file runs (emitter has no state)', 'Path::with_extension itself (a constructor; F.tmp and F.bk coincide with F exactly when F has that extension: both cases are analysed)']
    ctx.assumptions = ['the bytes on disk are an independent value: original_text is only the source-map view of them (no BOM, LF terminators)',
                       'file-system model: write(path,data) = create/truncate then fill; rename(from,to) atomic and replaces the target; a failed rename has no effect',
                       'F.tmp and F.bk are distinct from each other; either may coincide with F (input named x.tmp / x.bk)', 'rename of a missing source fails']
    name = eng.find('emit_formatted_file', self_ty='FilesWithBackupEmitter', file='src/emitter/files_with_backup.rs')

    st = State()
    orig = eng.fresh_str('original')
    fmt = eng.fresh_str('formatted')
    fname = Enum('FileName', 0, {0: Tup([Opaque('PathBuf', 'F')])})
    fref = eng.ref_to(st, fname, False, 'fname')
    ff = Tup([fref, orig, fmt], 'FormattedFile')
    selfref = eng.ref_to(st, Tup([], 'FilesWithBackupEmitter'), True, 'self')
    out = Opaque('dyn Write', 'out')
    outref = eng.ref_to(st, out, True, 'out')
    outs = ctx.check_outcomes(eng.run(name, [selfref, outref, ff], st), 'emit_formatted_file')

    Content = z3.Datatype('Content')
    Content.declare('absent')
    Content.declare('partial')
    Content.declare('text', ('txt', orig.e.sort()))
    Content = Content.create()
    # what is on disk is NOT original_text: the emitter receives the source-map view of the file (BOM stripped,
    # CRLF normalised); the bytes that must survive are the ones on disk, which only the file system holds
    disk = z3.Const('bytes_on_disk', orig.e.sort())
    T_orig = Content.text(disk)
    T_fmt = Content.text(fmt.e)
    c = z3.Int('crash_after_substep')

    complete_runs = 0
    success_paths = []
    for pi, o in enumerate(outs):
        if o.kind == 'panic':
            ctx.prop('p%d/no-panic' % pi, o.state.pc, z3.BoolVal(True), [], None, twin=False)
            continue
        s = o.state
        ops = ops0 = []
        for ent in s.trace:
            callee = ent[1]
            m = re.search(r'(?:^|::)(write|rename|copy|remove_file)::<', callee)
            if not m:
                raise Inconclusive('file-system operation outside the model: %s' % callee)
            kind = m.group(1)
            args = ent[2]
            res = ent[3]
            ok = res.discr == 0
            if kind == 'write':
                tgt = classify_path(eng, s, args[0])
                data = args[1]
                while isinstance(data, Ref):
                    data = eng.read_ref(s, data)
                if tgt is None or not isinstance(data, StrVal):
                    raise Inconclusive('unrecognised write target/data %r' % (args,))
                ops.append(('write', tgt, Content.text(str_expr(data)), ok))
            elif kind == 'remove_file':
                a = classify_path(eng, s, args[0])
                if a is None:
                    raise Inconclusive('unrecognised remove_file path %r' % (args,))
                ops.append(('remove', a, None, ok))
            else:
                a, b = classify_path(eng, s, args[0]), classify_path(eng, s, args[1])
                if a is None or b is None:
                    raise Inconclusive('unrecognised %s paths %r' % (kind, args))
                ops.append((kind, a, b, ok))
        for alias in (None, 'F.tmp', 'F.bk'):
            # alias: the input file is itself called x.tmp / x.bk, so the temporary / backup name the emitter derives IS the input file
            ops = [tuple(('F' if (alias and x == alias) else x) if isinstance(x, str) and x.startswith('F') else x for x in op) for op in ops0]
            sfx = '' if alias is None else '[input named like its own %s file]' % alias[2:]
            kcls = [] if alias is None else [(KF_ALIAS, z3.BoolVal(True))]
            if alias is not None and not ops:
                continue
            # sub-step states
            files = {'F': T_orig, 'F.tmp': Content.absent, 'F.bk': Content.absent}
            states = [dict(files)]
            labels = ['start']
            extra = []
            for oi, op in enumerate(ops):
                if op[0] == 'write':
                    _, tgt, data, ok = op
                    files.setdefault(tgt, Content.absent)
                    trunc = z3.Bool('p%d.op%d.failed_write_truncated' % (pi, oi))
                    files = dict(files)
                    files[tgt] = z3.If(z3.Or(ok, trunc), Content.partial, files[tgt])
                    states.append(dict(files))
                    labels.append('op%d write(%s): truncated' % (oi, tgt))
                    files = dict(files)
                    files[tgt] = z3.If(ok, data, files[tgt])
                    states.append(dict(files))
                    labels.append('op%d write(%s): filled' % (oi, tgt))
                elif op[0] == 'copy':
                    _, a, b, ok = op
                    files.setdefault(a, Content.absent)
                    files.setdefault(b, Content.absent)
                    trunc = z3.Bool('p%d.op%d.failed_copy_truncated' % (pi, oi))
                    files = dict(files)
                    files[b] = z3.If(z3.Or(ok, trunc), Content.partial, files[b])
                    states.append(dict(files))
                    labels.append('op%d copy(%s -> %s): target truncated' % (oi, a, b))
                    files = dict(files)
                    files[b] = z3.If(ok, files[a], files[b])
                    states.append(dict(files))
                    labels.append('op%d copy(%s -> %s): target filled' % (oi, a, b))
                elif op[0] == 'remove':
                    _, a, _b, ok = op
                    files.setdefault(a, Content.absent)
                    files = dict(files)
                    files[a] = z3.If(ok, Content.absent, files[a])
                    states.append(dict(files))
                    labels.append('op%d remove(%s)' % (oi, a))
                else:
                    _, a, b, ok = op
                    files.setdefault(a, Content.absent)
                    files.setdefault(b, Content.absent)
                    nf = dict(files)
                    nf[b] = z3.If(ok, files[a], files[b])
                    nf[a] = z3.If(ok, Content.absent, files[a])
                    files = nf
                    states.append(dict(files))
                    labels.append('op%d rename(%s -> %s)' % (oi, a, b))
            pc = list(s.pc) + extra
            all_ok = z3.And([op[3] for op in ops]) if ops else z3.BoolVal(True)
            desc = '%d ops: %s' % (len(ops), '; '.join('%s %s' % (op[0], op[1] if op[0] in ('write', 'remove') else op[1] + '->' + op[2]) for op in ops))
            ctx.samples.append({'path': pi, 'effect_trace': desc, 'substeps': labels})

            def at_c(fn_of_state):
                return z3.Or([z3.And(c == t, fn_of_state(stt)) for t, stt in enumerate(states)])
            rng_c = [c >= 0, c < len(states)]
            # (a) original recoverable at every instant
            ctx.prop('p%d/original-recoverable-at-every-crash-point%s' % (pi, sfx), pc + rng_c,
                     at_c(lambda S: z3.Not(z3.Or(S['F'] == T_orig, S['F.bk'] == T_orig))), [c], make_replay(ctx, ops, 'recoverable' if alias is None else 'alias'), meta={'ops': desc}, classes=kcls, twin=alias is None)
            # (b) F never partial, and only ever original or formatted
            ctx.prop('p%d/file-is-never-partial%s' % (pi, sfx), pc + rng_c,
                     at_c(lambda S: z3.Not(z3.Or(S['F'] == Content.absent, S['F'] == T_orig, S['F'] == T_fmt))), [c], make_replay(ctx, ops, 'partial' if alias is None else 'alias'), meta={'ops': desc}, classes=kcls, twin=alias is None)
            if alias is not None:
                continue
            # (c) successful complete run
            final = states[-1]
            ret_ok = o.value.discr == 0
            ctx.prop('p%d/success=>file-formatted-and-bk-original' % pi, pc + [ret_ok, orig.e != fmt.e],
                     z3.Not(z3.And(final['F'] == T_fmt, final['F.bk'] == T_orig, final['F.tmp'] == Content.absent)), [], make_replay(ctx, ops, 'final'), meta={'ops': desc}, twin=False)
            success_paths.append(z3.And(pc + [ret_ok, orig.e != fmt.e]))
            # (d) unchanged file: no operation at all (hence no .bk)
            if ops:
                ctx.prop('p%d/unchanged-file-untouched' % pi, pc, orig.e == fmt.e, [], make_replay(ctx, ops, 'unchanged'), meta={'ops': desc}, twin=False)
            else:
                ctx.prop('p%d/no-op-path-only-when-unchanged' % pi, pc + [ret_ok], orig.e != fmt.e, [], make_replay(ctx, ops, 'nowrite'), meta={'ops': desc})
            # (e) failures propagate
            ctx.prop('p%d/io-error-propagates' % pi, pc, z3.And(z3.Not(all_ok), ret_ok), [], make_replay(ctx, ops, 'propagate'), meta={'ops': desc}, twin=False)
        if ops:
            complete_runs += 1
    ctx.cover('cover/complete-rewrite-path-exists', [z3.BoolVal(complete_runs > 0), z3.Or(success_paths)])
    ctx.cover('cover/crash-between-the-two-renames', [orig.e != fmt.e])
    part_flag(ctx)
    # the original handed to the backup emitter (its "only if the texts differ" test): kernel shared with C06
    import c06
    saved_stubs = list(eng.stubs)
    c06.part_write_file(ctx, eng, c06.replay_cli(ctx, 'files'))
    # ... and which emitter a run gets: the backup emitter exactly when make_backup is set, whatever else is
    eng.stubs = []
    c06.part_create_emitter(ctx, eng, c06.replay_cli(ctx, 'create'))
    eng.stubs = saved_stubs
    validate(ctx)


# ----------------------------------------------------------------------------- `--backup` reaches the backup emitter
def part_flag(ctx):
    """GetOptsOptions::apply_to (real MIR of the binary, real Config setters): with `--backup` given and `--check` not given,
    make_backup is true afterwards, for every combination of the other flags (emit mode, quiet, verbose, edition, ...). Together with
    C06's create_emitter obligation (Files and make_backup => FilesWithBackupEmitter) the protocol decided above is the one that runs."""
    from mirsym.config import make_config, config_value
    both = ctx.engine(('rustfmt', 'lib'), loop_bound=4)
    both.lenient = False
    both.inline_only = [re.compile(r'src/bin/main\.rs'), re.compile(r'src/config/config_type\.rs'), re.compile(r'GetOptsOptions::'), re.compile(r'^Config'),
                        re.compile(r'ConfigSetter'), re.compile(r'src/config/file_lines\.rs'), re.compile(r'FileLines::')]
    both.no_inline = [re.compile(r'set_heuristics|set_width_heuristics|set_ignore|set_license|set_hide_parse_errors|set_fn_args_layout|set_merge_imports|set_version')]
    apply_to = both.find('apply_to', self_ty='GetOptsOptions', file='src/bin/main.rs')
    gfields = both.src.struct_fields('GetOptsOptions', 'src/bin/main.rs')
    st = State()
    cfgref, cv = make_config(both, st)
    vals = []
    check = z3.Bool('opt.check')
    for n, ty in gfields:
        if n == 'backup':
            vals.append(z3.BoolVal(True))
        elif n == 'check':
            vals.append(check)
        elif n == 'inline_config':
            vals.append(Tup([Seq([])], 'HashMap'))
        elif n == 'file_lines':
            vals.append(Tup([Enum('Option', 0, {})], 'FileLines'))
        else:
            vals.append(both.fresh_of_type(st, ty, 'opt.' + n))
    try:
        outs = ctx.check_outcomes(both.run(apply_to, [Tup(vals, 'GetOptsOptions'), cfgref], st), 'apply_to')
    except Unsupported as e:
        raise Inconclusive('apply_to not encodable: %s' % e)
    log('[C20] apply_to with --backup: %d paths' % len(outs))
    viol = []
    nret = 0
    for o in outs:
        if o.kind != 'ret':
            continue
        nret += 1
        mb = config_value(both, o.state, cfgref, 'make_backup')
        if not z3.is_bool(mb):
            raise Inconclusive('make_backup after apply_to is %r' % (mb,))
        viol.append(z3.And(z3.And(o.state.pc) if o.state.pc else z3.BoolVal(True), z3.Not(check), z3.Not(mb)))
    if not nret:
        raise Inconclusive('apply_to has no returning path')
    ctx.prop('flag/--backup-without---check-sets-make_backup', [], z3.Or(viol), [check], replay_flag, twin=False)
    both.inline_only = None
    both.no_inline = []


def replay_flag(model, r):
    findings = []
    for extra in ([], ['--emit', 'files'], ['--emit=files'], ['-q'], ['-v'], ['--edition', '2021'], ['-l']):
        for order in (0, 1):
            bins = ensure_bins()
            _seq[0] += 1
            d = os.path.join(BUILD, 'scratch', 'c20f-%d-%d' % (os.getpid(), _seq[0]))
            os.makedirs(d, exist_ok=True)
            p = os.path.join(d, 'x.rs')
            src = 'fn   main( ) { let x=1 ; }\n'
            open(p, 'w').write(src)
            args = (['--backup'] + extra) if order == 0 else (extra + ['--backup'])
            pr = subprocess.run([os.path.join(bins, 'rustfmt')] + args + [p], capture_output=True, text=True, env=run_env(), timeout=60)
            bk = os.path.join(d, 'x.bk')
            now = open(p).read()
            if now != src and (not os.path.exists(bk) or open(bk).read() != src):
                findings.append('rustfmt %s x.rs rewrote x.rs but x.bk %s' % (' '.join(args), 'is missing' if not os.path.exists(bk) else 'does not hold the original'))
            shutil.rmtree(d, ignore_errors=True)
    return {'reproduced': bool(findings), 'detail': findings[:4]}


# ----------------------------------------------------------------------------- native replay with the real binary
# The real `rustfmt --backup` is run in a scratch directory under strace, which injects either a fatal signal at the
# k-th rename (crash point) or an error return (failing operation); then the three paths are inspected.

_seq = [0]


def run_backup(ctx, inject=None, unchanged=False, src=None, only_path=None):
    bins = ensure_bins()
    _seq[0] += 1
    d = os.path.join(BUILD, 'scratch', 'c20-%d-%d' % (os.getpid(), _seq[0]))
    os.makedirs(d, exist_ok=True)
    if src is None:
        src = 'fn main() {}\n' if unchanged else 'fn   main( ) { let x=1 ; }\n'
    p = os.path.join(d, 'x.rs')
    with open(p, 'w', newline='') as f:
        f.write(src)
    cmd = [os.path.join(bins, 'rustfmt'), '--backup', p]
    if inject:
        pre = ['strace', '-f', '-o', '/dev/null']
        if only_path:
            pre += ['-P', os.path.join(d, only_path)]
        cmd = pre + ['-e', 'trace=rename,renameat,renameat2,write,openat', '-e', inject] + cmd
    r = subprocess.run(cmd, capture_output=True, text=True, env=run_env(), timeout=120)

    def rd(x):
        try:
            return open(x, newline='').read()
        except OSError:
            return None
    res = {'exit': r.returncode, 'F': rd(p), 'F.tmp': rd(os.path.join(d, 'x.tmp')), 'F.bk': rd(os.path.join(d, 'x.bk')), 'original': src,
           'stderr': r.stderr[-300:], 'cmd': ' '.join(cmd)}
    shutil.rmtree(d, ignore_errors=True)
    return res


def run_fsize_limited(what):
    """`rustfmt --backup` with RLIMIT_FSIZE = 1 KiB on a file whose formatted text is larger: whatever is written dies midway"""
    import resource
    bins = ensure_bins()
    _seq[0] += 1
    d = os.path.join(BUILD, 'scratch', 'c20l-%d-%d' % (os.getpid(), _seq[0]))
    os.makedirs(d, exist_ok=True)
    # the original fits under the limit (so a backup copy succeeds), the formatted text does not
    body = 'fn f(){' + 'a();' * 150 + '}\n'
    if what == 'regular':
        root = os.path.join(d, 'x.rs')
        open(root, 'w').write(body)
        victim = root
    else:
        os.makedirs(os.path.join(d, 'real'))
        tgt = os.path.join(d, 'real', 'foo_target.rs')
        open(tgt, 'w').write(body)
        os.symlink(tgt, os.path.join(d, 'foo.rs'))
        root = os.path.join(d, 'lib.rs')
        open(root, 'w').write('mod foo;\n')
        victim = os.path.join(d, 'foo.rs')

    def limit():
        resource.setrlimit(resource.RLIMIT_FSIZE, (1024, 1024))
        import signal
        signal.signal(signal.SIGXFSZ, signal.SIG_IGN)
    ref = subprocess.run([os.path.join(bins, 'rustfmt'), '--emit', 'stdout', '--quiet', victim if what == 'regular' else os.path.join(d, 'real', 'foo_target.rs')],
                         capture_output=True, text=True, env=run_env(), timeout=60)
    formatted = ref.stdout
    r = subprocess.run([os.path.join(bins, 'rustfmt'), '--backup', root], capture_output=True, text=True, env=run_env(), timeout=60, preexec_fn=limit)
    try:
        now = open(victim).read()
    except OSError:
        now = None
    res = None
    if len(formatted) > 1024 and now is not None and now not in (body, formatted):
        res = '%s file under RLIMIT_FSIZE=1024: after `rustfmt --backup` (exit %d) the file holds %d bytes, neither the original (%d) nor the formatted text (%d)' % (
            what, r.returncode, len(now), len(body), len(formatted))
    shutil.rmtree(d, ignore_errors=True)
    return res


def replay_alias():
    """`rustfmt --backup` on a file that is itself called x.tmp / x.bk: is the original still somewhere afterwards?"""
    bins = ensure_bins()
    findings = []
    for ext in ('tmp', 'bk'):
        _seq[0] += 1
        d = os.path.join(BUILD, 'scratch', 'c20a-%d-%d' % (os.getpid(), _seq[0]))
        os.makedirs(d, exist_ok=True)
        src = 'fn   main( ) { let x=1 ; }\n'
        p = os.path.join(d, 'x.' + ext)
        open(p, 'w').write(src)
        r = subprocess.run([os.path.join(bins, 'rustfmt'), '--backup', p], capture_output=True, text=True, env=run_env(), timeout=60)
        left = {}
        for fn_ in sorted(os.listdir(d)):
            left[fn_] = open(os.path.join(d, fn_)).read()
        if src not in left.values():
            findings.append('rustfmt --backup x.%s (exit %d): the original is in no file afterwards; files left: %r' % (ext, r.returncode, {k: v[:24] for k, v in left.items()}))
        shutil.rmtree(d, ignore_errors=True)
    return findings


def make_replay(ctx, ops, what):
    def replay(model, r):
        if what == 'alias':
            f = replay_alias()
            return {'reproduced': bool(f), 'detail': f}
        findings = []
        runs = []
        base = run_backup(ctx)
        runs.append(base)
        formatted = base['F']
        orig = base['original']
        if what in ('final',) or True:
            if not (base['exit'] == 0 and base['F'] is not None and base['F'] != orig and base['F.bk'] == orig and base['F.tmp'] is None):
                findings.append('complete run: F/.bk/.tmp = %r / %r / %r' % (base['F'], base['F.bk'], base['F.tmp']))
        un = run_backup(ctx, unchanged=True)
        runs.append(un)
        if un['F.bk'] is not None or un['F.tmp'] is not None or un['F'] != un['original']:
            findings.append('unchanged file touched: %r' % (un,))
        injections = [('inject=rename,renameat,renameat2:%s:when=%d' % (mode, k), None) for k in (1, 2, 3) for mode in ('signal=KILL', 'error=EIO')]
        # faults on the data path of each of the three files (strace -P restricts tracing to that path)
        injections += [('inject=write:%s:when=1' % mode, pth) for pth in ('x.rs', 'x.tmp', 'x.bk') for mode in ('signal=KILL', 'error=EIO')]
        for inj, pth in injections:
            x = run_backup(ctx, inject=inj, only_path=pth)
            runs.append(x)
            tag = inj + (' on ' + pth if pth else '')
            if not (x['F'] == orig or x['F.bk'] == orig):
                findings.append('%s: original lost: F=%r bk=%r' % (tag, x['F'], x['F.bk']))
            if x['F'] is not None and x['F'] not in (orig, formatted):
                findings.append('%s: partial file %r' % (tag, x['F']))
            if 'error' in inj and x['exit'] == 0 and (x['F'] != formatted or x['F.bk'] != orig):
                findings.append('%s: error not propagated (exit 0)' % tag)
        # a write that dies midway (RLIMIT_FSIZE): the file itself must never be the one that is half written
        for shape in ('regular', 'symlinked-module'):
            x = run_fsize_limited(shape)
            if x:
                findings.append(x)
        # the bytes on disk are not the source-map text: BOM and CRLF originals
        for nm, src in (('crlf', 'fn   main( ) { let x=1 ; }\r\n'), ('bom', '\ufefffn   main( ) { let x=1 ; }\n')):
            x = run_backup(ctx, src=src)
            runs.append(x)
            if not (x['F'] == src or x['F.bk'] == src):
                findings.append('%s original: bytes on disk lost after a complete run: bk=%r' % (nm, x['F.bk']))
        return {'reproduced': bool(findings), 'detail': findings, 'runs': runs[:3]}
    return replay


def validate(ctx):
    """§4.3: the effect trace predicted by the encoding (write tmp; rename F->bk; rename tmp->F) is what the real binary does."""
    base = run_backup(ctx)
    un = run_backup(ctx, unchanged=True)
    ok = base['exit'] == 0 and base['F.bk'] == base['original'] and base['F.tmp'] is None and base['F'] not in (None, base['original'])
    ok2 = un['F.bk'] is None and un['F'] == un['original']
    # crash before the 2nd rename: F absent, bk original, tmp formatted
    mid = run_backup(ctx, inject='inject=rename,renameat,renameat2:signal=KILL:when=2')
    ok3 = mid['F'] is None and mid['F.bk'] == mid['original'] and mid['F.tmp'] == base['F']
    ctx.validated += 3
    ctx.validation_detail.append({'complete_run_matches_model': ok, 'unchanged_file_matches_model': ok2, 'crash_between_renames_matches_model': ok3})
    if not (ok and ok2 and ok3):
        # a disagreement here is only an encoder problem if the symbolic side held; report as a note, the verdicts decide
        ctx.notes.append('native runs differ from the model prediction for the unchanged-tree protocol: %r' % ([base, un, mid],))


if __name__ == '__main__':
    main_wrapper('C20', build)
