"""Parser for rustc's `-Zunpretty=mir` text (the pinned nightly-2025-04-02 printer).

Only the subset the kernels use is given structure; anything else is kept as
('unknown', text) and raises Unsupported in the executor *when reached*, never
silently skipped.
"""
import re
import hashlib


class ParseError(Exception):
    pass


BINOPS = {
    'Add', 'Sub', 'Mul', 'Div', 'Rem', 'BitXor', 'BitAnd', 'BitOr', 'Shl', 'Shr',
    'Eq', 'Lt', 'Le', 'Ne', 'Ge', 'Gt', 'Cmp', 'Offset',
    'AddWithOverflow', 'SubWithOverflow', 'MulWithOverflow',
    'AddUnchecked', 'SubUnchecked', 'MulUnchecked', 'ShlUnchecked', 'ShrUnchecked',
}
UNOPS = {'Not', 'Neg', 'PtrMetadata'}


class Cursor:
    def __init__(self, s, pos=0):
        self.s = s
        self.i = pos

    def peek(self, n=1):
        return self.s[self.i:self.i + n]

    def startswith(self, t):
        return self.s.startswith(t, self.i)

    def eat(self, t):
        if self.s.startswith(t, self.i):
            self.i += len(t)
            return True
        return False

    def expect(self, t):
        if not self.eat(t):
            raise ParseError('expected %r at %r' % (t, self.s[self.i:self.i + 40]))

    def ws(self):
        while self.i < len(self.s) and self.s[self.i] == ' ':
            self.i += 1

    def eof(self):
        return self.i >= len(self.s)

    def rest(self):
        return self.s[self.i:]


def skip_balanced_until(c, stops):
    """Advance cursor to the first char in `stops` at depth 0 wrt ()[]{} and <>; returns text."""
    s = c.s
    i = c.i
    depth = 0
    adepth = 0
    n = len(s)
    start = i
    while i < n:
        ch = s[i]
        if ch == '"':
            i = _skip_string(s, i)
            continue
        if ch == "'" :
            j = _try_skip_char(s, i)
            if j is not None:
                i = j
                continue
        if ch == '-' and s.startswith('->', i):
            i += 2
            continue
        if depth == 0 and adepth == 0 and ch in stops:
            break
        if ch in '([{':
            depth += 1
        elif ch in ')]}':
            if depth == 0:
                break
            depth -= 1
        elif ch == '<':
            adepth += 1
        elif ch == '>':
            if adepth > 0:
                adepth -= 1
        i += 1
    c.i = i
    return s[start:i]


def _skip_string(s, i):
    assert s[i] == '"'
    i += 1
    n = len(s)
    while i < n:
        if s[i] == '\\':
            i += 2
            continue
        if s[i] == '"':
            return i + 1
        i += 1
    raise ParseError('unterminated string')


def _try_skip_char(s, i):
    # 'x' or '\n' or '\u{..}' char literal; lifetimes ('a) are not chars
    m = re.compile(r"'(\\u\{[0-9a-fA-F]+\}|\\.|[^\\'])'").match(s, i)
    if m:
        return m.end()
    return None


def parse_type_until_close(c):
    """Type text up to the matching ')' of a field projection (not consumed)."""
    s = c.s
    i = c.i
    depth = 0
    start = i
    n = len(s)
    while i < n:
        ch = s[i]
        if ch in '([':
            depth += 1
        elif ch in ')]':
            if depth == 0:
                break
            depth -= 1
        i += 1
    c.i = i
    return s[start:i]


def parse_place(c):
    """-> (local:int, projs:tuple)"""
    c.ws()
    if c.eat('('):
        if c.eat('*'):
            loc, projs = parse_place(c)
            c.expect(')')
            base = (loc, projs + (('deref',),))
        else:
            loc, projs = parse_place(c)
            if c.eat(' as '):
                m = re.compile(r'[A-Za-z_][A-Za-z0-9_]*|\d+').match(c.s, c.i)
                if not m:
                    raise ParseError('variant name at %r' % c.rest()[:30])
                c.i = m.end()
                c.expect(')')
                base = (loc, projs + (('downcast', m.group(0)),))
            elif c.eat('.'):
                m = re.compile(r'\d+').match(c.s, c.i)
                c.i = m.end()
                c.expect(': ')
                ty = parse_type_until_close(c)
                c.expect(')')
                base = (loc, projs + (('field', int(m.group(0)), ty),))
            else:
                raise ParseError('place at %r' % c.rest()[:40])
    else:
        m = re.compile(r'_(\d+)').match(c.s, c.i)
        if not m:
            raise ParseError('local at %r' % c.rest()[:40])
        c.i = m.end()
        base = (int(m.group(1)), ())
    # index suffixes
    while c.peek() == '[':
        c.i += 1
        inner = skip_balanced_until(c, ']')
        c.expect(']')
        m = re.fullmatch(r'_(\d+)', inner)
        if m:
            base = (base[0], base[1] + (('index', int(m.group(1))),))
            continue
        m = re.fullmatch(r'(-?)(\d+) of (\d+)', inner)
        if m:
            base = (base[0], base[1] + (('constindex', int(m.group(2)), int(m.group(3)), m.group(1) == '-'),))
            continue
        m = re.fullmatch(r'(\d+):(-?)(\d*)', inner)
        if m:
            base = (base[0], base[1] + (('subslice', int(m.group(1)), m.group(3), m.group(2) == '-'),))
            continue
        raise ParseError('index proj %r' % inner)
    return base


def parse_operand(c):
    c.ws()
    if c.eat('copy '):
        return ('copy', parse_place(c))
    if c.eat('move '):
        return ('move', parse_place(c))
    if c.eat('const '):
        txt = skip_balanced_until(c, ',;').strip()
        return ('const', txt)
    if c.peek() and (c.peek().isalpha() or c.peek() in '<_{'):
        # bare function item used as an operand (fn pointers passed to adaptors)
        txt = skip_balanced_until(c, ',;').strip()
        if txt:
            return ('const', txt)
    raise ParseError('operand at %r' % c.rest()[:50])


def parse_operand_list(c, close):
    ops = []
    c.ws()
    if c.eat(close):
        return ops
    while True:
        ops.append(parse_operand(c))
        c.ws()
        if c.eat(','):
            c.ws()
            if c.eat(close):
                return ops
            continue
        c.expect(close)
        return ops


_path_re = re.compile(r'[A-Za-z_<{&\[(]')


def parse_rvalue(text):
    c = Cursor(text)
    c.ws()
    if c.startswith('copy ') or c.startswith('move ') or c.startswith('const '):
        op = parse_operand(c)
        c.ws()
        if op[0] == 'const' and ' as ' in op[1] and op[1].endswith(')'):
            m = re.fullmatch(r'(.*?) as (.*) \((\w+(?:\([^)]*\))?)\)', op[1])
            if m:
                return ('cast', ('const', m.group(1)), m.group(2), m.group(3))
        if c.eat('as '):
            rest = c.rest()
            m = re.fullmatch(r'(.*) \((\w+(?:\([^)]*\))?)\)', rest)
            if not m:
                raise ParseError('cast %r' % rest)
            return ('cast', op, m.group(1), m.group(2))
        if not c.eof():
            raise ParseError('trailing %r' % c.rest())
        return ('use', op)
    if c.eat('&raw const '):
        return ('addr', False, parse_place(c))
    if c.eat('&raw mut '):
        return ('addr', True, parse_place(c))
    if c.eat('&mut '):
        return ('ref', True, parse_place(c))
    if c.eat('&fake shallow '):
        return ('ref', False, parse_place(c))
    if c.eat('&'):
        return ('ref', False, parse_place(c))
    if c.eat('deref_copy '):
        return ('use', ('copy', parse_place(c)))
    if c.eat('discriminant('):
        p = parse_place(c)
        c.expect(')')
        return ('discr', p)
    if c.eat('Len('):
        p = parse_place(c)
        c.expect(')')
        return ('len', p)
    m = re.compile(r'([A-Za-z]+)\(').match(c.s, c.i)
    if m and m.group(1) in BINOPS:
        c.i = m.end()
        a = parse_operand(c)
        c.ws()
        c.expect(',')
        b = parse_operand(c)
        c.expect(')')
        return ('binop', m.group(1), a, b)
    if m and m.group(1) in UNOPS:
        c.i = m.end()
        a = parse_operand(c)
        c.expect(')')
        return ('unop', m.group(1), a)
    if c.eat('['):
        # array or repeat
        save = c.i
        c.ws()
        if c.eat(']'):
            return ('aggregate', 'array', None, [])
        first = parse_operand(c)
        c.ws()
        if c.eat(';'):
            n = c.rest().strip()
            assert n.endswith(']')
            return ('repeat', first, n[:-1].strip())
        ops = [first]
        while True:
            c.ws()
            if c.eat(','):
                ops.append(parse_operand(c))
                continue
            c.expect(']')
            break
        return ('aggregate', 'array', None, ops)
    if c.eat('('):
        ops = parse_operand_list(c, ')')
        return ('aggregate', 'tuple', None, ops)
    if c.eat('()'):
        return ('aggregate', 'tuple', None, [])
    # ADT / closure aggregate: PATH { f: op, .. } | PATH(op, ..) | PATH
    start = c.i
    if c.startswith('{closure@') or c.startswith('{coroutine@'):
        i = c.s.index('}', start) + 1
        c.i = i
        name = c.s[start:i]
    else:
        name = _scan_path(c)
    c.ws()
    if c.eof():
        return ('aggregate', 'adt', name, [], None)
    if c.eat('{'):
        fields = []
        names = []
        c.ws()
        if c.eat('}'):
            return ('aggregate', 'adt', name, [], [])
        while True:
            c.ws()
            m = re.compile(r'([A-Za-z_0-9]+): ').match(c.s, c.i)
            if not m:
                raise ParseError('field name at %r' % c.rest()[:40])
            c.i = m.end()
            names.append(m.group(1))
            fields.append(parse_operand(c))
            c.ws()
            if c.eat(','):
                continue
            c.expect('}')
            break
        return ('aggregate', 'adt', name, fields, names)
    if c.eat('('):
        ops = parse_operand_list(c, ')')
        return ('aggregate', 'adt', name, ops, None)
    raise ParseError('rvalue %r' % text)


def _scan_path(c):
    """Scan a path with generic args up to ' {', '(' or end."""
    s = c.s
    i = c.i
    n = len(s)
    adepth = 0
    start = i
    while i < n:
        ch = s[i]
        if ch == '-' and s.startswith('->', i):
            i += 2
            continue
        if ch == '<':
            adepth += 1
        elif ch == '>':
            adepth -= 1
        elif adepth == 0:
            if ch == '(':
                break
            if ch == ' ' and s.startswith(' {', i):
                break
        elif ch == '(':
            # parens inside generics: skip balanced
            d = 0
            while i < n:
                if s[i] == '(':
                    d += 1
                elif s[i] == ')':
                    d -= 1
                    if d == 0:
                        break
                i += 1
        i += 1
    c.i = i
    return s[start:i].strip()


class Fn:
    __slots__ = ('name', 'params', 'ret_ty', 'locals', 'blocks', 'raw', 'kind', 'fingerprint', 'line', 'debug')

    def __init__(self):
        self.locals = {}
        self.blocks = {}
        self.debug = {}     # source variable name -> local (from `debug x => _N;`)


_term_call_re = re.compile(r'^(.*?) -> (\[return: bb(\d+), unwind[^\]]*\]|unwind [a-z() ]+|bb\d+);$')


def split_call(text):
    """text: 'PLACE = FUNC(ARGS)'  ->  (place, functext, args)"""
    c = Cursor(text)
    dest = parse_place(c)
    c.expect(' = ')
    start = c.i
    # function "operand": either `move _5` / `copy _5` (fn pointers / closures) or a path
    if c.startswith('move ') or c.startswith('copy '):
        f = parse_operand(c)
        func = ('operand', f)
    else:
        # scan path up to '(' at depth 0 (angle and paren aware)
        s = c.s
        i = c.i
        n = len(s)
        adepth = 0
        while i < n:
            ch = s[i]
            if ch == '-' and s.startswith('->', i):
                i += 2
                continue
            if ch == '<':
                adepth += 1
            elif ch == '>':
                adepth -= 1
            elif ch == '(':
                if adepth == 0:
                    break
                d = 0
                while i < n:
                    if s[i] == '(':
                        d += 1
                    elif s[i] == ')':
                        d -= 1
                        if d == 0:
                            break
                    i += 1
            elif ch == '{' :
                # {closure#0} or {closure@..} inside paths
                j = s.index('}', i)
                i = j
            i += 1
        func = ('path', s[start:i])
        c.i = i
    c.expect('(')
    args = parse_operand_list(c, ')')
    return dest, func, args


def parse_stmt(line):
    """line without trailing ';'"""
    if line.startswith('StorageLive(') or line.startswith('StorageDead(') or line in ('nop', 'ConstEvalCounter') \
            or line.startswith('FakeRead(') or line.startswith('PlaceMention(') or line.startswith('AscribeUserType(') \
            or line.startswith('Retag(') or line.startswith('Coverage::') or line.startswith('Deinit('):
        return ('nop',)
    m = re.match(r'^discriminant\((.*)\) = (\d+)$', line)
    if m:
        return ('setdiscr', parse_place(Cursor(m.group(1))), int(m.group(2)))
    c = Cursor(line)
    try:
        place = parse_place(c)
        c.expect(' = ')
        rv = parse_rvalue(c.rest())
        return ('assign', place, rv)
    except (ParseError, ValueError, AttributeError, AssertionError) as e:
        return ('unknown', line, str(e))


def parse_term(line):
    """line with trailing ';' removed already? (we pass with ';')"""
    t = line
    if t == 'return;':
        return ('return',)
    if t == 'unreachable;':
        return ('unreachable',)
    if t == 'resume;' or t.startswith('resume'):
        return ('resume',)
    if t.startswith('terminate('):
        return ('abort',)
    m = re.match(r'^goto -> bb(\d+);$', t)
    if m:
        return ('goto', int(m.group(1)))
    if t.startswith('switchInt('):
        c = Cursor(t, len('switchInt('))
        op = parse_operand(c)
        c.expect(') -> [')
        body = c.rest()
        assert body.endswith('];')
        body = body[:-2]
        targets = []
        otherwise = None
        for part in body.split(', '):
            k, v = part.split(': ')
            bb = int(v[2:])
            if k == 'otherwise':
                otherwise = bb
            else:
                targets.append((int(k), bb))
        return ('switch', op, targets, otherwise)
    if t.startswith('drop('):
        m = re.match(r'^drop\((.*)\) -> \[return: bb(\d+), unwind[^\]]*\];$', t)
        if m:
            return ('drop', parse_place(Cursor(m.group(1))), int(m.group(2)))
    if t.startswith('assert('):
        m = re.match(r'^assert\((!?)(.*?), (".*)\) -> \[success: bb(\d+), unwind[^\]]*\];$', t)
        if m:
            c = Cursor(m.group(2))
            op = parse_operand(c)
            return ('assert', op, m.group(1) != '!', m.group(3), int(m.group(4)))
    m = _term_call_re.match(t)
    if m:
        try:
            dest, func, args = split_call(m.group(1))
        except (ParseError, ValueError, AssertionError) as e:
            return ('unknown', t, str(e))
        ret = int(m.group(3)) if m.group(3) is not None else (int(m.group(2)[2:]) if m.group(2).startswith('bb') else None)
        return ('call', dest, func, args, ret)
    if t.startswith('falseEdge') or t.startswith('falseUnwind'):
        m = re.search(r'bb(\d+)', t)
        return ('goto', int(m.group(1)))
    return ('unknown', t, 'terminator')


_span_re = re.compile(r'\s*// (?:return place )?(?:in )?scope \d+ at (.*)$')


def strip_span(ln):
    m = _span_re.search(ln)
    if m:
        return ln[:m.start()].rstrip(), m.group(1)
    return ln, None


_hdr_fn = re.compile(r'^(fn|const|static(?: mut)?) (.*)$')
_bb_re = re.compile(r'^    bb(\d+)( \(cleanup\))?: \{$')
_let_re = re.compile(r'^\s+let (mut )?_(\d+): (.*);$')


class Mir:
    """Index of a MIR dump; bodies parsed on demand."""

    def __init__(self, path):
        self.path = path
        with open(path, encoding='utf-8', errors='replace') as f:
            self.lines = f.read().split('\n')
        self.all = {}        # header name -> [(start, end), ...] every body with that name
        self.index = {}      # header name -> (start, end)
        self.headers = {}    # header name -> header line
        self._cache = {}
        i = 0
        n = len(self.lines)
        while i < n:
            ln = self.lines[i]
            if (ln.startswith('fn ') or ln.startswith('const ') or ln.startswith('static ')) and ln.endswith('{'):
                j = i + 1
                while j < n and self.lines[j] != '}':
                    j += 1
                name = self._header_name(ln)
                # CTFE duplicates: keep the first (runtime MIR); macro-generated impls can share one name: all kept in .all
                self.all.setdefault(name, []).append((i, j))
                if name not in self.index:
                    self.index[name] = (i, j)
                    self.headers[name] = ln
                i = j + 1
            else:
                i += 1

    @staticmethod
    def _header_name(ln):
        if ln.startswith('fn '):
            body = ln[3:]
            # name ends at the '(' that opens the parameter list: first '(' at angle depth 0
            # that is not inside '<impl at ...>' or '{closure#n}'
            adepth = 0
            i = 0
            n = len(body)
            while i < n:
                ch = body[i]
                if ch == '-' and body.startswith('->', i):
                    i += 2
                    continue
                if ch == '<':
                    adepth += 1
                elif ch == '>':
                    adepth -= 1
                elif ch == '(' and adepth == 0:
                    break
                i += 1
            return body[:i]
        m = re.match(r'^(?:const|static(?: mut)?) (.*?): ', ln)
        # const NAME: TYPE = {   -- NAME may contain ': ' inside '<impl at a:1:2: 3:4>'
        body = ln.split(' ', 1)[1]
        adepth = 0
        i = 0
        n = len(body)
        while i < n:
            ch = body[i]
            if ch == '<':
                adepth += 1
            elif ch == '>':
                adepth -= 1
            elif ch == ':' and adepth == 0 and body.startswith(': ', i) and not body.startswith('::', i):
                # skip 'closure@src/x.rs:1:2: 3:4' inside braces
                if body.rfind('{', 0, i) > body.rfind('}', 0, i):
                    i += 1
                    continue
                break
            i += 1
        return body[:i]

    def names(self):
        return self.index.keys()

    def get(self, name):
        if name in self._cache:
            return self._cache[name]
        if name not in self.index:
            raise KeyError(name)
        s, e = self.index[name]
        fn = self._parse_fn(name, s, e)
        self._cache[name] = fn
        return fn

    def get_all(self, name):
        """every body printed under this name (macro-generated impls share the span in their name)"""
        return [self._parse_fn(name, s, e) for (s, e) in self.all.get(name, [])]

    def _parse_fn(self, name, s, e):
        fn = Fn()
        fn.name = name
        fn.line = s + 1
        hdr = self.lines[s]
        fn.kind = hdr.split(' ', 1)[0]
        fn.raw = '\n'.join(self.lines[s:e + 1])
        fn.fingerprint = hashlib.sha256(fn.raw.encode()).hexdigest()[:16]
        fn.params = []
        fn.ret_ty = None
        if fn.kind == 'fn':
            rest = hdr[3 + len(name):]
            assert rest.startswith('('), (name, rest[:40])
            c = Cursor(rest, 1)
            while True:
                c.ws()
                if c.eat(')'):
                    break
                m = re.compile(r'_(\d+): ').match(c.s, c.i)
                if not m:
                    raise ParseError('param at %r' % c.rest()[:60])
                c.i = m.end()
                ty = skip_balanced_until(c, ',')
                fn.params.append((int(m.group(1)), ty.strip()))
                c.eat(',')
            c.ws()
            if c.eat('-> '):
                r = c.rest()
                assert r.endswith(' {')
                fn.ret_ty = r[:-2]
        else:
            m = re.match(r'^.*?: (.*) = \{$', hdr[len(fn.kind) + 1 + len(name):])
            fn.ret_ty = m.group(1) if m else None
        for p, ty in fn.params:
            fn.locals[p] = ty
        i = s + 1
        cur = None
        while i < e:
            ln = self.lines[i]
            m = _bb_re.match(ln.split(' // ')[0].rstrip() if ln.startswith('    bb') else ln)
            if m:
                cur = {'stmts': [], 'term': None, 'cleanup': bool(m.group(2)), 'raw': [], 'spans': []}
                fn.blocks[int(m.group(1))] = cur
                i += 1
                continue
            if ln.lstrip().startswith('//'):
                i += 1
                continue
            ln, span = strip_span(ln)
            if cur is None:
                m = _let_re.match(ln)
                if m:
                    fn.locals[int(m.group(2))] = m.group(3)
                else:
                    m = re.match(r'^\s+debug ([A-Za-z_][A-Za-z0-9_]*) => _(\d+);$', ln)
                    if m:
                        fn.debug.setdefault(m.group(1), int(m.group(2)))
                i += 1
                continue
            if ln == '    }':
                # last stmt is the terminator
                raw = cur['raw']
                if raw:
                    cur['term_raw'] = raw[-1]
                    cur['stmts_raw'] = raw[:-1]
                else:
                    cur['term_raw'] = None
                    cur['stmts_raw'] = []
                cur = None
                i += 1
                continue
            t = ln.strip()
            if t:
                cur['raw'].append(t)
                cur['spans'].append(span)
            i += 1
        return fn


def block_parsed(blk):
    """Parse a block's statements lazily; cache on the dict."""
    if 'parsed' not in blk:
        stmts = []
        for t in blk['stmts_raw']:
            assert t.endswith(';'), t
            stmts.append(parse_stmt(t[:-1]))
        term = parse_term(blk['term_raw']) if blk['term_raw'] else ('unknown', '', 'empty block')
        blk['parsed'] = (stmts, term)
    return blk['parsed']
