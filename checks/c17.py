"""C17 — file_lines range algebra: Range::{is_empty,contains,intersects,adjacent_to,merge},
normalize_ranges, FileLines::{contains_line,contains_range,file_range_matches} ≡ set semantics."""
from common import *

F = 'src/config/file_lines.rs'
LIM = 1 << 32


def bvu(name):
    return BV(z3.BitVec(name, 64), 'usize')


def rng(name):
    return Tup([bvu(name + '.lo'), bvu(name + '.hi')], 'Range')


def lo(r):
    return r.items[0].e


def hi(r):
    return r.items[1].e


def inset(r, l):
    return z3.And(z3.ULE(lo(r), l), z3.ULE(l, hi(r)))


def nonempty(r):
    return z3.ULE(lo(r), hi(r))


def in_union(rs, l):
    return z3.Or([inset(r, l) for r in rs]) if rs else z3.BoolVal(False)


def bounded(rs):
    out = []
    for r in rs:
        out += [z3.ULT(lo(r), LIM), z3.ULT(hi(r), LIM)]
    return out


def stdin_name():
    return Enum('FileName', 1, {})   # FileName::Stdin


def py_in(rs, l):
    return any(a <= l <= b for (a, b) in rs)


def py_subset(rs, p, q):
    """[p,q] ⊆ ⋃ rs by walking: repeatedly jump past the furthest interval covering the cursor"""
    cur = p
    while cur <= q:
        best = None
        for (a, b) in rs:
            if a <= cur <= b and (best is None or b > best):
                best = b
        if best is None:
            return False
        cur = best + 1
    return True


def build(ctx):
    eng = ctx.engine('lib', loop_bound=12)
    K = 3 if ctx.tier == 'quick' else 4
    ctx.bounds = {'ranges_per_file': K, 'line_numbers': '< 2^32 (usize is 64-bit; SourceMap positions are u32)', 'loop_unwind': 12,
                  'files': 'one file name (FileName::Stdin) plus the absent-file and select-all cases'}
    ctx.outside = ['that every visitor consults the predicates (out_of_file_lines_range! call sites)', 'byte-for-byte copying of unselected items',
                   'path canonicalisation (FileName::Real)', 'hi = usize::MAX (hi + 1 overflows in adjacent_to; line numbers are u32 in practice)',
                   'JSON parsing of --file-lines']
    ctx.assumptions = ['line numbers < 2^32', 'HashMap<FileName, Vec<Range>> is observed through values_mut/get only (entry-list summary)',
                       'slice::sort = a sorting network over the derived Ord::cmp MIR of Range']
    rp = ctx.replayer()
    names = {m: eng.find(m, self_ty='Range', file=F) for m in ('is_empty', 'contains', 'intersects', 'adjacent_to', 'merge')}
    a, b = rng('a'), rng('b')
    l = z3.BitVec('l', 64)
    mv = [lo(a), hi(a), lo(b), hi(b), l]
    pre = bounded([a, b]) + [z3.ULT(l, LIM)]
    small2 = [z3.ULT(x, 40) for x in mv]

    def replay_range_ops(model, r):
        A = (model.get('a.lo', 0), model.get('a.hi', 0))
        B = (model.get('b.lo', 0), model.get('b.hi', 0))
        res = rp.call({'op': 'range_ops', 'a': A, 'b': B})
        bad = []
        ne_a, ne_b = A[0] <= A[1], B[0] <= B[1]
        inter = ne_a and ne_b and max(A[0], B[0]) <= min(A[1], B[1])
        subset = (not ne_b) or (ne_a and A[0] <= B[0] and B[1] <= A[1])
        sa = sb = None
        if 'panic' in res:
            return {'reproduced': True, 'detail': 'panic: ' + res['panic'], 'input': [A, B]}
        if res['is_empty'] != (A[0] > A[1]):
            bad.append('is_empty')
        if res['intersects'] != inter:
            bad.append('intersects=%s but sets %s' % (res['intersects'], 'meet' if inter else 'are disjoint'))
        if res['contains'] != subset:
            bad.append('contains=%s but subset=%s' % (res['contains'], subset))
        if res['merge'] is not None:
            lo_, hi_ = res['merge']
            # union of two intervals equals [lo_,hi_] ?
            pts = [A[0], A[1], B[0], B[1], lo_, hi_, lo_ - 1 if lo_ else 0, hi_ + 1, A[1] + 1, B[1] + 1]
            for x in pts:
                in_u = (ne_a and A[0] <= x <= A[1]) or (ne_b and B[0] <= x <= B[1])
                if in_u != (lo_ <= x <= hi_):
                    bad.append('merge %r is not the union at line %d' % (res['merge'], x))
                    break
        elif ne_a and ne_b and not (A[1] + 1 < B[0] or B[1] + 1 < A[0]):
            bad.append('merge is None although the union is an interval')
        if sa is not None and sb is not None:
            if res['intersects'] != bool(sa & sb):
                bad.append('intersects')
            if res['contains'] != (sb <= sa):
                bad.append('contains')
            if res['merge'] is not None:
                m = set(range(res['merge'][0], res['merge'][1] + 1))
                if m != (sa | sb):
                    bad.append('merge-union')
            else:
                u = sorted(sa | sb)
                if sa and sb and u and u[-1] - u[0] + 1 == len(u):
                    bad.append('merge-none-for-interval')
        return {'reproduced': bool(bad), 'detail': bad, 'input': [A, B], 'native': res}

    # ---- Range primitives
    for o in ctx.check_outcomes(eng.run(names['is_empty'], [a], State()), 'is_empty'):
        ctx.prop('is_empty/iff-lo>hi', o.state.pc + pre, o.value != z3.UGT(lo(a), hi(a)), mv, replay_range_ops, hint=small2)
    for i, o in enumerate(ctx.check_outcomes(eng.run(names['intersects'], [a, b], State()), 'intersects')):
        w = z3.If(z3.ULT(lo(a), lo(b)), lo(b), lo(a))
        ctx.prop('intersects/p%d/true=>common-line' % i, o.state.pc + pre, z3.And(o.value, z3.Not(z3.And(inset(a, w), inset(b, w)))), mv, replay_range_ops, hint=small2)
        ctx.prop('intersects/p%d/common-line=>true' % i, o.state.pc + pre, z3.And(z3.Not(o.value), inset(a, l), inset(b, l)), mv, replay_range_ops, hint=small2)
    for i, o in enumerate(ctx.check_outcomes(eng.run(names['contains'], [a, b], State()), 'contains')):
        ctx.prop('contains/p%d/true=>subset' % i, o.state.pc + pre, z3.And(o.value, inset(b, l), z3.Not(inset(a, l))), mv, replay_range_ops, hint=small2)
        ctx.prop('contains/p%d/false=>witness-outside' % i, o.state.pc + pre,
                 z3.And(z3.Not(o.value), z3.Not(z3.And(nonempty(b), z3.Or(z3.Not(inset(a, lo(b))), z3.Not(inset(a, hi(b))))))), mv, replay_range_ops, hint=small2)
    st = State()
    outs = ctx.check_outcomes(eng.run(names['merge'], [a, b], st), 'merge')
    for i, o in enumerate(outs):
        if o.kind == 'panic':
            # hi + 1 overflow: excluded by the < 2^32 bound; must be unreachable inside it
            ctx.prop('merge/p%d/no-overflow-inside-bound' % i, o.state.pc + pre, z3.BoolVal(True), mv, replay_range_ops, twin=False, hint=small2)
            continue
        v = o.value
        is_some = v.discr == 1
        if 1 in v.payloads:
            c = v.payloads[1].items[0]
            ctx.prop('merge/p%d/some=>union' % i, o.state.pc + pre, z3.And(is_some, inset(c, l) != z3.Or(inset(a, l), inset(b, l))), mv, replay_range_ops, hint=small2)
        gap = z3.Or(z3.ULT(hi(a) + 1, lo(b)), z3.ULT(hi(b) + 1, lo(a)))
        ctx.prop('merge/p%d/none=>not-an-interval' % i, o.state.pc + pre, z3.And(z3.Not(is_some), nonempty(a), nonempty(b), z3.Not(gap)), mv, replay_range_ops, hint=small2)
    for i, o in enumerate(ctx.check_outcomes(eng.run(names['adjacent_to'], [a, b], State()), 'adjacent_to')):
        if o.kind != 'ret':
            continue
        adj = z3.And(nonempty(a), nonempty(b), z3.Or(hi(a) + 1 == lo(b), hi(b) + 1 == lo(a)))
        ctx.prop('adjacent_to/p%d/iff-touching' % i, o.state.pc + pre, o.value != adj, mv, replay_range_ops, hint=small2)

    # ---- normalize_ranges + FileLines predicates, composed on the real MIR
    norm = eng.find('normalize_ranges', free=True)
    cl = eng.find('contains_line', self_ty='FileLines', file=F)
    cr = eng.find('contains_range', self_ty='FileLines', file=F)
    p, q = z3.BitVec('p', 64), z3.BitVec('q', 64)

    def replay_fl(model, r):
        k = r.ob.meta['k']
        rs = [(model.get('r%d.lo' % i, 0), model.get('r%d.hi' % i, 0)) for i in range(k)]
        L, P, Q = model.get('l', 0), model.get('p', 0), model.get('q', 0)
        res = rp.call({'op': 'fl_query', 'ranges': rs, 'line': L, 'lo': P, 'hi': Q})
        if 'panic' in res:
            return {'reproduced': True, 'detail': 'panic: ' + res['panic'], 'ranges': rs}
        bad = []
        if res['contains_line'] != py_in(rs, L):
            bad.append('contains_line(%d)' % L)
        if P <= Q:
            sub = py_subset(rs, P, Q)
            if res['contains_range'] != sub:
                bad.append('contains_range(%d,%d)=%s but subset=%s' % (P, Q, res['contains_range'], sub))
        nres = rp.call({'op': 'normalize', 'ranges': rs})
        if 'out' in nres and py_in([tuple(x) for x in nres['out']], L) != py_in(rs, L):
            bad.append('normalize changes membership of line %d' % L)
        return {'reproduced': bool(bad), 'detail': bad, 'ranges': rs, 'line': L, 'probe': [P, Q], 'native': res, 'normalized': nres.get('out')}

    for k in range(0, K + 1):
        rs = [rng('r%d' % i) for i in range(k)]
        mvk = [x for r in rs for x in (lo(r), hi(r))] + [l, p, q]
        prek = bounded(rs) + [z3.ULT(l, LIM), z3.ULT(p, LIM), z3.ULT(q, LIM)]
        small = [z3.ULT(x, 40) for x in mvk]
        st = State()
        hm = Tup([Seq([Tup([stdin_name(), Seq(rs)])])], 'HashMap')
        href = eng.ref_to(st, hm, True, 'map')
        t = time.time()
        outs = ctx.check_outcomes(eng.run(norm, [href], st), 'normalize_ranges k=%d' % k)
        log('[C17] normalize_ranges k=%d: %d paths in %.1fs' % (k, len(outs), time.time() - t))
        for i, o in enumerate(outs):
            if o.kind == 'panic':
                ctx.prop('normalize/k%d/p%d/no-panic-inside-bound' % (k, i), o.state.pc + prek, z3.BoolVal(True), mvk, replay_fl, meta={'k': k}, twin=False, hint=small)
                continue
            outv = eng.read_ref(o.state, href).items[0].items[0].items[1]
            ctx.prop('normalize/k%d/p%d/same-line-set' % (k, i), o.state.pc + prek, in_union(outv.items, l) != in_union(rs, l), mvk, replay_fl, meta={'k': k}, hint=small)
            # compose with the predicates on the normalised map: FileLines(Some(map))
            s1 = o.state
            fl = Tup([Enum('Option', 1, {1: Tup([eng.read_ref(s1, href)])})], 'FileLines')
            flref = eng.ref_to(s1, fl, False, 'fl')
            fname = eng.ref_to(s1, stdin_name(), False, 'fname')
            s2 = s1.fork()
            for j, o2 in enumerate(ctx.check_outcomes(eng.run(cl, [flref, fname, BV(l, 'usize')], s2), 'contains_line')):
                ctx.prop('contains_line/k%d/p%d.%d/iff-in-union' % (k, i, j), o2.state.pc + prek, o2.value != in_union(rs, l), mvk, replay_fl, meta={'k': k}, hint=small)
            s3 = s1.fork()
            for j, o3 in enumerate(ctx.check_outcomes(eng.run(cr, [flref, fname, BV(p, 'usize'), BV(q, 'usize')], s3), 'contains_range')):
                ple = z3.ULE(p, q)
                ctx.prop('contains_range/k%d/p%d.%d/true=>subset' % (k, i, j), o3.state.pc + prek,
                         z3.And(ple, o3.value, z3.ULE(p, l), z3.ULE(l, q), z3.Not(in_union(rs, l))), mvk, replay_fl, meta={'k': k}, hint=small)
                # [p,q] ⊆ ⋃ rs  ⇔  p covered ∧ every hi_i+1 inside [p,q] is covered (first uncovered point argument)
                covered = z3.And([in_union(rs, p)] + [z3.Implies(z3.And(z3.ULE(p, hi(r) + 1), z3.ULE(hi(r) + 1, q)), in_union(rs, hi(r) + 1)) for r in rs])
                ctx.prop('contains_range/k%d/p%d.%d/subset=>true' % (k, i, j), o3.state.pc + prek,
                         z3.And(ple, z3.Not(o3.value), covered), mvk, replay_fl, meta={'k': k}, hint=small)

    # ---- empty selection / select-all / absent file
    st = State()
    fl_empty = eng.ref_to(st, Tup([Enum('Option', 1, {1: Tup([Tup([Seq([])], 'HashMap')])})], 'FileLines'))
    fname = eng.ref_to(st, stdin_name())
    for o in ctx.check_outcomes(eng.run(cl, [fl_empty, fname, BV(l, 'usize')], st), 'contains_line(empty)'):
        ctx.prop('empty-selection/selects-nothing', o.state.pc, o.value, [l], None)
    st = State()
    fl_all = eng.ref_to(st, Tup([Enum('Option', 0, {})], 'FileLines'))
    fname = eng.ref_to(st, stdin_name())
    for o in ctx.check_outcomes(eng.run(cl, [fl_all, fname, BV(l, 'usize')], st), 'contains_line(all)'):
        ctx.prop('no-selection/selects-everything', o.state.pc, z3.Not(o.value), [l], None)
    # a file that is not in the map is not selected
    st = State()
    r0 = rng('r0')
    other = Enum('FileName', 0, {0: Tup([Opaque('PathBuf', 'other')])})
    hm = Tup([Seq([Tup([other, Seq([r0])])])], 'HashMap')
    fl_o = eng.ref_to(st, Tup([Enum('Option', 1, {1: Tup([hm])})], 'FileLines'))
    fname = eng.ref_to(st, stdin_name())
    for o in ctx.check_outcomes(eng.run(cl, [fl_o, fname, BV(l, 'usize')], st), 'contains_line(other file)'):
        ctx.prop('file-not-named/not-selected', o.state.pc, o.value, [l], None)

    # ---- vacuity covers: interesting regions
    rs = [rng('r%d' % i) for i in range(3)]
    ctx.cover('cover/inverted-between-adjacent', bounded(rs) + [z3.UGT(lo(rs[1]), hi(rs[1])), hi(rs[0]) + 1 == lo(rs[2]), nonempty(rs[0]), nonempty(rs[2]),
                                                               z3.ULT(lo(rs[0]), lo(rs[1])), z3.ULT(lo(rs[1]), lo(rs[2]))])

    validate(ctx, eng, names, norm, cl, cr)


def to_py(v):
    if z3.is_bool(v):
        s = z3.simplify(v)
        assert z3.is_true(s) or z3.is_false(s), s
        return z3.is_true(s)
    if isinstance(v, BV):
        c = v.concrete()
        assert c is not None
        return c
    if isinstance(v, Enum):
        c = v.concrete()
        if v.name == 'Option':
            return None if c == 0 else to_py(v.payloads[1].items[0])
        return c
    if isinstance(v, Tup):
        return [to_py(x) for x in v.items]
    if isinstance(v, Seq):
        return [to_py(x) for x in v.items]
    raise Inconclusive('to_py %r' % (v,))


def crng(a, b):
    return Tup([bv_const(a, 'usize'), bv_const(b, 'usize')], 'Range')


def validate(ctx, eng, names, norm, cl, cr):
    """§4.3: the encoding and the real code agree on concrete vectors (unit-test vectors + seeded random)."""
    rp = ctx.replayer()
    n = 60 if ctx.tier == 'quick' else 400
    vecs = [((1, 2), (1, 2)), ((1, 2), (2, 3)), ((1, 3), (2, 2)), ((1, 2), (3, 4)), ((2, 1), (1, 2)), ((1, 1), (2, 2)), ((3, 4), (1, 2)), ((1, 9), (5, 3))]
    for _ in range(n):
        vecs.append(((ctx.rng.randint(0, 12), ctx.rng.randint(0, 12)), (ctx.rng.randint(0, 12), ctx.rng.randint(0, 12))))
    bad = 0
    for (A, B) in vecs:
        real = rp.call({'op': 'range_ops', 'a': A, 'b': B})
        enc = {}
        for m in ('contains', 'intersects', 'adjacent_to', 'merge'):
            outs = eng.run(names[m], [crng(*A), crng(*B)], State())
            assert len(outs) == 1 and outs[0].kind == 'ret', (m, A, B, outs)
            enc[m] = to_py(outs[0].value)
        outs = eng.run(names['is_empty'], [crng(*A)], State())
        enc['is_empty'] = to_py(outs[0].value)
        for m in enc:
            if enc[m] != real[m]:
                bad += 1
                ctx.validation_detail.append({'kernel': m, 'input': [A, B], 'encoding': enc[m], 'real': real[m]})
        ctx.validated += 1
    for _ in range(n):
        k = ctx.rng.randint(0, 4)
        rs = [(ctx.rng.randint(0, 10), ctx.rng.randint(0, 10)) for _ in range(k)]
        L, P, Q = ctx.rng.randint(0, 11), ctx.rng.randint(0, 11), ctx.rng.randint(0, 11)
        real_n = rp.call({'op': 'normalize', 'ranges': rs})['out']
        real_q = rp.call({'op': 'fl_query', 'ranges': rs, 'line': L, 'lo': P, 'hi': Q})
        st = State()
        href = eng.ref_to(st, Tup([Seq([Tup([stdin_name(), Seq([crng(*r) for r in rs])])])], 'HashMap'), True)
        outs = eng.run(norm, [href], st)
        assert len(outs) == 1 and outs[0].kind == 'ret', outs
        s1 = outs[0].state
        enc_n = to_py(eng.read_ref(s1, href).items[0].items[0].items[1])
        flref = eng.ref_to(s1, Tup([Enum('Option', 1, {1: Tup([eng.read_ref(s1, href)])})], 'FileLines'))
        fname = eng.ref_to(s1, stdin_name())
        o1 = eng.run(cl, [flref, fname, bv_const(L, 'usize')], s1.fork())
        o2 = eng.run(cr, [flref, fname, bv_const(P, 'usize'), bv_const(Q, 'usize')], s1.fork())
        enc_q = {'contains_line': to_py(o1[0].value), 'contains_range': to_py(o2[0].value)}
        if enc_n != [list(x) for x in real_n] or enc_q != real_q:
            bad += 1
            ctx.validation_detail.append({'kernel': 'normalize+query', 'input': [rs, L, P, Q], 'encoding': [enc_n, enc_q], 'real': [real_n, real_q]})
        ctx.validated += 1
    if bad:
        raise Inconclusive('translator validation: %d disagreements between the encoding and the real code: %r' % (bad, ctx.validation_detail[:3]))
    ctx.validation_detail.append({'vectors': ctx.validated, 'disagreements': 0})


if __name__ == '__main__':
    main_wrapper('C17', build)
