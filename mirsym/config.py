"""Symbolic model of rustfmt's `Config` object, derived from the MIR of the macro-generated getters.

Config is a struct whose fields are 5-tuples (Cell<bool> accessed, bool was_set, T value, bool is_stable,
bool was_set_cli). The layout (field index and value type per option) is read from each getter's own MIR,
so the real getters / setters can be executed on the object without any summary."""
import re
import z3
from .values import *

_getter_re = re.compile(r'= &\(\(\(\*_1\)\.(\d+): \((.*)\)\)\.2: (.+)\);')


def config_layout(eng):
    """-> {option_name: (field_index, value_type, tuple_type)}"""
    if getattr(eng, '_cfg_layout', None) is not None:
        return eng._cfg_layout
    lay = {}
    for r in eng.records:
        if not r['is_plain'] or r['file'] != 'src/config/config_type.rs' or r['self_ty'] != 'Config':
            continue
        mir = eng.mirs[r['mir']]
        hdr = mir.headers[r['name']]
        if not re.search(r'\(_1: &(config::)?Config\) ->', hdr):
            continue
        s, e = mir.index[r['name']]
        body = '\n'.join(mir.lines[s:e])
        m = _getter_re.search(body)
        if not m or 'Cell::<bool>::set' not in body:
            continue
        lay[r['method']] = (int(m.group(1)), m.group(3).strip(), m.group(2).strip())
    eng._cfg_layout = lay
    return lay


def make_config(eng, st, values=None, base='cfg'):
    """Allocate a symbolic Config in `st`; returns (Ref, {option: value}). `values` may pin option values."""
    lay = config_layout(eng)
    if not lay:
        raise Unsupported('Config getters not found in the MIR dump')
    n = max(i for (i, _, _) in lay.values()) + 1
    fields = [Opaque('Config.field', next(eng.counter)) for _ in range(n)]
    vals = {}
    for name, (idx, vty, _) in lay.items():
        if values and name in values:
            v = values[name]
        else:
            v = eng.fresh_of_type(st, vty, '%s.%s' % (base, name))
        vals[name] = v
        fields[idx] = Tup([z3.Bool('%s.%s.accessed' % (base, name)), z3.Bool('%s.%s.was_set' % (base, name)), v,
                           z3.Bool('%s.%s.is_stable' % (base, name)), z3.Bool('%s.%s.was_set_cli' % (base, name))])
    cfg = Tup(fields, 'Config')
    ref = Ref(eng.alloc(st, cfg, 'config'), (), True)
    return ref, vals


def config_value(eng, st, ref, name):
    lay = config_layout(eng)
    idx = lay[name][0]
    return eng.read_ref(st, ref).items[idx].items[2]


def config_was_set(eng, st, ref, name):
    lay = config_layout(eng)
    idx = lay[name][0]
    return eng.read_ref(st, ref).items[idx].items[1]
