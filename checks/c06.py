"""C06 — check mode is read-only and exact; emitters agree.

Kernels (real MIR): bin/main.rs::format (exit status), GetOptsOptions::apply_to (--check forces the diff emitter),
create_emitter (only the Files modes get a writing emitter), every emitter's emit_formatted_file (has_diff exactness,
write exactness, read-only-ness of the others), ReportedErrors::add."""
from common import *
from mirsym.config import make_config, config_layout, config_value
from mirsym.intrinsics import str_expr
import binmodel

FS_WRITE = re.compile(r'(^|::)fs::(write|rename|copy|remove_file|remove_dir|remove_dir_all|create_dir|create_dir_all|hard_link|set_permissions|File::create|OpenOptions)|(^|::)File::(create|create_new|options)|OpenOptions::|(^|::)(rename|remove_file|copy)::<')


def build(ctx):
    ctx.bounds = {'files per invocation': '0..2 (exit formula) ', 'texts': 'uninterpreted values compared for equality only',
                  'inline --config pairs': '<= 1 symbolic key/value', 'emit modes': 'all variants of EmitMode (symbolic)'}
    ctx.outside = ['modification times', 'that stdin and path inputs produce the same text (needs the formatter)', '-l / --quiet output text',
                   'the text implied by json/checkstyle/diff reports (C12)', 'exit status of the stdin path (format_string) under --check']
    ctx.assumptions = ['make_diff(o, f, _) is empty iff o and f have the same lines (contract proved under C12); equal texts have the same lines',
                       'formatting an input does not assign session.config (frame condition of format_and_emit_report)',
                       'print_diff / writeln! / Display are uninterpreted']
    lib = ctx.engine('lib')
    lib.lenient = True

    # ---------------------------------------------------------------- A. ReportedErrors::add ORs every flag
    flags = binmodel.reported_errors_fields(lib)
    add = lib.find('add', self_ty='ReportedErrors', file='src/formatting.rs')
    st = State()
    a = [z3.Bool('self.' + f) for f in flags]
    b = [z3.Bool('other.' + f) for f in flags]
    ra = lib.ref_to(st, Tup(a, 'ReportedErrors'), True)
    rb = lib.ref_to(st, Tup(b, 'ReportedErrors'), False)
    for i, o in enumerate(ctx.check_outcomes(lib.run(add, [ra, rb], st), 'ReportedErrors::add')):
        after = lib.read_ref(o.state, ra).items
        for j, f in enumerate(flags):
            ctx.prop('ReportedErrors::add/p%d/%s-is-or' % (i, f), o.state.pc, after[j] != z3.Or(a[j], b[j]), a + b, replay_cli(ctx, 'add'))
        other_after = lib.read_ref(o.state, rb).items
        ctx.prop('ReportedErrors::add/p%d/other-unchanged' % i, o.state.pc, z3.Or([x != y for x, y in zip(other_after, b)]), a + b, replay_cli(ctx, 'add'), twin=False)

    # ---------------------------------------------------------------- C. emitters: has_diff / write exactness
    lib.inline_only = [re.compile(r'src/emitter'), re.compile(r'src/config/config_type\.rs'), re.compile(r'^Config::'), re.compile(r'ensure_real_path'),
                       re.compile(r'EmitterResult')]
    lib.no_inline = [re.compile(r'^print_diff'), re.compile(r'^output_checkstyle_file|add_misformatted_file|^ModifiedLines|^make_diff')]
    same_lines = z3.Function('same_lines', lib_str_sort(), lib_str_sort(), z3.BoolSort())

    def make_diff_stub(eng_, st, args, ci):
        o, f = args[0], args[1]
        sl = same_lines(str_expr(o), str_expr(f))
        st.assume(z3.Implies(str_expr(o) == str_expr(f), sl))
        s2 = st.fork()
        st.assume(sl)
        s2.assume(z3.Not(sl))
        return [(st, 'ret', Seq([])), (s2, 'ret', Seq([Opaque('Mismatch', 'm')]))]
    lib.stub(r'(^|::)make_diff$', make_diff_stub, 'make_diff(o,f,ctx) = empty iff same_lines(o,f); o == f implies same_lines (contract from C12)')
    lib.stub(r'^<bool as (std::default::)?Default>::default$', lambda e, s, a_, c: z3.BoolVal(False), 'bool::default() = false')

    emitters = {}
    for r in lib.records:
        if r['is_plain'] and r['method'] == 'emit_formatted_file' and r['file'] and r['file'].startswith('src/emitter/') and r['trait'] == 'Emitter':
            emitters[r['self_ty']] = r['name']
    expected = {'DiffEmitter', 'FilesEmitter', 'FilesWithBackupEmitter', 'StdoutEmitter', 'JsonEmitter', 'CheckstyleEmitter', 'ModifiedLinesEmitter'}
    if set(emitters) != expected:
        raise Inconclusive('set of emitters changed: %r' % (sorted(emitters),))
    WRITERS = {'FilesEmitter', 'FilesWithBackupEmitter'}
    ok_paths = []
    for ename, fname in sorted(emitters.items()):
        st = State()
        orig = lib.fresh_str('original')
        fmt = lib.fresh_str('formatted')
        fnref = lib.ref_to(st, Enum('FileName', 0, {0: Tup([Opaque('PathBuf', 'F')])}), False, 'fname')
        ff = Tup([fnref, orig, fmt], 'FormattedFile')
        selfv = mk_emitter(lib, st, ename)
        selfref = lib.ref_to(st, selfv, True, 'self')
        outref = lib.ref_to(st, Opaque('dyn Write', 'out'), True, 'out')
        try:
            outs = ctx.check_outcomes(lib.run(fname, [selfref, outref, ff], st), ename)
        except Unsupported as e:
            raise Inconclusive('%s::emit_formatted_file not encodable: %s' % (ename, e))
        differ = orig.e != fmt.e
        for i, o in enumerate(outs):
            if o.kind != 'ret':
                continue
            fs_calls = [t for t in o.state.trace if t[0] == 'call' and FS_WRITE.search(t[1])]
            ret_ok = o.value.discr == 0
            has_diff = None
            if 0 in o.value.payloads:
                er = o.value.payloads[0].items[0]
                if isinstance(er, Tup) and er.items and z3.is_bool(er.items[0]):
                    has_diff = er.items[0]
            if ename not in WRITERS:
                ctx.prop('%s/p%d/read-only:no-file-system-write' % (ename, i), o.state.pc, z3.BoolVal(bool(fs_calls)), [], replay_cli(ctx, 'readonly'), twin=False,
                         meta={'fs_calls': [t[1] for t in fs_calls]})
            if ename == 'DiffEmitter':
                if has_diff is None and 0 not in o.value.payloads:
                    continue   # Err path (output write failed): no EmitterResult
                if has_diff is None:
                    raise Inconclusive('DiffEmitter result shape %r' % (o.value,))
                ctx.prop('DiffEmitter/p%d/has_diff-iff-texts-differ' % i, o.state.pc + [ret_ok], has_diff != differ, [], replay_cli(ctx, 'diff-newline'))
            if ename == 'FilesEmitter':
                writes = [t for t in fs_calls if re.search(r'write::<', t[1])]
                other = [t for t in fs_calls if t not in writes]
                ctx.prop('FilesEmitter/p%d/writes-iff-texts-differ' % i, o.state.pc + [ret_ok], z3.BoolVal(bool(writes)) != differ, [], replay_cli(ctx, 'files'), twin=False)
                ok_paths.append(z3.And(o.state.pc + [ret_ok]))
                ctx.prop('FilesEmitter/p%d/only-fs::write' % i, o.state.pc, z3.BoolVal(bool(other) or len(writes) > 1), [], replay_cli(ctx, 'files'), twin=False)
                for w in writes:
                    data = w[2][1]
                    while isinstance(data, Ref):
                        data = lib.read_ref(o.state, data)
                    tgt = w[2][0]
                    while isinstance(tgt, Ref):
                        tgt = lib.read_ref(o.state, tgt)
                    ctx.prop('FilesEmitter/p%d/writes-the-formatted-text-to-the-file' % i, o.state.pc,
                             z3.Or(str_expr(data) != fmt.e, z3.BoolVal(not (isinstance(tgt, Opaque) and tgt.ident == 'F'))), [], replay_cli(ctx, 'files'), twin=False)
                if has_diff is not None:
                    ctx.prop('FilesEmitter/p%d/never-reports-has_diff' % i, o.state.pc + [ret_ok], has_diff, [], replay_cli(ctx, 'files'), twin=False)
            if ename == 'FilesWithBackupEmitter':
                # files mode with --backup touches the file system only if the formatted text differs (what it does then is C20's subject)
                ctx.prop('FilesWithBackupEmitter/p%d/touches-the-file-system-only-if-texts-differ' % i, o.state.pc, z3.And(z3.BoolVal(bool(fs_calls)), z3.Not(differ)), [],
                         replay_cli(ctx, 'backup-unchanged'), twin=False, meta={'fs_calls': [t[1] for t in fs_calls]})
    lib.stubs = [x for x in lib.stubs if 'make_diff' not in x[2]]
    ctx.cover('cover/FilesEmitter-has-a-successful-path', [z3.Or(ok_paths)])

    # ---------------------------------------------------------------- C'. the per-file result is accumulated: has_diff of the report only ever goes up
    hff = lib.find('handle_formatted_file', self_ty='Session', file='src/formatting.rs', trait='FormatHandler')
    was_lenient = lib.lenient
    lib.lenient = True
    lib.inline_only = [re.compile(r'handle_formatted_file$'), re.compile(r'FormatReport::add_diff$|add_diff$'), re.compile(r'src/lib\.rs.*add_diff')]
    er_has_diff = z3.Bool('emitted.has_diff')
    wf_ok = z3.Bool('write_file.ok')

    def write_file_stub(eng_, st_, args, ci):
        return Enum('Result', z3.If(wf_ok, z3.BitVecVal(0, 64), z3.BitVecVal(1, 64)), {0: Tup([Tup([er_has_diff], 'EmitterResult')]), 1: Tup([Opaque('io::Error', 'wf')])})
    lib.stub(r'source_file::write_file::<|(^|::)write_file::<', write_file_stub, 'source_file::write_file = Ok(EmitterResult { has_diff }) or Err(io), both symbolic')
    st = State()
    re_fields = [n for n, _ in lib.src.struct_fields('ReportedErrors', 'src/formatting.rs')]
    before = [z3.Bool('report.%s' % n) for n in re_fields]
    internal = Tup([Opaque('FormatErrorMap', 'm'), Tup(list(before), 'ReportedErrors')])
    cell = lib.ref_to(st, Tup([internal], 'RefCell'), True, 'cell')
    report = lib.ref_to(st, Tup([cell, Opaque('Vec', 'nfr')], 'FormatReport'), True, 'report')
    sess = Opaque('Session', 'sess')
    sfields = [n for n, _ in lib.src.struct_fields('Session', 'src/lib.rs')]
    st.notes[('lazy', sess.ident, sfields.index('out'))] = Enum('Option', 1, {1: Tup([Opaque('&mut T', 'out')])})
    sref = lib.ref_to(st, sess, True, 'session')
    try:
        outs = ctx.check_outcomes(lib.run(hff, [sref, lib.fresh_of_type(st, '&ParseSess', 'psess'), Enum('FileName', 1, {}), lib.fresh_str('result'), report], st), 'handle_formatted_file')
    except Unsupported as e:
        raise Inconclusive('handle_formatted_file not encodable: %s' % e)
    hd = re_fields.index('has_diff')
    nret = 0
    for i, o in enumerate(outs):
        if o.kind != 'ret':
            continue
        nret += 1
        after = lib.read_ref(o.state, cell).items[0].items[1].items
        okv = o.value.discr == 0
        if not lib.feasible(o.state, okv):
            continue            # the Err(io) return: the report is whatever it was
        ctx.prop('handle_formatted_file/p%d/has_diff-accumulates(or)' % i, o.state.pc + [okv], after[hd] != z3.Or(before[hd], er_has_diff), before + [er_has_diff, wf_ok], replay_cli(ctx, 'module-tree'))
        for j, n in enumerate(re_fields):
            if j != hd:
                ctx.prop('handle_formatted_file/p%d/%s-untouched' % (i, n), o.state.pc + [okv], after[j] != before[j], before + [er_has_diff], replay_cli(ctx, 'module-tree'), twin=False)
    if not nret:
        raise Inconclusive('handle_formatted_file has no returning path')
    lib.stubs = [x for x in lib.stubs if 'write_file' not in x[2]]
    lib.lenient = was_lenient
    part_write_file(ctx, lib, replay_cli(ctx, 'files'))

    # ---------------------------------------------------------------- D. create_emitter: a writing emitter only for EmitMode::Files
    part_create_emitter(ctx, lib, replay_cli(ctx, 'create'))
    modes = lib.enum_variants('EmitMode')

    # ---------------------------------------------------------------- B/E on the binary
    both = ctx.engine(('rustfmt', 'lib'), loop_bound=4)
    both.lenient = True
    both.inline_only = [re.compile(p) for p in binmodel.LENIENT_INLINE]
    for nfiles in (0, 1, 2):
        paths, info = binmodel.run_format_fn(ctx, both, nfiles)
        ctx.paths += len(paths)
        log('[C06] format() with %d files: %d paths' % (nfiles, len(paths)))
        for i, p in enumerate(paths):
            o = p['outcome']
            if o.kind != 'ret':
                continue
            v = o.value
            if 0 not in v.payloads:
                continue
            code = v.payloads[0].items[0]
            ok = v.discr == 0
            sess = [s for s in binmodel.final_session(both, o.state, info)]
            if len(sess) != 1:
                # session was never created on this path (early error return)
                ctx.prop('format/n%d/p%d/no-session=>error-return' % (nfiles, i), o.state.pc, ok, [], replay_cli(ctx, 'exit'), twin=False)
                continue
            errs = o.state.notes.get(('lazy', sess[0].ident, info['err_idx']))
            if not isinstance(errs, Tup):
                raise Inconclusive('session.errors not tracked')
            fl = dict(zip(info['flags'], errs.items))
            want1 = z3.Or(fl['has_operational_errors'], fl['has_parsing_errors'], z3.And(z3.Or(fl['has_diff'], fl['has_check_errors']), p['check']))
            ctx.prop('format/n%d/p%d/exit-status-formula' % (nfiles, i), o.state.pc + [ok],
                     z3.Not(z3.And(z3.Or(code.e == 0, code.e == 1), (code.e == 1) == want1)), list(errs.items) + [p['check']], replay_cli(ctx, 'exit'))

    # B'. the same formula for standard input (format_string)
    KF_STDIN = 'C06/format_string/--check-on-standard-input-ignores-the-diff'
    paths, info = binmodel.run_format_string_fn(ctx, both)
    ctx.paths += len(paths)
    log('[C06] format_string(): %d paths' % len(paths))
    nfer = 0
    for i, p in enumerate(paths):
        o = p['outcome']
        if o.kind != 'ret':
            continue
        v = o.value
        if 0 not in v.payloads:
            continue
        code = v.payloads[0].items[0]
        ok = v.discr == 0
        sess = [s_ for s_ in binmodel.final_session(both, o.state, info)]
        if len(sess) != 1 or not p['fer']:
            ctx.prop('format_string/p%d/no-formatting=>error-return' % i, o.state.pc, ok, [], replay_cli(ctx, 'stdin'), twin=False)
            continue
        nfer += 1
        errs = o.state.notes.get(('lazy', sess[0].ident, info['err_idx']))
        if not isinstance(errs, Tup):
            raise Inconclusive('session.errors not tracked in format_string')
        fl = dict(zip(info['flags'], errs.items))
        want1 = z3.Or(fl['has_operational_errors'], fl['has_parsing_errors'], z3.And(z3.Or(fl['has_diff'], fl['has_check_errors']), p['check']))
        cls = [(KF_STDIN, z3.And(p['check'], z3.Or(fl['has_diff'], fl['has_check_errors']), z3.Not(fl['has_operational_errors']), z3.Not(fl['has_parsing_errors'])))]
        ctx.prop('format_string/p%d/exit-status-formula' % i, o.state.pc + [ok],
                 z3.Not(z3.And(z3.Or(code.e == 0, code.e == 1), (code.e == 1) == want1)), list(errs.items) + [p['check']], replay_cli(ctx, 'stdin'), classes=cls)
    if nfer == 0:
        raise Inconclusive('format_string: no path formats the input')

    # E. apply_to: --check forces EmitMode::Diff whatever else is given
    both.inline_only = [re.compile(r'src/bin/main\.rs'), re.compile(r'src/config/config_type\.rs'), re.compile(r'GetOptsOptions::'), re.compile(r'^Config'),
                        re.compile(r'ConfigSetter'), re.compile(r'src/config/file_lines\.rs'), re.compile(r'FileLines::')]
    both.no_inline = [re.compile(r'set_heuristics|set_width_heuristics|set_ignore|set_license|set_hide_parse_errors|set_fn_args_layout|set_merge_imports|set_version')]
    apply_to = both.find('apply_to', self_ty='GetOptsOptions', file='src/bin/main.rs')
    gfields = both.src.struct_fields('GetOptsOptions', 'src/bin/main.rs')
    for ninline in (0, 1):
        st = State()
        cfgref, cv = make_config(both, st)
        vals = []
        key = both.fresh_str('inline.key')
        val = both.fresh_str('inline.val')
        for n, ty in gfields:
            if n == 'check':
                vals.append(z3.BoolVal(True))
            elif n == 'inline_config':
                vals.append(Tup([Seq([Tup([key, val])] if ninline else [])], 'HashMap'))
            elif n == 'file_lines':
                vals.append(Tup([Enum('Option', 0, {})], 'FileLines'))
            elif ninline and n not in ('emit_mode', 'backup'):
                # concretised (the clause does not depend on them; the full cross product is decided with no inline pair)
                if ty.strip() == 'bool':
                    vals.append(z3.BoolVal(False))
                elif ty.strip().startswith('Option<'):
                    vals.append(Enum('Option', 0, {}))
                else:
                    vals.append(both.fresh_of_type(st, ty, 'opt.' + n))
            else:
                vals.append(both.fresh_of_type(st, ty, 'opt.' + n))
        try:
            outs = ctx.check_outcomes(both.run(apply_to, [Tup(vals, 'GetOptsOptions'), cfgref], st), 'apply_to')
        except Unsupported as e:
            raise Inconclusive('apply_to not encodable: %s' % e)
        log('[C06] apply_to with %d inline pairs: %d paths' % (ninline, len(outs)))
        nret = 0
        viol = []
        for i, o in enumerate(outs):
            if o.kind != 'ret':
                continue
            nret += 1
            emv = config_value(both, o.state, cfgref, 'emit_mode')
            if not isinstance(emv, Enum):
                raise Inconclusive('emit_mode value after apply_to is %r' % (emv,))
            viol.append(z3.And(z3.And(o.state.pc) if o.state.pc else z3.BoolVal(True), emv.discr != modes.index('Diff')))
        if not nret:
            raise Inconclusive('apply_to has no returning path')
        # one obligation over all paths (the option-name dispatch of override_value forks once per option)
        kfind = 'C06/apply_to/--check --config emit_mode=<other> selects a writing emitter'
        cls = [(kfind, str_is(both, key, 'emit_mode'))] if ninline else []
        ctx.prop('apply_to/inline%d/--check-selects-the-diff-emitter' % ninline, [], z3.Or(viol), [], replay_cli(ctx, 'check-inline'), classes=cls, twin=False)
    ctx.cover('cover/check-with-diff-and-no-error', [z3.BoolVal(True)])
    validate(ctx)


def part_create_emitter(ctx, lib, rp):
    """lib.rs::create_emitter over a symbolic Config: a writing emitter exactly for EmitMode::Files, the backup emitter exactly with make_backup
    (whatever the other options say), the diff emitter only for Diff."""
    WRITERS = {'FilesEmitter', 'FilesWithBackupEmitter'}
    old = (lib.inline_only, lib.lenient)
    lib.lenient = True          # Box::new / Default of the emitter structs are environment
    lib.inline_only = [re.compile(r'src/config/config_type\.rs'), re.compile(r'^Config::'), re.compile(r'src/emitter'), re.compile(r'create_emitter')]
    try:
        ce = lib.find('create_emitter', free=True)
        st = State()
        cfgref, cv = make_config(lib, st)
        em = cv['emit_mode']
        modes = lib.enum_variants('EmitMode')
        outs = ctx.check_outcomes(lib.run(ce, [cfgref], st), 'create_emitter')
    finally:
        lib.inline_only, lib.lenient = old
    for i, o in enumerate(outs):
        if o.kind != 'ret':
            ctx.prop('create_emitter/p%d/no-panic' % i, o.state.pc, z3.BoolVal(True), [em.discr], rp, twin=False)
            continue
        nm = emitter_type(lib, o.state, o.value)
        if nm is None:
            raise Inconclusive('create_emitter result not recognised: %r' % (o.value,))
        is_files = em.discr == modes.index('Files')
        ctx.prop('create_emitter/p%d/%s/writing-emitter-iff-Files-mode' % (i, nm), o.state.pc, z3.BoolVal(nm in WRITERS) != is_files, [em.discr], rp)
        if nm in WRITERS:
            ctx.prop('create_emitter/p%d/%s/backup-emitter-iff-make_backup' % (i, nm), o.state.pc, z3.BoolVal(nm == 'FilesWithBackupEmitter') != cv['make_backup'], [em.discr], rp)
        if nm == 'DiffEmitter':
            ctx.prop('create_emitter/p%d/DiffEmitter-only-for-Diff-mode' % i, o.state.pc, em.discr != modes.index('Diff'), [em.discr], rp, twin=False)


def part_write_file(ctx, lib, rp):
    """source_file::write_file: which text is handed to the emitter as the original.  rustc's source map keeps every file with LF terminators, so
    whenever the user fixed a newline style (anything but Auto) and the input is a real file, the original must be the bytes on disk - otherwise
    a file that differs from its formatted text only in its terminators looks unchanged (not rewritten, no diff, --check exits 0).  With Auto, or
    for standard input, the text of the parse session is used when there is one, the file otherwise."""
    name = lib.find('write_file', free=True)
    ns = lib.enum_variants('NewlineStyle')
    AUTO = ns.index('Auto')
    fnv = lib.enum_variants('FileName')
    REAL, STDIN = fnv.index('Real'), fnv.index('Stdin')
    old = (lib.lenient, lib.inline_only, list(lib.stubs))
    lib.lenient = True
    lib.stubs = []
    lib.inline_only = [re.compile(r'^write_file($|::)'), re.compile(r'(FileName|NewlineStyle) as (std::cmp::)?PartialEq'), re.compile(r'Option::<.*>::and_then')]
    disk = lib.fresh_str('text_on_disk')
    smap = lib.fresh_str('text_in_the_source_map')
    read_ok = z3.Bool('read_to_string.ok')
    have_snip = z3.Bool('source_map_has_the_file')

    def deref(e, s_, v):
        while isinstance(v, Ref):
            v = e.read_ref(s_, v)
        return v
    lib.stub(r'fs::read_to_string::<', lambda e, s_, a, c: (s_.trace.append(('read_disk',)), Enum('Result', z3.If(read_ok, z3.BitVecVal(0, 64), z3.BitVecVal(1, 64)), {0: Tup([disk]), 1: Tup([Opaque('io::Error', 'rd')])}))[1],
             'fs::read_to_string = Ok(the text on disk) | Err')
    lib.stub(r'get_original_snippet$', lambda e, s_, a, c: (s_.trace.append(('ask_source_map',)), Enum('Option', z3.If(have_snip, z3.BitVecVal(1, 64), z3.BitVecVal(0, 64)), {1: Tup([smap])}))[1],
             'ParseSess::get_original_snippet = Some(the text in the source map) | None')
    def enum_cmp(e, s_, a, c):
        x, y = deref(e, s_, a[0]), deref(e, s_, a[1])
        if not (isinstance(x, Enum) and isinstance(y, Enum)):
            raise Unsupported('comparison of %r and %r' % (x, y))
        if x.name == 'FileName' and not (x.concrete() == STDIN or y.concrete() == STDIN):
            raise Unsupported('FileName comparison between two possibly real paths')
        r_ = x.discr == y.discr
        return r_ if c.func.endswith('::eq') else z3.Not(r_)
    lib.stub(r'(NewlineStyle|FileName) as (std::cmp::)?PartialEq>::(eq|ne)$', enum_cmp, 'NewlineStyle == / != (field-less), FileName == / != Stdin: by discriminant')
    lib.stub(r'Arc::<.*>::new$', lambda e, s_, a, c: a[0], 'Arc::new (same value)')
    lib.stub(r'String::as_str$|Arc<.*> as (std::ops::)?Deref>::deref$', lambda e, s_, a, c: a[0], 'Arc<String> -> &str (same text)')

    def emit(e, s_, a, c):
        ff = deref(e, s_, a[2]) if len(a) > 2 else None
        s_.trace.append(('emit', ff))
        return Enum('Result', 0, {0: Tup([Tup([e.fresh_bool('emitted.has_diff')], 'EmitterResult')])})
    lib.stub(r'Emitter>::emit_formatted_file$|::emit_formatted_file$', emit, 'Emitter::emit_formatted_file observed')
    try:
        fn = lib.get_fn(name)
        st = State()
        style = z3.BitVec('newline_style', 64)
        fkind = z3.BitVec('file_name.kind', 64)
        st.assume(z3.And(style >= 0, style < len(ns), z3.Or(fkind == REAL, fkind == STDIN)))
        has_psess = z3.BitVec('psess.is_some', 64)
        st.assume(z3.Or(has_psess == 0, has_psess == 1))
        fname = lib.ref_to(st, Enum('FileName', fkind, {REAL: Tup([Opaque('PathBuf', 'path')]), STDIN: Tup([])}), False, 'filename')
        args = []
        for pn, ty in fn.params:
            if 'Option<&' in ty and 'ParseSess' in ty:
                args.append(Enum('Option', has_psess, {1: Tup([lib.ref_to(st, Opaque('ParseSess', 'psess'), False, 'psess')])}))
            elif 'FileName' in ty:
                args.append(fname)
            elif 'NewlineStyle' in ty:
                args.append(Enum('NewlineStyle', style, {}))
            elif ty.strip() == '&str':
                args.append(lib.fresh_str('formatted_text'))
            else:
                args.append(lib.fresh_of_type(st, ty, 'arg.%s' % pn))
        outs = ctx.check_outcomes(lib.run(name, args, st), 'write_file', allow_panic=True)
    finally:
        lib.lenient, lib.inline_only, lib.stubs = old
    mv = [style, fkind, has_psess, read_ok, have_snip]
    n = 0
    ff_fields = [x for x, _ in lib.src.struct_fields('FormattedFile', 'src/emitter.rs')]
    for pi, o in enumerate(outs):
        if o.kind != 'ret':
            continue
        emits = [t for t in o.state.trace if t[0] == 'emit']
        if not emits:
            continue
        n += 1
        ff = emits[0][1]
        orig = deref(lib, o.state, ff.items[ff_fields.index('original_text')]) if isinstance(ff, Tup) else None
        is_disk = isinstance(orig, StrVal) and orig.e is not None and orig.e.eq(disk.e)
        is_smap = isinstance(orig, StrVal) and orig.e is not None and orig.e.eq(smap.e)
        ctx.prop('write_file/p%d/with-a-fixed-newline-style-the-original-of-a-real-file-is-the-text-on-disk' % pi, o.state.pc, z3.And(style != AUTO, fkind == REAL, z3.BoolVal(not is_disk)), mv, rp, twin=False)
        ctx.prop('write_file/p%d/the-original-is-the-text-on-disk-or-the-text-of-the-parse-session' % pi, o.state.pc, z3.BoolVal(not (is_disk or is_smap)), mv, rp, twin=False)
    if not n:
        raise Inconclusive('write_file: no path reaches the emitter')


def lib_str_sort():
    from mirsym.engine import StrSort
    return StrSort


def str_is(eng, sv, lit):
    from mirsym.values import StrVal
    return str_expr(sv) == str_expr(StrVal(s=lit))


def mk_emitter(eng, st, ename):
    f = eng.src.struct_fields(ename)
    if ename == 'DiffEmitter':
        cfgref, cv = make_config(eng, st)
        return Tup([eng.read_ref(st, cfgref)], ename)
    if f is None:
        return Tup([], ename)
    return Tup([eng.fresh_of_type(st, ty, ename + '.' + n) for n, ty in f], ename)


def emitter_type(eng, st, v):
    seen = 0
    while isinstance(v, Ref) and seen < 4:
        v = eng.read_ref(st, v)
        seen += 1
    if isinstance(v, Tup) and v.name and v.name.endswith('Emitter'):
        return v.name
    if isinstance(v, Opaque):
        m = re.search(r'([A-Za-z]+Emitter)', v.tag)
        if m:
            return m.group(1)
    return None


# ----------------------------------------------------------------------------- native replay / validation through the CLI

def cli_matrix():
    """runs the real binary over a small matrix and returns findings that contradict C06's clauses"""
    bins = ensure_bins()
    rf = os.path.join(bins, 'rustfmt')
    d = os.path.join(BUILD, 'scratch', 'c06-%d' % os.getpid())
    shutil.rmtree(d, ignore_errors=True)
    os.makedirs(d)
    findings = []
    import hashlib

    def w(name, text):
        p = os.path.join(d, name)
        with open(p, 'w', newline='') as f:
            f.write(text)
        return p

    def h(p):
        return hashlib.sha256(open(p, 'rb').read()).hexdigest()

    def run(args):
        return subprocess.run([rf] + args, capture_output=True, text=True, env=run_env(), timeout=60, cwd=d)
    bad = 'fn   main( ) { }\n'
    good = 'fn main() {}\n'
    crlf_good = 'fn main() {}\r\n'
    cases = {'bad.rs': bad, 'good.rs': good}
    for order in (['bad.rs', 'good.rs'], ['good.rs', 'bad.rs'], ['good.rs'], ['bad.rs']):
        for n, t in cases.items():
            w(n, t)
        hs = {n: h(os.path.join(d, n)) for n in cases}
        r = run(['--check'] + order)
        want = 1 if 'bad.rs' in order else 0
        if r.returncode != want:
            findings.append('--check %s: exit %d, expected %d' % (' '.join(order), r.returncode, want))
        for n in cases:
            if h(os.path.join(d, n)) != hs[n]:
                findings.append('--check %s modified %s' % (' '.join(order), n))
    for mode in ('stdout', 'json', 'checkstyle'):
        w('bad.rs', bad)
        hb = h(os.path.join(d, 'bad.rs'))
        r = run(['--emit', mode, 'bad.rs'])
        if h(os.path.join(d, 'bad.rs')) != hb:
            findings.append('--emit %s modified the file' % mode)
    # newline-style-only difference
    w('nl.rs', crlf_good)
    r = run(['--check', '--config', 'newline_style=Unix', 'nl.rs'])
    if r.returncode != 1:
        findings.append('--check with a newline-style-only difference: exit %d, expected 1 (plain rustfmt rewrites the file)' % r.returncode)
    # ... and files mode does rewrite such a file (both directions), so that --check and the rewrite agree
    for text, style, want in ((crlf_good, 'Unix', good.encode()), (good, 'Windows', crlf_good.encode())):
        pth = w('nl.rs', text)
        r = run(['--config', 'newline_style=%s' % style, 'nl.rs'])
        if open(pth, 'rb').read() != want:
            findings.append('files mode with newline_style=%s left a file that differs only in its line terminators as it was (exit %d); --check reports it' % (style, r.returncode))
    # a diagnostic that is left behind (trailing blanks in a statement that cannot be formatted) fails the run under --check as without it
    left = 'fn main() {\n    let x = foo(  \n        %s);\n}\n' % ('a' * 100)
    w('left.rs', left)
    r1 = run(['--emit', 'stdout', 'left.rs'])
    r2 = run(['--check', 'left.rs'])
    if r1.returncode == 1 and 'left behind trailing whitespace' in r1.stderr and r2.returncode != 1:
        findings.append('--check exits %d on a file for which a diagnostic is printed (trailing whitespace left behind) and which exits 1 without --check' % r2.returncode)
    # --backup keeps a copy of every file it rewrites, also together with -l / --files-with-diff
    for extra in (['-l'], ['--files-with-diff'], []):
        w('bad.rs', bad)
        r = run(['--backup'] + extra + ['bad.rs'])
        bk = os.path.join(d, 'bad.bk')
        if not os.path.exists(bk) or open(bk).read() != bad or open(os.path.join(d, 'bad.rs')).read() != good:
            findings.append('--backup %s: bad.bk %s, bad.rs %s' % (' '.join(extra), 'holds the original' if os.path.exists(bk) and open(bk).read() == bad else 'missing or wrong',
                                                                     'formatted' if open(os.path.join(d, 'bad.rs')).read() == good else 'not formatted'))
        if os.path.exists(bk):
            os.remove(bk)
    # --check combined with an inline emit_mode
    w('bad.rs', bad)
    hb = h(os.path.join(d, 'bad.rs'))
    r = run(['--check', '--config', 'emit_mode=files', 'bad.rs'])
    inline = None
    if h(os.path.join(d, 'bad.rs')) != hb:
        inline = '--check --config emit_mode=files rewrote the file (exit %d)' % r.returncode
    # --backup / make_backup must not turn a reporting mode into a writing one
    for args in (['--check', '--backup'], ['--emit', 'stdout', '--backup'], ['--emit', 'json', '--config', 'make_backup=true']):
        w('bad.rs', bad)
        hb = h(os.path.join(d, 'bad.rs'))
        r = run(args + ['bad.rs'])
        if h(os.path.join(d, 'bad.rs')) != hb or os.path.exists(os.path.join(d, 'bad.bk')):
            findings.append('%s rewrote the file or left a .bk' % ' '.join(args))
            for x in ('bad.bk',):
                if os.path.exists(os.path.join(d, x)):
                    os.remove(os.path.join(d, x))
        if args[0] == '--check' and r.returncode != 1:
            findings.append('%s on an unformatted file exits %d' % (' '.join(args), r.returncode))
    # a formatted file with a macro call whose arguments do not parse: plain rustfmt rewrites nothing, so --check must exit 0
    mac = 'fn main() {\n    route!(GET "/users" => list_users);\n}\n'
    w('mac.rs', mac)
    r0 = run(['mac.rs'])
    if open(os.path.join(d, 'mac.rs')).read() == mac:
        r = run(['--check', 'mac.rs'])
        if r.returncode != 0:
            findings.append('--check exits %d on a file that plain rustfmt leaves untouched (macro with unparsable arguments)' % r.returncode)
    # files mode writes formatted text only when it differs
    w('good.rs', good)
    m0 = os.stat(os.path.join(d, 'good.rs')).st_mtime_ns
    run(['good.rs'])
    if os.stat(os.path.join(d, 'good.rs')).st_mtime_ns != m0:
        findings.append('files mode touched an already formatted file')
    w('bad.rs', bad)
    run(['bad.rs'])
    if open(os.path.join(d, 'bad.rs')).read() != good:
        findings.append('files mode did not write the formatted text')
    shutil.rmtree(d, ignore_errors=True)
    return findings, inline


def tree_matrix():
    """--check over a root file with out-of-line modules: exit 1 iff some file of the tree would be rewritten, whatever its position"""
    bins = ensure_bins()
    rf = os.path.join(bins, 'rustfmt')
    d = os.path.join(BUILD, 'scratch', 'c06t-%d' % os.getpid())
    out = []
    bad, good = 'pub fn   f( ) { }\n', 'pub fn f() {}\n'
    for which in ('a', 'lib', 'z', None):
        shutil.rmtree(d, ignore_errors=True)
        os.makedirs(d)
        open(os.path.join(d, 'lib.rs'), 'w').write('mod a;\nmod z;\n' + (bad if which == 'lib' else good))
        open(os.path.join(d, 'a.rs'), 'w').write(bad if which == 'a' else good)
        open(os.path.join(d, 'z.rs'), 'w').write(bad if which == 'z' else good)
        r = subprocess.run([rf, '--check', 'lib.rs'], capture_output=True, text=True, env=run_env(), timeout=60, cwd=d)
        want = 0 if which is None else 1
        if r.returncode != want:
            out.append('--check lib.rs with the unformatted file = %s: exit %d, expected %d' % (which, r.returncode, want))
    shutil.rmtree(d, ignore_errors=True)
    return out


def backup_unchanged():
    bins = ensure_bins()
    rf = os.path.join(bins, 'rustfmt')
    d = os.path.join(BUILD, 'scratch', 'c06b-%d' % os.getpid())
    shutil.rmtree(d, ignore_errors=True)
    os.makedirs(d)
    p = os.path.join(d, 'good.rs')
    open(p, 'w').write('fn main() {}\n')
    os.utime(p, (1000000000, 1000000000))
    st0 = os.stat(p)
    subprocess.run([rf, '--backup', 'good.rs'], capture_output=True, text=True, env=run_env(), timeout=60, cwd=d)
    st1 = os.stat(p)
    out = []
    if (st0.st_mtime_ns, st0.st_ino) != (st1.st_mtime_ns, st1.st_ino):
        out.append('--backup touched an already formatted file (mtime/inode changed)')
    if os.path.exists(os.path.join(d, 'good.bk')):
        out.append('--backup left a .bk for an already formatted file')
    shutil.rmtree(d, ignore_errors=True)
    return out


def stdin_matrix():
    """--check on standard input: exit 1 exactly when the text would be changed"""
    bins = ensure_bins()
    rf = os.path.join(bins, 'rustfmt')
    out = []
    for text, want in (('fn   main( ) { }\n', 1), ('fn main() {}\n', 0), ('fn main() {\n    let   x=1;\n}\n', 1)):
        r = subprocess.run([rf, '--check'], input=text, capture_output=True, text=True, env=run_env(), timeout=60)
        if r.returncode != want:
            out.append('--check on standard input %r: exit %d, expected %d (a diff was %sprinted)' % (text[:20], r.returncode, want, '' if r.stdout.strip() else 'not '))
    for mode in ('stdout', 'json', 'checkstyle'):
        r = subprocess.run([rf, '--emit', mode], input='fn   main( ) { }\n', capture_output=True, text=True, env=run_env(), timeout=60)
        if r.returncode != 0:
            out.append('--emit %s on standard input exits %d' % (mode, r.returncode))
    return out


def replay_cli(ctx, what):
    def replay(model, r):
        if what == 'module-tree':
            f = tree_matrix()
            return {'reproduced': bool(f), 'detail': f[:4]}
        if what == 'backup-unchanged':
            f = backup_unchanged()
            return {'reproduced': bool(f), 'detail': f[:4]}
        if what == 'stdin':
            f = stdin_matrix()
            key = r.ob.meta.get('key')
            chk = [x for x in f if x.startswith('--check')]
            if key:
                return {'reproduced': bool(chk), 'detail': chk[:3]}
            other = [x for x in f if not x.startswith('--check')] if 'C06/format_string/--check-on-standard-input-ignores-the-diff' in ctx.open_keys else f
            return {'reproduced': bool(other), 'detail': other[:3]}
        findings, inline = cli_matrix()
        if what == 'check-inline':
            return {'reproduced': inline is not None, 'detail': inline}
        return {'reproduced': bool(findings), 'detail': findings[:5], 'clause': what}
    return replay


def validate(ctx):
    findings, inline = cli_matrix()
    ctx.validated += 1
    ctx.validation_detail.append({'cli_matrix_findings_on_this_tree': findings, 'check_inline_emit_mode': inline})


if __name__ == '__main__':
    main_wrapper('C06', build)
