"""C11 — reordering uses a consistent total preorder: version_sort chunking and comparator, compare_items key.

(a) VersionChunkIter over symbolic ASCII identifiers of concrete length: the chunks partition the identifier, kinds/values are right.
(b) version_sort over harness-supplied chunk lists: antisymmetric, transitive, reflexive, and Equal only for identical chunk lists."""
from common import *
from mirsym.intrinsics import str_expr, some, NONE, is_whitespace_expr
from mirsym.values import StrVal
import itertools as _it

SF = 'src/sort.rs'


def deref(eng, st, v):
    while isinstance(v, Ref):
        v = eng.read_ref(st, v)
    return v


def symstr(chars):
    return Tup([Seq(chars)], 'SymStr')


def install_str_model(eng):
    def chars_of(eng_, st_, v):
        v = deref(eng_, st_, v)
        if isinstance(v, Tup) and v.name == 'SymStr':
            return list(v.items[0].items)
        raise Unsupported('not a symbolic string: %r' % (v,))

    def idx_from(eng_, st_, args, ci):
        cs = chars_of(eng_, st_, args[0])
        r = deref(eng_, st_, args[1])
        a = eng_.concrete_under(st_, r.items[0])
        if a is None or a > len(cs):
            raise Unsupported('slice start %r' % (r,))
        return symstr(cs[a:])
    eng.stub(r'^<str as (std::ops::)?Index<(std::ops::)?RangeFrom<usize>>>::index$', idx_from, 'str[a..] on a symbolic ASCII string of concrete length')

    def idx_range(eng_, st_, args, ci):
        cs = chars_of(eng_, st_, args[0])
        r = deref(eng_, st_, args[1])
        a, b = eng_.concrete_under(st_, r.items[0]), eng_.concrete_under(st_, r.items[1])
        if a is None or b is None or not (a <= b <= len(cs)):
            raise Unsupported('slice %r' % (r,))
        return symstr(cs[a:b])
    eng.stub(r'^<str as (std::ops::)?Index<(std::ops::)?Range<usize>>>::index$', idx_range, 'str[a..b]')

    def char_indices(eng_, st_, args, ci):
        cs = chars_of(eng_, st_, args[0])
        cell = eng_.ref_to(st_, Seq([Tup([bv_const(i, 'usize'), c]) for i, c in enumerate(cs)]), True, 'ci')
        return Tup([cell, bv_const(0, 'usize')], 'OwnedIter')
    eng.stub(r'<impl str>::char_indices$', char_indices, 'str::char_indices (ASCII: index = position)')

    def chars(eng_, st_, args, ci):
        cs = chars_of(eng_, st_, args[0])
        cell = eng_.ref_to(st_, Seq(cs), True, 'chars')
        return Tup([cell, bv_const(0, 'usize')], 'OwnedIter')
    eng.stub(r'<impl str>::chars$', chars, 'str::chars')

    def owned_next(eng_, st_, args, ci):
        it = eng_.read_ref(st_, args[0])
        cell, pos = it.items
        seq = eng_.read_ref(st_, cell)
        p = pos.concrete()
        if p >= len(seq.items):
            return NONE
        eng_.write_ref(st_, args[0], Tup([cell, bv_const(p + 1, 'usize')], 'OwnedIter'))
        return some(seq.items[p])
    eng.stub(r'^<(std::str::)?(CharIndices|Chars)<.*> as (std::iter::)?Iterator>::next$', owned_next, 'CharIndices/Chars::next')
    eng.stub(r'<impl str>::len$', lambda e, s, a, c: bv_const(len(chars_of(e, s, a[0])), 'usize'), 'str::len (ASCII)')
    eng.stub(r'Chars<.*> as (std::iter::)?Iterator>::take_while::<', lambda e, s, a, c: Tup([a[0], a[1]], 'TakeWhile'), 'Iterator::take_while (lazy)')

    def tw_count(eng_, st_, args, ci):
        tw = args[0]
        it, f = tw.items
        cell, pos = it.items
        seq = eng_.read_ref(st_, cell)
        items = list(seq.items[pos.concrete():])
        res = []
        live = [(st_, 0)]
        for item in items:
            nxt = []
            for (s1, n) in live:
                cellr = eng_.ref_to(s1, item, False, 'twitem')
                for (s2, kind, val) in eng_.call_value(s1, f, [cellr], None):
                    if kind != 'ret':
                        raise Unsupported('take_while closure')
                    t_ok = eng_.feasible(s2, val)
                    f_ok = eng_.feasible(s2, z3.Not(val))
                    if t_ok and f_ok:
                        s3 = s2.fork()
                        s3.assume(z3.Not(val))
                        res.append((s3, 'ret', bv_const(n, 'usize')))
                        s2.assume(val)
                        nxt.append((s2, n + 1))
                    elif t_ok:
                        nxt.append((s2, n + 1))
                    elif f_ok:
                        res.append((s2, 'ret', bv_const(n, 'usize')))
            live = nxt
        for (s1, n) in live:
            res.append((s1, 'ret', bv_const(n, 'usize')))
        return res
    eng.stub(r'^<TakeWhile<(std::str::)?Chars<.*>, .*> as (std::iter::)?Iterator>::count$', tw_count, 'TakeWhile::count (forks on the real closure)')

    def parse_usize(eng_, st_, args, ci):
        cs = chars_of(eng_, st_, args[0])
        if not cs:
            return Enum('Result', 1, {1: Tup([Opaque('ParseIntError', 'empty')])})
        alld = z3.And([z3.And(z3.UGE(c.e, 48), z3.ULE(c.e, 57)) for c in cs])
        v = z3.BitVecVal(0, 128)
        for c in cs:
            v = v * 10 + z3.ZeroExt(96, c.e - 48)
        fits = z3.ULT(v, z3.BitVecVal(1 << 64, 128)) if len(cs) <= 38 else z3.BoolVal(False)
        ok = z3.And(alld, fits)
        return Enum('Result', z3.If(ok, z3.BitVecVal(0, 64), z3.BitVecVal(1, 64)), {0: Tup([BV(z3.Extract(63, 0, v), 'usize')]), 1: Tup([Opaque('ParseIntError', 'e')])})
    eng.stub(r'<impl str>::parse::<usize>$', parse_usize, 'str::parse::<usize>: Ok(value) iff all digits and value < 2^64')

    def res_ok(eng_, st_, args, ci):
        v = args[0]
        d = z3.If(v.discr == 0, z3.BitVecVal(1, 64), z3.BitVecVal(0, 64))
        return Enum('Option', d, {1: v.payloads[0]})
    eng.stub(r'Result::<.*>::ok$', res_ok, 'Result::ok')


def build(ctx):
    eng = ctx.engine('lib', loop_bound=40)
    L = 4 if ctx.tier == 'quick' else 6
    NCH = 2 if ctx.tier == 'quick' else 3
    ctx.bounds = {'pairs (antisymmetry, Equal => identical)': 'up to %d chunks per operand' % (3 if NCH <= 2 else 4), 'identifier length (chunking)': '<= %d ASCII characters, any content; one all-digit identifier of 20 and 21 characters for the numeric range' % L,
                  'chunk lists (comparator)': 'three operands of <= %d chunks with symbolic kinds, values, zero counts and uninterpreted texts' % NCH}
    ctx.outside = ['that sort is called on the right slices (only which std sorting routine each site of reorder.rs / imports.rs calls is decided); group boundaries; attached comments', 'permutation -> same text (needs the formatter)',
                   'non-ASCII identifiers (byte offsets differ from character positions)', 'UseSegment / UseTree ordering of style editions <= 2021', 'compare_items (rustc Symbol strings)']
    ctx.assumptions = ['str cmp on chunk texts = a total order on uninterpreted values (antisymmetric, transitive, Equal iff equal; ground-instantiated)',
                       'digit runs sort before identifier text (ASCII digits < letters)', 'a numeric chunk is determined by (value, zeros) and vice versa (decimal notation)']
    install_str_model(eng)
    part_chunking(ctx, eng, L)
    part_comparator(ctx, eng, NCH)
    part_sort_sites(ctx, eng)
    part_group_delimiting(ctx, eng)
    validate(ctx)


# ======================================================================================= (a) chunking

def part_chunking(ctx, eng, L):
    rp = make_replay(ctx)
    nxt = eng.find('next', self_ty='VersionChunkIter', file=SF, trait='Iterator')
    vc = eng.enum_variants('VersionChunk')
    U_, S_, N_ = vc.index('Underscore'), vc.index('Str'), vc.index('Number')
    nf = ['value', 'zeros', 'source']
    lens = list(range(0, L + 1)) + [20, 21]
    for n in lens:
        chars = [BV(z3.BitVec('c%d' % i, 32), 'char') for i in range(n)]
        st0 = State()
        for c in chars:
            if n >= 20:
                st0.assume(z3.And(z3.UGE(c.e, 48), z3.ULE(c.e, 57)))       # one long digit run
            else:
                st0.assume(z3.And(z3.UGE(c.e, 33), z3.ULE(c.e, 126)))
        ident = symstr(chars)
        itref = eng.ref_to(st0, Tup([ident, bv_const(0, 'usize')], 'VersionChunkIter'), True, 'iter')
        # iterate next() until None, following every path
        finished = []
        live = [(st0, [])]
        rounds = 0
        while live:
            rounds += 1
            if rounds > n + 3:
                raise Inconclusive('chunk iterator does not terminate within %d calls' % (n + 3))
            nl = []
            for (s, got) in live:
                outs = eng.run(nxt, [itref], s)
                for o in outs:
                    if o.kind == 'unwind':
                        raise Inconclusive('unwinding assertion in VersionChunkIter::next')
                    if o.kind != 'ret':
                        finished.append((o.state, got, ('panic', o.info)))
                        continue
                    v = o.value
                    c0 = v.concrete()
                    if c0 is None:
                        # fork on Some/None
                        for val, cond in ((1, v.discr == 1), (0, v.discr == 0)):
                            if eng.feasible(o.state, cond):
                                s2 = o.state.fork()
                                s2.assume(cond)
                                if val:
                                    nl.append((s2, got + [v.payloads[1].items[0]]))
                                else:
                                    finished.append((s2, got, None))
                    elif c0 == 1:
                        nl.append((o.state, got + [v.payloads[1].items[0]]))
                    else:
                        finished.append((o.state, got, None))
            live = nl
        ctx.paths += len(finished)
        log('[C11] chunking length %d: %d complete paths' % (n, len(finished)))
        mv = [c.e for c in chars]
        for pi, (s, got, exc) in enumerate(finished):
            tag = 'chunks/len%d/p%d' % (n, pi)
            if exc:
                ctx.prop(tag + '/no-panic', s.pc, z3.BoolVal(True), mv, rp, twin=False)
                continue
            # partition: concatenated sources are the identifier
            pos = 0
            bad = []
            structural = False
            for ch in got:
                k = ch.concrete()
                if k is None:
                    raise Inconclusive('chunk with symbolic kind')
                if k == U_:
                    if pos >= n:
                        structural = True
                        break
                    bad.append(chars[pos].e != 95)
                    pos += 1
                    continue
                pl = ch.payloads[k]
                src = deref(eng, s, pl.items[0] if k == S_ else pl.items[nf.index('source')])
                sc = list(src.items[0].items)
                if not sc or pos + len(sc) > n:
                    structural = True
                    break
                for j, c in enumerate(sc):
                    bad.append(c.e != chars[pos + j].e)
                    isd = z3.And(z3.UGE(c.e, 48), z3.ULE(c.e, 57))
                    if k == S_:
                        bad.append(z3.Or(isd, c.e == 95))
                    else:
                        bad.append(z3.Not(isd))
                if k == N_:
                    val = pl.items[nf.index('value')].e
                    zer = pl.items[nf.index('zeros')].e
                    want = z3.BitVecVal(0, 64)
                    for c in sc:
                        want = want * 10 + z3.ZeroExt(32, c.e - 48)
                    bad.append(val != want)
                    # leading zeros
                    lz = z3.BitVecVal(0, 64)
                    still = z3.BoolVal(True)
                    for c in sc:
                        still = z3.And(still, c.e == 48)
                        lz = lz + z3.If(still, z3.BitVecVal(1, 64), z3.BitVecVal(0, 64))
                    bad.append(zer != lz)
                # maximality: a Str/Number chunk ends only at a kind boundary
                nxtpos = pos + len(sc)
                if nxtpos < n:
                    c = chars[nxtpos]
                    isd = z3.And(z3.UGE(c.e, 48), z3.ULE(c.e, 57))
                    if k == N_:
                        bad.append(isd)
                    else:
                        bad.append(z3.Not(z3.Or(isd, c.e == 95)))
                pos += len(sc)
            if structural or pos != n:
                kf = 'C11/version_sort/numeric-chunk>=2^64-ends-the-chunk-iterator'
                cls = [(kf, z3.BoolVal(n >= 20))]
                ctx.prop(tag + '/chunks-cover-the-whole-identifier', s.pc, z3.BoolVal(True), mv, make_replay(ctx, 'overflow'), classes=cls, twin=False)
            else:
                ctx.prop(tag + '/chunks-partition-the-identifier-with-right-kinds-and-values', s.pc, z3.Or(bad) if bad else z3.BoolVal(False), mv, rp)


# ======================================================================================= (b) comparator

def part_comparator(ctx, eng, NCH):
    rp = make_replay(ctx)
    vs = eng.find('version_sort', free=True)
    vc = eng.enum_variants('VersionChunk')
    U_, S_, N_ = vc.index('Underscore'), vc.index('Str'), vc.index('Number')
    from mirsym.engine import StrSort
    strcmp = z3.Function('text_cmp', StrSort, StrSort, z3.BitVecSort(64))
    texts = []

    def mk_operand(name, n):
        chunks = []
        facts = []
        for i in range(n):
            k = z3.BitVec('%s.ch%d.kind' % (name, i), 64)
            val = z3.BitVec('%s.ch%d.value' % (name, i), 64)
            zer = z3.BitVec('%s.ch%d.zeros' % (name, i), 64)
            src = StrVal(e=z3.Const('%s.ch%d.text' % (name, i), StrSort))
            facts.append(z3.Or(k == U_, k == S_, k == N_))
            facts.append(z3.ULT(zer, 64))
            # maximal chunks: no two adjacent Str chunks, no two adjacent Number chunks
            if i > 0:
                pk = chunks[-1][1]
                facts.append(z3.Not(z3.And(k == S_, pk == S_)))
                facts.append(z3.Not(z3.And(k == N_, pk == N_)))
            chunks.append((Enum('VersionChunk', k, {U_: Tup([]), S_: Tup([src]), N_: Tup([BV(val, 'usize'), BV(zer, 'usize'), src])}), k, val, zer, src))
            texts.append((src.e, k, val, zer))
        return chunks, facts

    def axioms():
        ax = []
        ts = texts
        for (a, ka, va, za) in ts:
            ax.append(strcmp(a, a) == 0)
        for (a, ka, va, za), (b, kb, vb, zb) in _it.combinations(ts, 2):
            ax.append(z3.Or(strcmp(a, b) == -1, strcmp(a, b) == 0, strcmp(a, b) == 1))
            ax.append(strcmp(b, a) == -strcmp(a, b))
            ax.append((strcmp(a, b) == 0) == (a == b))
            # digit runs sort before identifier text
            ax.append(z3.Implies(z3.And(ka == N_, kb == S_), strcmp(a, b) == -1))
            ax.append(z3.Implies(z3.And(ka == S_, kb == N_), strcmp(a, b) == 1))
            # decimal notation: (value, zeros) <-> text for numeric chunks
            ax.append(z3.Implies(z3.And(ka == N_, kb == N_), (a == b) == z3.And(va == vb, za == zb)))
            ax.append(z3.Implies(z3.And(ka == N_, kb == S_), a != b))
            ax.append(z3.Implies(z3.And(ka == S_, kb == N_), a != b))
        for (a, _, _, _), (b, _, _, _), (c, _, _, _) in _it.permutations(ts, 3):
            ax.append(z3.Implies(z3.And(strcmp(a, b) != 1, strcmp(b, c) != 1), strcmp(a, c) != 1))
        return ax

    operands = {}

    def new_stub(eng_, st_, args, ci):
        v = deref(eng_, st_, args[0])
        chunks = operands[v.s]
        cell = eng_.ref_to(st_, Seq([c[0] for c in chunks]), True, 'chunks')
        return Tup([cell, bv_const(0, 'usize')], 'OwnedIter')
    eng.stub(r'VersionChunkIter::<.*>::new$|VersionChunkIter::new$', new_stub, 'VersionChunkIter::new(ident) = the harness chunk list for that operand (chunking is part (a))')
    eng.stub(r'zip_longest::<', lambda e, s, a, c: Tup([a[0], a[1]], 'ZipLongest'), 'Itertools::zip_longest')

    def chunk_next(eng_, st_, args, ci):
        it = eng_.read_ref(st_, args[0])
        if not (isinstance(it, Tup) and it.name == 'OwnedIter'):
            return NotImplemented
        seq = eng_.read_ref(st_, it.items[0])
        p_ = it.items[1].concrete()
        if p_ < len(seq.items):
            eng_.write_ref(st_, args[0], Tup([it.items[0], bv_const(p_ + 1, 'usize')], 'OwnedIter'))
            return some(seq.items[p_])
        return NONE
    eng.stub(r'VersionChunkIter<.*> as (std::iter::)?Iterator>::next$', chunk_next, 'VersionChunkIter::next on a harness chunk list = the next chunk of the list (chunking itself is part (a))')

    def zl_next(eng_, st_, args, ci):
        z = eng_.read_ref(st_, args[0])
        ia, ib = z.items
        sa, sb = eng_.read_ref(st_, ia.items[0]), eng_.read_ref(st_, ib.items[0])
        pa, pb = ia.items[1].concrete(), ib.items[1].concrete()
        ha, hb = pa < len(sa.items), pb < len(sb.items)
        na = Tup([ia.items[0], bv_const(pa + (1 if ha else 0), 'usize')], 'OwnedIter')
        nb = Tup([ib.items[0], bv_const(pb + (1 if hb else 0), 'usize')], 'OwnedIter')
        eng_.write_ref(st_, args[0], Tup([na, nb], 'ZipLongest'))
        if ha and hb:
            return some(Enum('EitherOrBoth', 0, {0: Tup([sa.items[pa], sb.items[pb]])}))
        if ha:
            return some(Enum('EitherOrBoth', 1, {1: Tup([sa.items[pa]])}))
        if hb:
            return some(Enum('EitherOrBoth', 2, {2: Tup([sb.items[pb]])}))
        return NONE
    eng.stub(r'ZipLongest<.*> as (std::iter::)?Iterator>::next$', zl_next, 'ZipLongest::next (itertools EitherOrBoth)')
    eng.stub(r'ZipLongest<.*> as (std::iter::)?IntoIterator>::into_iter$', lambda e, s, a, c: a[0], 'ZipLongest::into_iter')

    def text_cmp(eng_, st_, args, ci):
        a, b = deref(eng_, st_, args[0]), deref(eng_, st_, args[1])
        return Enum('Ordering', strcmp(str_expr(a), str_expr(b)), {})
    eng.stub(r'^<&?str as (std::cmp::)?Ord>::cmp$', text_cmp, 'str::cmp = total order on uninterpreted chunk texts')

    def run_cmp(x, y, facts):
        st = State()
        for f in facts:
            st.assume(f)
        outs = eng.run(vs, [StrVal(s=x), StrVal(s=y)], st)
        res = None
        for o in outs:
            if o.kind == 'unwind':
                raise Inconclusive('unwinding in version_sort')
            if o.kind != 'ret':
                raise Inconclusive('version_sort panics on chunk lists: %r' % (o.info,))
        ctx.paths += len(outs)
        # ite over paths -> one z3 term for the Ordering discriminant
        nb = len(facts)
        res = z3.BitVecVal(0, 64)
        for o in outs:
            pcl = o.state.pc[nb:]
            pc = z3.And(pcl) if pcl else z3.BoolVal(True)
            res = z3.If(pc, o.value.discr, res)
        return res

    PAIR = 3 if NCH <= 2 else 4
    combos = [(na, nb_, nc) for (na, nb_, nc) in _it.product(range(0, NCH + 1), repeat=3)]
    combos += [(na, nb_, 0) for na in range(0, PAIR + 1) for nb_ in range(0, PAIR + 1) if (na > NCH or nb_ > NCH)]
    for (na, nb_, nc) in combos:
        del texts[:]
        A, fa = mk_operand('a', na)
        B, fb = mk_operand('b', nb_)
        C, fc = mk_operand('c', nc)
        operands.update({'a': A, 'b': B, 'c': C})
        facts = fa + fb + fc
        ax = axioms()
        ab, ba = run_cmp('a', 'b', facts), run_cmp('b', 'a', facts)
        bc, ac = run_cmp('b', 'c', facts), run_cmp('a', 'c', facts)
        aa = run_cmp('a', 'a', facts)
        tag = 'version_sort/%d-%d-%d' % (na, nb_, nc)
        mv = [c[1] for c in A + B + C] + [c[2] for c in A + B + C] + [c[3] for c in A + B + C]
        pre = facts + ax
        if nc == 0:
            ctx.prop(tag + '/antisymmetric', pre, ab != -ba, mv, rp)
            same = z3.And([z3.And(x[1] == y[1], z3.Implies(x[1] != U_, x[4].e == y[4].e)) for x, y in zip(A, B)]) if na == nb_ else z3.BoolVal(False)
            ctx.prop(tag + '/equal-only-for-identical-chunk-lists', pre, z3.And(ab == 0, z3.Not(same)), mv, rp)
            if nb_ == 0:
                ctx.prop(tag + '/reflexive', pre, aa != 0, mv, rp)
        if na <= NCH and nb_ <= NCH:
            ctx.prop(tag + '/transitive', pre, z3.And(ab != 1, bc != 1, ac == 1), mv, rp)
    eng.stubs = [x for x in eng.stubs if 'harness chunk list' not in x[2]]


# ----------------------------------------------------------------------------- native

# ======================================================================================= (c) the sorting routine at every site of reorder.rs / imports.rs
# environment contract of the sorting routines (std slice docs, itertools docs): True = equal elements keep their order
SORT_CONTRACT = [(r'(^|::)(sort|sort_by|sort_by_key|sort_by_cached_key)(::<.*>)?$', True), (r'(^|::)(sort_unstable|sort_unstable_by|sort_unstable_by_key|select_nth_unstable\w*)(::<.*>)?$', False),
                 (r'(^|::)(sorted|sorted_by|sorted_by_key|sorted_by_cached_key)(::<.*>)?$', True), (r'(^|::)(sorted_unstable\w*)(::<.*>)?$', False)]
SORT_FILES = ('src/reorder.rs', 'src/imports.rs')


def part_sort_sites(ctx, eng):
    """UseTree's Ord and compare_items are preorders (aliases, attributes, comments and visibility are not compared), so the property's
    "ranked equal and keep their relative order" rests on every sort of a reorderable list being stable.  Every call of a sorting routine in the
    MIR of src/reorder.rs and src/imports.rs is collected; per site the solver decides, over the routine's documented contract (a sorted
    permutation; for the stable routines additionally order-preserving on ties), whether two equal-ranked neighbours can come out swapped."""
    from mirsym.mirparse import block_parsed
    sites = []
    for r in eng.records:
        try:
            f_ = r['file'] or eng.fn_file(r['name'])
        except Exception:
            f_ = None
        if f_ not in SORT_FILES:
            continue
        fn = eng.get_fn(r['name'])
        for bb, blk in fn.blocks.items():
            if blk.get('cleanup'):
                continue
            try:
                stmts, term = block_parsed(blk)
            except Exception:
                continue
            if term[0] != 'call' or term[2][0] != 'path':
                continue
            callee = term[2][1]
            last = base_name(callee)
            if not re.match(r'^(sort|sorted|select_nth)', last) or 'version_sort' in callee:
                continue
            sp = (blk.get('spans') or [None])[-1]
            sites.append((r['name'], bb, callee, sp, f_))
    if not sites:
        raise Inconclusive('sort sites: no call of a sorting routine found in %s: the scan is broken' % ', '.join(SORT_FILES))
    # two neighbours x, y of equal rank, x first in the input; pos_x / pos_y are their places in the output
    px, py = z3.Int('position_of_the_first_twin'), z3.Int('position_of_the_second_twin')
    perm = [px >= 0, py >= 0, px <= 1, py <= 1, px != py]       # the routine returns a permutation, sorted (vacuous for equal ranks)
    for name, bb, callee, sp, f_ in sites:
        stable = None
        for rx, v in SORT_CONTRACT:
            if re.search(rx, base_name(callee)):
                stable = v
        label = 'sort-site/%s/%s' % (short_fn(name), base_name(callee))
        if stable is None:
            raise Inconclusive('sort sites: no contract recorded for %s called in %s' % (callee, name))
        contract = perm + ([px < py] if stable else [])
        ctx.prop(label + '/equal-ranked-elements-keep-their-relative-order', contract, px > py, [px, py], make_sort_replay(ctx), twin=True, meta={'site': '%s bb%d %s' % (name, bb, sp)})
    ctx.notes.append('sort sites: %d calls of sorting routines in %s: %s' % (len(sites), ', '.join(SORT_FILES), '; '.join('%s -> %s' % (short_fn(n), base_name(c)) for n, _, c, _, _ in sites)))


def base_name(callee):
    prev = None
    c = re.sub(r'\{closure@[^}]*\}', 'closure', callee)
    while prev != c:
        prev, c = c, re.sub(r'<[^<>]*>', '', c)
    return [x for x in c.split('::') if x][-1]


def short_fn(name):
    return re.sub(r'<impl at (src/[^:]+):\d+:\d+: \d+:\d+>', r'<\1>', name)[-70:]


def make_sort_replay(ctx):
    def replay(model, r):
        bins = ensure_bins()
        rf = os.path.join(bins, 'rustfmt')
        d = os.path.join(BUILD, 'scratch', 'c11s-%d' % os.getpid())
        shutil.rmtree(d, ignore_errors=True)
        os.makedirs(d)
        names = ['m%02d' % i for i in range(30, 2, -1)]
        found = []
        for first, second in (('unix', 'windows'), ('windows', 'unix')):
            tw_use = '#[cfg(%s)]\nuse krate::m11 as imp_%s;\n#[cfg(%s)]\nuse krate::m11 as imp_%s;\n' % (first, first, second, second)
            tw_mod = '#[cfg(%s)]\nmod m11;\n#[cfg(%s)]\nmod m11;\n' % (first, second)
            tw_ext = '#[cfg(%s)]\nextern crate m11;\n#[cfg(%s)]\nextern crate m11;\n' % (first, second)
            cases = {'imports': ''.join('use krate::%s;\n' % n for n in names[:13]) + tw_use + ''.join('use krate::%s;\n' % n for n in names[13:]),
                     'nested import list': 'use krate::{%s, m11 as imp_%s, %s, m11 as imp_%s, %s};\n' % (', '.join(names[:9]), first, ', '.join(names[9:18]), second, ', '.join(names[18:])),
                     'mods': ''.join('mod %s;\n' % n for n in names[:13]) + tw_mod + ''.join('mod %s;\n' % n for n in names[13:]),
                     'extern crates': ''.join('extern crate %s;\n' % n for n in names[:13]) + tw_ext + ''.join('extern crate %s;\n' % n for n in names[13:])}
            for what, src in cases.items():
                for extra in ('', ',imports_granularity=Crate', ',imports_granularity=Module'):
                    if extra and 'import' not in what:
                        continue
                    for se in ('2015', '2024'):
                        p_ = os.path.join(d, 'x.rs')
                        open(p_, 'w').write(src)
                        pr = subprocess.run([rf, '--emit', 'stdout', '--quiet', '--style-edition', se, '--config', 'skip_children=true' + extra, p_], capture_output=True, text=True, env=run_env(), timeout=60, cwd=d)
                        if pr.returncode != 0:
                            continue
                        a, b = pr.stdout.find(first), pr.stdout.find(second)
                        if a < 0 or b < 0:
                            continue
                        if a > b:
                            found.append('%s, style edition %s%s: the twin written first (%s) comes out second' % (what, se, extra, first))
        shutil.rmtree(d, ignore_errors=True)
        return {'reproduced': bool(found), 'detail': found[:6]}
    return replay


# ======================================================================================= (d) what may be reordered together
def z3_consts(exprs):
    seen, out, todo = set(), [], list(exprs)
    while todo:
        e = todo.pop()
        if e.get_id() in seen:
            continue
        seen.add(e.get_id())
        if z3.is_const(e) and e.decl().kind() == z3.Z3_OP_UNINTERPRETED:
            out.append(e)
        todo.extend(e.children())
    return out


def part_group_delimiting(ctx, eng):
    """reorder.rs: (1) ReorderableItemKind::from over an arbitrary item (its ast kind is a symbolic discriminant; contains_macro_use_attr,
    contains_skip and is_mod_decl are symbolic): an item with #[macro_use] or a skip attribute is never reorderable, and items of two different
    ast kinds never share a reorderable kind.  (2) the take_while predicate of walk_reorderable_or_regroupable_items over arbitrary line ranges:
    an item joins the run iff it has the run's kind and, when blank lines delimit groups, starts at most one line after the previous item ends;
    the previous item is then the one just accepted."""
    rp = make_group_replay(ctx)
    old = (eng.lenient, eng.inline_only, list(eng.stubs), eng.usize_bound)
    eng.lenient = True
    try:
        # ---- (1)
        name = eng.find('from', self_ty='ReorderableItemKind', file='src/reorder.rs')
        kinds = eng.enum_variants('ReorderableItemKind')
        OTHER = kinds.index('Other')
        eng.inline_only = [re.compile(re.escape(name) + '$')]
        runs = []
        for tag in ('a', 'b'):
            M, S, D = z3.Bool('item_%s.has_macro_use' % tag), z3.Bool('item_%s.has_skip' % tag), z3.Bool('item_%s.is_mod_decl' % tag)
            eng.stubs = []
            eng.stub(r'(^|::)contains_macro_use_attr$', lambda e, s_, a, c, M=M: M, 'contains_macro_use_attr(item) = symbolic')
            eng.stub(r'(^|::)contains_skip$', lambda e, s_, a, c, S=S: S, 'contains_skip(attrs) = symbolic')
            eng.stub(r'(^|::)is_mod_decl$', lambda e, s_, a, c, D=D: D, 'is_mod_decl(item) = symbolic')
            fn = eng.get_fn(name)
            st = State()
            args = [eng.fresh_of_type(st, ty, 'item_%s' % tag) for pn, ty in fn.params]
            outs = ctx.check_outcomes(eng.run(name, args, st), 'ReorderableItemKind::from')
            runs.append((M, S, D, outs))
        M, S, D, outs = runs[0]
        for pi, o in enumerate(outs):
            if o.kind != 'ret':
                ctx.prop('group/ReorderableItemKind::from/p%d/no-panic' % pi, o.state.pc, z3.BoolVal(True), [M, S, D], rp, twin=False)
                continue
            ctx.prop('group/ReorderableItemKind::from/p%d/macro_use-or-skip-makes-the-item-a-barrier' % pi, o.state.pc, z3.And(z3.Or(M, S), o.value.discr != OTHER), [M, S, D], rp, twin=False)

        def discr_of(o):
            ds = [c for c in z3_consts(o.state.pc) if '.discr' in c.decl().name() or c.decl().name().endswith('.d')]
            ds = [c for c in ds if z3.is_bv(c)]
            return ds
        da = {c.decl().name(): c for o in runs[0][3] for c in discr_of(o)}
        db = {c.decl().name(): c for o in runs[1][3] for c in discr_of(o)}
        if len(da) != 1 or len(db) != 1:
            raise Inconclusive('group delimiting: the ast kind of the item is not a single symbolic discriminant (%s / %s)' % (list(da), list(db)))
        ka, kb = list(da.values())[0], list(db.values())[0]
        n_pairs = 0
        for oa in runs[0][3]:
            for ob in runs[1][3]:
                if oa.kind != 'ret' or ob.kind != 'ret':
                    continue
                n_pairs += 1
                ctx.prop('group/ReorderableItemKind::from/pair%d/two-ast-kinds-never-share-a-reorderable-kind' % n_pairs, oa.state.pc + ob.state.pc + [ka != kb],
                         z3.And(oa.value.discr == ob.value.discr, oa.value.discr != OTHER), [ka, kb], rp, twin=False)
        ctx.cover('cover/group/some-item-is-reorderable', [z3.Or([z3.And(z3.And(o.state.pc), o.value.discr != OTHER) for o in outs if o.kind == 'ret'])])

        # ---- (2)
        tgt = None
        for r in eng.records:
            if 'walk_reorderable_or_regroupable_items::{closure' in r['name']:
                mir = eng.mirs[r['mir']]
                s0, e0 = mir.index[r['name']]
                if any('is_same_item_kind' in ln for ln in mir.lines[s0:e0]):
                    tgt = r['name']
        if tgt is None:
            raise Inconclusive('group delimiting: the take_while predicate of walk_reorderable_or_regroupable_items was not found')
        mir = eng.mirs[eng.by_name[tgt]['mir']]
        s0, e0 = mir.index[tgt]
        caps = {}
        for ln in mir.lines[s0:e0]:
            m = re.search(r'debug \w+ => \(\*\(\(\*_1\)\.(\d+): ([^)]*)\)\)', ln)
            if m:
                caps[int(m.group(1))] = m.group(2).strip()
        eng.inline_only = [re.compile(re.escape(tgt) + '$')]
        eng.stubs = []
        eng.usize_bound = 1 << 32
        same_kind = z3.Bool('item.has_the_kind_of_the_run')
        in_group = z3.Bool('blank_lines_delimit_groups')
        eng.stub(r'is_same_item_kind$', lambda e, s_, a, c: same_kind, 'is_same_item_kind(item) = symbolic')
        lf = [n for n, _ in eng.src.struct_fields('LineRange', 'src/config/file_lines.rs')]
        cur_lo, cur_hi = z3.BitVec('current.lo', 64), z3.BitVec('current.hi', 64)
        last_lo, last_hi = z3.BitVec('last.lo', 64), z3.BitVec('last.hi', 64)

        def mk_range(lo, hi, tag):
            vals = []
            for n in lf:
                vals.append(BV(lo, 'usize') if n == 'lo' else BV(hi, 'usize') if n == 'hi' else Opaque('Arc<SourceFile>', tag))
            return Tup(vals, 'LineRange')

        def llr(e, s_, a, c):
            s_.trace.append(('lookup',))
            return mk_range(cur_lo, cur_hi, 'current.file')
        eng.stub(r'lookup_line_range$', llr, 'ParseSess::lookup_line_range(item.span()) = an arbitrary line range')
        st = State()
        st.assume(z3.And(z3.ULT(cur_lo, 1 << 32), z3.ULT(cur_hi, 1 << 32), z3.ULT(last_lo, 1 << 32), z3.ULT(last_hi, 1 << 32)))
        env = []
        last_ref = None
        n_bool = 0
        for i in range(max(caps) + 1 if caps else 0):
            ty = caps.get(i, '')
            if re.match(r'^&\s*bool$', ty):
                n_bool += 1
                env.append(eng.ref_to(st, in_group, False, 'in_group'))
            elif re.match(r'^&mut .*LineRange$', ty):
                last_ref = eng.ref_to(st, mk_range(last_lo, last_hi, 'last.file'), True, 'last')
                env.append(last_ref)
            else:
                env.append(eng.fresh_of_type(st, ty, 'capture%d' % i))
        if n_bool != 1 or last_ref is None:
            raise Inconclusive('group delimiting: the predicate captures %r (expected one &bool and one &mut LineRange)' % (caps,))
        fn = eng.get_fn(tgt)
        clos = eng.ref_to(st, Tup(env, re.sub(r'^&mut ', '', fn.params[0][1])), True, 'closure')
        item = eng.fresh_of_type(st, fn.params[1][1], 'item')
        outs = ctx.check_outcomes(eng.run(tgt, [clos, item], st), 'take_while predicate')
        mv = [same_kind, in_group, cur_lo, cur_hi, last_lo, last_hi]
        adjacent = z3.ULT(cur_lo, last_hi + 2)
        belongs = z3.And(same_kind, z3.Or(z3.Not(in_group), adjacent))
        for pi, o in enumerate(outs):
            tag = 'group/take_while/p%d' % pi
            if o.kind != 'ret':
                ctx.prop(tag + '/no-panic', o.state.pc, z3.BoolVal(True), mv, rp, twin=False)
                continue
            v = o.value if z3.is_bool(o.value) else (o.value.e != 0)
            ctx.prop(tag + '/an-item-joins-the-run-iff-same-kind-and-no-blank-line-before-it', o.state.pc, v != belongs, mv, rp)
            after = eng.read_ref(o.state, last_ref)
            a_lo, a_hi = after.items[lf.index('lo')].e, after.items[lf.index('hi')].e
            ctx.prop(tag + '/the-accepted-item-becomes-the-previous-one', o.state.pc, z3.And(v, in_group, z3.Or(a_lo != cur_lo, a_hi != cur_hi)), mv, rp, twin=False)
    finally:
        eng.lenient, eng.inline_only, eng.stubs, eng.usize_bound = old


GROUP_CASES = [
    ('macro_use mod is a barrier', 'mod z;\n#[macro_use]\nmod m;\nmod a;\n', ['mod z;', 'mod m;', 'mod a;']),
    ('macro_use use is a barrier', 'use z::z;\n#[macro_use]\nuse m::m;\nuse a::a;\n', ['use z::z;', 'use m::m;', 'use a::a;']),
    ('macro_use extern crate is a barrier', 'extern crate z;\n#[macro_use]\nextern crate m;\nextern crate a;\n', ['extern crate z;', 'extern crate m;', 'extern crate a;']),
    ('skipped mod is a barrier', 'mod z;\n#[rustfmt::skip]\nmod m;\nmod a;\n', ['mod z;', 'mod m;', 'mod a;']),
    ('skipped use is a barrier', 'use z::z;\n#[rustfmt::skip]\nuse m::m;\nuse a::a;\n', ['use z::z;', 'use m::m;', 'use a::a;']),
    ('blank line delimits mods', 'mod z;\n\nmod a;\n', ['mod z;', 'mod a;']),
    ('blank line delimits imports', 'use z::z;\n\nuse a::a;\n', ['use z::z;', 'use a::a;']),
    ('blank line delimits extern crates', 'extern crate z;\n\nextern crate a;\n', ['extern crate z;', 'extern crate a;']),
    ('another kind is a barrier', 'use z::z;\nmod m;\nuse a::a;\n', ['use z::z;', 'mod m;', 'use a::a;']),
    ('a three-line item then an adjacent one', 'use z::{\n    y,\n};\nuse a::a;\n\nuse b::b;\n', ['use a::a;', 'use z::', 'use b::b;']),
    ('adjacent items are one group', 'mod z;\nmod a;\nmod k;\n', ['mod a;', 'mod k;', 'mod z;']),
]


def make_group_replay(ctx):
    def replay(model, r):
        bins = ensure_bins()
        rf = os.path.join(bins, 'rustfmt')
        d = os.path.join(BUILD, 'scratch', 'c11g-%d' % os.getpid())
        shutil.rmtree(d, ignore_errors=True)
        os.makedirs(d)
        found = []
        for what, src, order in GROUP_CASES:
            for se in ('2015', '2024'):
                p_ = os.path.join(d, 'x.rs')
                open(p_, 'w').write(src)
                pr = subprocess.run([rf, '--emit', 'stdout', '--quiet', '--style-edition', se, '--config', 'skip_children=true', p_], capture_output=True, text=True, env=run_env(), timeout=60, cwd=d)
                if pr.returncode != 0:
                    continue
                pos = [pr.stdout.find(x) for x in order]
                if -1 in pos or pos != sorted(pos):
                    found.append('%s (style edition %s): expected the order %s, got %r' % (what, se, order, pr.stdout[:120]))
        shutil.rmtree(d, ignore_errors=True)
        return {'reproduced': bool(found), 'detail': found[:6]}
    return replay


def universe():
    """identifiers built from small chunks (maximal chunking respected)"""
    nums = ['0', '1', '01', '001', '9', '10', '09', '00']
    strs = ['a', 'B', 'ab', 'Z']
    chunks = [('U', '_')] + [('N', n) for n in nums] + [('S', s_) for s_ in strs]
    out = set()
    for k in (1, 2, 3):
        for combo in _it.product(chunks, repeat=k):
            if any(combo[i][0] == combo[i + 1][0] and combo[i][0] != 'U' for i in range(k - 1)):
                continue
            out.add(''.join(c[1] for c in combo))
    return sorted(out)


def matrix_findings():
    """the real version_sort on every pair / triple of a bounded universe of identifiers (native oracle, numpy)"""
    import numpy as np
    ids = universe()
    rp = Replayer()
    try:
        m = rp.call({'op': 'version_sort_matrix', 'idents': ids})['matrix']
    finally:
        rp.close()
    n = len(ids)
    M = np.frombuffer(m.encode(), dtype='S1').reshape(n, n)
    lt, eq, gt = (M == b'<'), (M == b'='), (M == b'>')
    found = []
    anti = np.argwhere(~((lt == gt.T) & (eq == eq.T)))
    if len(anti):
        i, j = anti[0]
        found.append('not antisymmetric: cmp(%r,%r)=%s but cmp(%r,%r)=%s' % (ids[i], ids[j], M[i, j].decode(), ids[j], ids[i], M[j, i].decode()))
    ties = np.argwhere(eq & ~np.eye(n, dtype=bool))
    if len(ties):
        i, j = ties[0]
        found.append('different names tie: %r and %r (%d such pairs)' % (ids[i], ids[j], len(ties)))
    if not np.all(np.diag(eq)):
        found.append('not reflexive')
    le = (lt | eq).astype(np.float32)
    two = (le @ le) > 0
    bad = np.argwhere(two & gt)
    if len(bad):
        i, k = bad[0]
        j = int(np.argmax(le[i] * le[:, k]))
        found.append('not transitive: %r <= %r <= %r but %r > %r' % (ids[i], ids[j], ids[k], ids[i], ids[k]))
    return found, n


def native_findings():
    """real version_sort through the CLI: permutations of import lists under --style-edition 2024"""
    bins = ensure_bins()
    rf = os.path.join(bins, 'rustfmt')
    d = os.path.join(BUILD, 'scratch', 'c11-%d' % os.getpid())
    shutil.rmtree(d, ignore_errors=True)
    os.makedirs(d)
    found = {}
    groups = [['x01y1', 'x1y01', 'x1y1'], ['case_01_1', 'case_1_01'], ['w002s1t', 'w1s002t', 'w01s01t'], ['a1', 'a01', 'a001', 'a_1'], ['Foo', 'foo', 'FOO', 'f_oo'],
              ['v10', 'v9', 'v09', 'v1_0'], ['u8x2', 'u8x16', 'u16x2']]
    big = ['x99999999999999999999b', 'x99999999999999999999a']

    def fmt(names):
        p = os.path.join(d, 'g.rs')
        open(p, 'w').write(''.join('use m::%s;\n' % n for n in names))
        r = subprocess.run([rf, '--emit', 'stdout', '--quiet', '--style-edition', '2024', p], capture_output=True, text=True, env=run_env(), timeout=60)
        return r.stdout
    for g in groups:
        outs = {fmt(list(p)) for p in _it.permutations(g)}
        if len(outs) != 1:
            found.setdefault('other', []).append('permutations of %r format to %d different texts' % (g, len(outs)))
    mf, n_ids = matrix_findings()
    if mf:
        found.setdefault('other', []).extend(mf)
    outs = {fmt(list(p)) for p in _it.permutations(big)}
    if len(outs) != 1:
        found.setdefault('C11/version_sort/numeric-chunk>=2^64-ends-the-chunk-iterator', []).append('permutations of %r format differently' % (big,))
    shutil.rmtree(d, ignore_errors=True)
    return found


def make_replay(ctx, what=None):
    cache = {}

    def replay(model, r):
        if 'f' not in cache:
            cache['f'] = native_findings()
        f = cache['f']
        key = r.ob.meta.get('key')
        if key:
            return {'reproduced': key in f, 'detail': f.get(key, [])[:2]}
        other = {k: v for k, v in f.items() if k not in ctx.open_keys}
        return {'reproduced': bool(other), 'detail': {k: v[:3] for k, v in other.items()}}
    return replay


def validate(ctx):
    f = native_findings()
    ctx.validated += 1
    ctx.validation_detail.append({'native_findings_on_this_tree': {k: v[:2] for k, v in f.items()}})


if __name__ == '__main__':
    main_wrapper('C11', build)
