"""Environment summaries for std / itertools items (the trusted base of every check).

Each summary is listed by label in the evidence file of the check that used it."""
import re
import z3
from .values import *

_INTS = r'(usize|isize|u8|i8|u16|i16|u32|i32|u64|i64|char|bool)'


_REG = []


_PRIO = []


def intrinsic(pattern, label=None, prio=0):
    def deco(f):
        _REG.append((re.compile(pattern), f, label or f.__name__.lstrip('_')))
        _PRIO.append(prio)
        return f
    return deco


def register_all(eng):
    order = sorted(range(len(_REG)), key=lambda i: (-_PRIO[i], i))
    eng.intrinsics.extend(_REG[i] for i in order)


def some(v):
    return Enum('Option', 1, {1: Tup([v])})


NONE = Enum('Option', 0, {})


def ordering(d):
    return Enum('Ordering', d, {})


def bool_of(v):
    return v


def merged_call(eng, st, name_or_fn, args):
    """execute a (pure) crate function on all paths and merge the results into one ite value.
    The caller's state is not modified except for pc-independent bookkeeping."""
    from .engine import Outcome
    fn = eng.get_fn(name_or_fn) if isinstance(name_or_fn, str) else name_or_fn
    base = len(st.pc)
    ntrace = len(st.trace)
    s0 = st.fork()
    outs = eng.exec_fn(s0, fn, list(args))
    res = None
    rets = []
    for o in outs:
        if o.kind != 'ret':
            raise Unsupported('merged_call: %s has non-return outcome %s %r' % (fn.name, o.kind, o.info))
        if len(o.state.trace) != ntrace:
            raise Unsupported('merged_call: %s has effects' % fn.name)
        cond = z3.And(o.state.pc[base:]) if len(o.state.pc) > base else z3.BoolVal(True)
        rets.append((cond, o.value))
    if not rets:
        raise Unsupported('merged_call: %s has no feasible path' % fn.name)
    res = rets[-1][1]
    for cond, v in reversed(rets[:-1]):
        res = merge_val(cond, v, res)
    return res


def merged_call_value(eng, st, fv, args, dest_ty=None):
    """like merged_call but for closure values / fn items"""
    base = len(st.pc)
    ntrace = len(st.trace)
    s0 = st.fork()
    outs = eng.call_value(s0, fv, list(args), dest_ty)
    rets = []
    for (s2, kind, val) in outs:
        if kind != 'ret':
            raise Unsupported('merged closure call: non-return outcome %s %r' % (kind, val))
        if len(s2.trace) != ntrace:
            raise Unsupported('merged closure call has effects')
        cond = z3.And(s2.pc[base:]) if len(s2.pc) > base else z3.BoolVal(True)
        rets.append((cond, val))
    if not rets:
        raise Unsupported('merged closure call: no feasible path')
    res = rets[-1][1]
    for cond, v in reversed(rets[:-1]):
        res = merge_val(cond, v, res)
    return res


# ---------------------------------------------------------------- core::cmp / integers

@intrinsic(r'^<(usize|u32|u64|isize|i32|i64|u8|u16|i16|i8) as (std::cmp::)?Ord>::(min|max)$', 'Ord::{min,max} on integers (method form)')
def _ord_min_max(eng, st, args, ci):
    a, b = args
    is_min = ci.func.endswith('::min')
    lt = (a.e < b.e) if a.signed else z3.ULT(a.e, b.e)
    # Ord::min returns self when equal-or-less, Ord::max returns other when equal: irrelevant for integers
    return BV(z3.If(lt, a.e, b.e) if is_min else z3.If(lt, b.e, a.e), a.ty)


@intrinsic(r'^(std|core)::cmp::(min|max)::<(usize|u32|u64|isize|i32|i64|u8)>$', 'core::cmp::{min,max} on integers')
def _minmax(eng, st, args, ci):
    a, b = args
    is_min = '::min::' in ci.func
    lt = (a.e < b.e) if a.signed else z3.ULT(a.e, b.e)
    # std: min(a,b) = if b < a {b} else {a};  max(a,b) = if b < a {a} else {b}; equal for integers
    if is_min:
        return BV(z3.If(lt, a.e, b.e), a.ty)
    return BV(z3.If(lt, b.e, a.e), a.ty)


@intrinsic(r'^<?(usize|u32)>?::saturating_sub$|core::num::<impl (usize|u32)>::saturating_sub$', 'usize::saturating_sub')
def _sat_sub(eng, st, args, ci):
    a, b = args
    return BV(z3.If(z3.ULT(a.e, b.e), z3.BitVecVal(0, a.e.size()), a.e - b.e), a.ty)


@intrinsic(r'core::num::<impl (usize|u32)>::checked_sub$', 'usize::checked_sub')
def _chk_sub(eng, st, args, ci):
    a, b = args
    d = z3.If(z3.ULT(a.e, b.e), z3.BitVecVal(0, 64), z3.BitVecVal(1, 64))
    return Enum('Option', d, {1: Tup([BV(a.e - b.e, a.ty)])})


@intrinsic(r'core::num::<impl (usize|u32)>::checked_add$', 'usize::checked_add')
def _chk_add(eng, st, args, ci):
    a, b = args
    ovf = z3.Not(z3.BVAddNoOverflow(a.e, b.e, False))
    d = z3.If(ovf, z3.BitVecVal(0, 64), z3.BitVecVal(1, 64))
    return Enum('Option', d, {1: Tup([BV(a.e + b.e, a.ty)])})


@intrinsic(r'core::num::<impl (usize|u32)>::saturating_add$', 'usize::saturating_add')
def _sat_add(eng, st, args, ci):
    a, b = args
    ovf = z3.Not(z3.BVAddNoOverflow(a.e, b.e, False))
    w = a.e.size()
    return BV(z3.If(ovf, z3.BitVecVal((1 << w) - 1, w), a.e + b.e), a.ty)


@intrinsic(r'core::num::<impl (usize|u32)>::wrapping_sub$', 'usize::wrapping_sub')
def _wrap_sub(eng, st, args, ci):
    a, b = args
    return BV(a.e - b.e, a.ty)


# ---------------------------------------------------------------- Option / Result / Try

def _discr_is(v, k):
    return v.discr == z3.BitVecVal(k, 64)


@intrinsic(r'^((std|core)::option::)?Option::<.*>::is_none$', 'Option::is_none')
def _is_none(eng, st, args, ci):
    v = eng.read_ref(st, args[0]) if isinstance(args[0], Ref) else args[0]
    return _discr_is(v, 0)


@intrinsic(r'^((std|core)::option::)?Option::<.*>::is_some$', 'Option::is_some')
def _is_some(eng, st, args, ci):
    v = eng.read_ref(st, args[0]) if isinstance(args[0], Ref) else args[0]
    return _discr_is(v, 1)


@intrinsic(r'^((std|core)::option::)?Option::<.*>::(unwrap|expect)$', 'Option::unwrap/expect')
def _opt_unwrap(eng, st, args, ci):
    v = args[0]
    alts = []
    some_c = _discr_is(v, 1)
    res = []
    if eng.feasible(st, z3.Not(some_c)):
        sp = st.fork()
        sp.assume(z3.Not(some_c))
        res.append((sp, 'panic', {'msg': 'called `Option::unwrap()` on a `None` value', 'fn': ci.fn.name if ci.fn else '?', 'bb': ci.bb, 'kind': 'unwrap'}))
    if eng.feasible(st, some_c):
        st.assume(some_c)
        res.append((st, 'ret', v.payloads[1].items[0]))
    return res


@intrinsic(r'^((std|core)::option::)?Option::<.*>::unwrap_or$', 'Option::unwrap_or')
def _opt_unwrap_or(eng, st, args, ci):
    v, d = args
    if 1 not in v.payloads:
        return d
    try:
        return merge_val(_discr_is(v, 1), v.payloads[1].items[0], d)
    except MergeFail:
        return _fork_on_option(eng, st, v, lambda s, x: [(s, 'ret', x)], lambda s: [(s, 'ret', d)])


@intrinsic(r'^((std|core)::result::)?Result::<.*>::(unwrap|expect)$', 'Result::unwrap/expect')
def _res_unwrap(eng, st, args, ci):
    v = args[0]
    ok_c = _discr_is(v, 0)
    res = []
    if eng.feasible(st, z3.Not(ok_c)):
        sp = st.fork()
        sp.assume(z3.Not(ok_c))
        res.append((sp, 'panic', {'msg': 'called `Result::unwrap()` on an `Err` value', 'fn': ci.fn.name if ci.fn else '?', 'bb': ci.bb, 'kind': 'unwrap'}))
    if eng.feasible(st, ok_c):
        st.assume(ok_c)
        res.append((st, 'ret', v.payloads[0].items[0]))
    return res


@intrinsic(r'^((std|core)::result::)?Result::<.*>::is_ok$', 'Result::is_ok')
def _is_ok(eng, st, args, ci):
    v = eng.read_ref(st, args[0]) if isinstance(args[0], Ref) else args[0]
    return _discr_is(v, 0)


@intrinsic(r'^((std|core)::result::)?Result::<.*>::is_err$', 'Result::is_err')
def _is_err(eng, st, args, ci):
    v = eng.read_ref(st, args[0]) if isinstance(args[0], Ref) else args[0]
    return _discr_is(v, 1)


@intrinsic(r'^<(std::result::)?Result<.*> as (std::ops::)?Try>::branch$', 'Result as Try::branch')
def _try_branch_result(eng, st, args, ci):
    v = args[0]
    # Ok(x) -> Continue(x); Err(e) -> Break(Err(e))
    pl = {}
    if 0 in v.payloads:
        pl[0] = Tup([v.payloads[0].items[0]])
    if 1 in v.payloads:
        pl[1] = Tup([Enum('Result', 1, {1: v.payloads[1]})])
    return Enum('ControlFlow', v.discr, pl)


@intrinsic(r'^<(std::option::)?Option<.*> as (std::ops::)?Try>::branch$', 'Option as Try::branch')
def _try_branch_option(eng, st, args, ci):
    v = args[0]
    # Some(x) -> Continue(x); None -> Break(None)
    d = z3.If(v.discr == 1, z3.BitVecVal(0, 64), z3.BitVecVal(1, 64))
    pl = {1: Tup([NONE])}
    if 1 in v.payloads:
        pl[0] = Tup([v.payloads[1].items[0]])
    return Enum('ControlFlow', d, pl)


@intrinsic(r'^<(std::result::)?Result<.*> as (std::ops::)?FromResidual<.*>>::from_residual$', 'Result::from_residual (error value passed through From)')
def _from_residual_result(eng, st, args, ci):
    v = args[0]
    pl = {}
    if isinstance(v, Enum) and 1 in v.payloads:
        pl[1] = v.payloads[1]
    else:
        pl[1] = Tup([Opaque('error', next(eng.counter))])     # residual given as a constant (unit error types)
    return Enum('Result', 1, pl)


@intrinsic(r'^<(std::option::)?Option<.*> as (std::ops::)?FromResidual<.*>>::from_residual$', 'Option::from_residual')
def _from_residual_option(eng, st, args, ci):
    return NONE


# ---------------------------------------------------------------- Cell / mem / misc

@intrinsic(r'^(std::cell::)?Cell::<.*>::set$', 'Cell::set')
def _cell_set(eng, st, args, ci):
    eng.write_ref(st, args[0], args[1])
    return UNIT


@intrinsic(r'^(std::cell::)?Cell::<.*>::get$', 'Cell::get')
def _cell_get(eng, st, args, ci):
    return eng.read_ref(st, args[0])


@intrinsic(r'^(std|core)::mem::swap::<', 'mem::swap')
def _mem_swap(eng, st, args, ci):
    a, b = args
    va = eng.read_ref(st, a)
    vb = eng.read_ref(st, b)
    eng.write_ref(st, a, vb)
    eng.write_ref(st, b, va)
    return UNIT


@intrinsic(r'^(std|core)::mem::replace::<', 'mem::replace')
def _mem_replace(eng, st, args, ci):
    a, b = args
    va = eng.read_ref(st, a)
    eng.write_ref(st, a, b)
    return va


@intrinsic(r'^(std|core)::mem::take::<', 'mem::take (Vec/String default)')
def _mem_take(eng, st, args, ci):
    a = args[0]
    va = eng.read_ref(st, a)
    if isinstance(va, Seq):
        eng.write_ref(st, a, Seq([]))
        return va
    raise Unsupported('mem::take of %r' % (va,))


@intrinsic(r'^<' + _INTS + r' as (std::default::)?Default>::default$', 'Default::default for integers = 0', prio=2)
def _int_default(eng, st, args, ci):
    m = re.match(r'^<(\w+) as', ci.func)
    return bv_const(0, m.group(1))


@intrinsic(r'^<bool as (std::default::)?Default>::default$', 'bool::default() = false', prio=2)
def _bool_default(eng, st, args, ci):
    return z3.BoolVal(False)


@intrinsic(r'^<(std::string::)?String as (std::default::)?Default>::default$', 'String::default() = empty', prio=2)
def _string_default(eng, st, args, ci):
    return Seq([])


@intrinsic(r'^<(std::vec::)?Vec<.*> as (std::default::)?Default>::default$', 'Vec::default() = empty', prio=2)
def _vec_default(eng, st, args, ci):
    return Seq([])


@intrinsic(r'^<(std::option::)?Option<.*> as (std::default::)?Default>::default$', 'Option::default() = None', prio=2)
def _option_default(eng, st, args, ci):
    return NONE


@intrinsic(r'^<.* as (std::clone::)?Clone>::clone$', 'Clone::clone (value copy of plain data)')
def _clone(eng, st, args, ci):
    v = eng.read_ref(st, args[0])
    return v


@intrinsic(r'^<.* as (std::convert::)?(Into|From)<.*>>::(into|from)$', None)
def _into_from(eng, st, args, ci):
    # only identity conversions (T -> T) are summarised here; crate impls resolve before this? no:
    # crate `From` impls are resolved by call_path only if no intrinsic matches, so be strict.
    m = re.match(r'^<(.*) as (?:std::convert::)?(Into|From)<(.*)>>::(into|from)$', ci.func)
    a, b = m.group(1), m.group(3)
    if a.strip() == b.strip():
        return args[0]
    src_t, dst_t = ((a, b) if m.group(2) == 'Into' else (b, a))
    src_t, dst_t = src_t.strip(), dst_t.strip()
    if src_t == 'bool' and dst_t in INT_TYPES:
        w_, _sg = INT_TYPES[dst_t]
        v0 = args[0]
        return BV(z3.If(v0, z3.BitVecVal(1, w_), z3.BitVecVal(0, w_)), dst_t)
    if src_t in INT_TYPES and dst_t in INT_TYPES and isinstance(args[0], BV):
        ws, ss = INT_TYPES[src_t]
        wd, _sd = INT_TYPES[dst_t]
        if wd >= ws:                      # From between integers exists only for lossless widenings
            e0 = args[0].e
            return BV(e0 if wd == ws else (z3.SignExt(wd - ws, e0) if ss else z3.ZeroExt(wd - ws, e0)), dst_t)
    name = eng.resolve_call(ci.func, len(args))
    if name is not None:
        return eng._inline(st, eng.get_fn(name), args)
    # Into::into is the blanket impl over From::from: look for `impl From<A> for B` in the crate
    from .engine import last_seg
    src_ty, dst_ty = (a, b) if m.group(2) == 'Into' else (b, a)
    cands = []
    for r in eng.by_method.get('from', []):
        if r['file'] and r['trait'] == 'From' and r['self_ty'] == last_seg(dst_ty):
            fp = eng._first_param_ty(r)
            if fp and last_seg(fp) == last_seg(src_ty):
                cands.append(r)
    if len(cands) == 1:
        return eng._inline(st, eng.get_fn(cands[0]['name']), args)
    raise Unsupported('conversion %s' % ci.func)


@intrinsic(r'^<.* as (std::ops::)?Deref(Mut)?>::deref(_mut)?$', 'Deref for Vec/String/&T (same object)')
def _deref(eng, st, args, ci):
    return args[0]


@intrinsic(r'^<.* as (std::convert::)?AsRef<.*>>::as_ref$', 'AsRef (same object)')
def _as_ref(eng, st, args, ci):
    return args[0]


@intrinsic(r'^(std|core)::intrinsics::(unlikely|likely)$|^(std|core)::hint::(unlikely|likely)$', 'hint::likely')
def _likely(eng, st, args, ci):
    return args[0]


# ---------------------------------------------------------------- panics

@intrinsic(r'^(core|std)::panicking::(panic|panic_fmt|panic_explicit|unreachable_display|panic_display|panic_nounwind|assert_failed)(::<.*>)?$|^(core|std)::(option|result)::(unwrap_failed|expect_failed)$|^(std::rt::)?(begin_panic|panic_fmt)(::<.*>)?$|^core::panicking::panic_bounds_check$', 'panic entry points')
def _panic(eng, st, args, ci):
    msg = ''
    for a in args:
        if isinstance(a, StrVal) and a.s is not None:
            msg = a.s
    return PanicNowCompat(msg or ci.func)


def PanicNowCompat(msg):
    from .engine import PanicNow
    return PanicNow(msg)


# ---------------------------------------------------------------- Vec / slices (concrete length, symbolic contents)

@intrinsic(r'^(std::vec::)?Vec::<.*>::new$', 'Vec::new')
def _vec_new(eng, st, args, ci):
    return Seq([])


@intrinsic(r'^(std::vec::)?Vec::<.*>::with_capacity$', 'Vec::with_capacity')
def _vec_with_cap(eng, st, args, ci):
    return Seq([])


@intrinsic(r'^(std::vec::)?Vec::<.*>::push$', 'Vec::push')
def _vec_push(eng, st, args, ci):
    v = eng.read_ref(st, args[0])
    if not isinstance(v, Seq):
        raise Unsupported('Vec::push on %r' % (v,))
    eng.write_ref(st, args[0], Seq(v.items + (args[1],)))
    return UNIT


@intrinsic(r'^(std::vec::)?Vec::<.*>::len$|^core::slice::<impl \[.*\]>::len$', 'Vec::len / slice::len')
def _vec_len(eng, st, args, ci):
    v = eng.read_ref(st, args[0])
    if not isinstance(v, Seq):
        raise Unsupported('len on %r' % (v,))
    return bv_const(len(v.items), 'usize')


@intrinsic(r'^(std::vec::)?Vec::<.*>::is_empty$|^core::slice::<impl \[.*\]>::is_empty$', 'Vec::is_empty')
def _vec_is_empty(eng, st, args, ci):
    v = eng.read_ref(st, args[0])
    if not isinstance(v, Seq):
        raise Unsupported('is_empty on %r' % (v,))
    return z3.BoolVal(len(v.items) == 0)


@intrinsic(r'^(std::vec::)?Vec::<.*>::clear$', 'Vec::clear')
def _vec_clear(eng, st, args, ci):
    eng.write_ref(st, args[0], Seq([]))
    return UNIT


def _elem_cmp(eng, st, a, b, elem_ty):
    """Ordering of two elements via the element type's real Ord::cmp (MIR) or integer compare."""
    if isinstance(a, BV):
        lt = (a.e < b.e) if a.signed else z3.ULT(a.e, b.e)
        return z3.If(lt, z3.BitVecVal(-1, 64), z3.If(a.e == b.e, z3.BitVecVal(0, 64), z3.BitVecVal(1, 64)))
    name = eng.resolve_call('<%s as Ord>::cmp' % elem_ty, 2)
    if name is None:
        raise Unsupported('no Ord::cmp for %s' % elem_ty)
    ra = eng.ref_to(st, a, tag='cmp')
    rb = eng.ref_to(st, b, tag='cmp')
    r = merged_call(eng, st, name, [ra, rb])
    return r.discr


@intrinsic(r'^(std|core)::slice::<impl \[.*\]>::sort$', 'slice::sort = sorting network over the element type\'s own Ord::cmp (exact for any total order; len <= 6)')
def _slice_sort(eng, st, args, ci):
    ref = args[0]
    v = eng.read_ref(st, ref)
    if not isinstance(v, Seq):
        raise Unsupported('sort on %r' % (v,))
    m = re.search(r'<impl \[(.*)\]>::sort$', ci.func)
    elem_ty = m.group(1)
    items = list(v.items)
    n = len(items)
    # bubble network: stable for equal keys (only swaps when strictly greater)
    for i in range(n):
        for j in range(0, n - 1 - i):
            d = _elem_cmp(eng, st, items[j], items[j + 1], elem_ty)
            gt = d == z3.BitVecVal(1, 64)
            x, y = items[j], items[j + 1]
            items[j] = merge_val(gt, y, x)
            items[j + 1] = merge_val(gt, x, y)
    eng.write_ref(st, ref, Seq(items))
    return UNIT


# iterators over slices: Tup(name='SliceIter', [ref_to_seq, pos]) ; pos is a concrete BV
def _mk_iter(ref, pos, kind):
    return Tup([ref, bv_const(pos, 'usize')], kind)


@intrinsic(r'^core::slice::<impl \[.*\]>::iter(_mut)?$', 'slice::iter / iter_mut (cursor over a concrete-length sequence)')
def _slice_iter(eng, st, args, ci):
    return _mk_iter(args[0], 0, 'SliceIter')


@intrinsic(r'^<&(mut )?(std::vec::)?Vec<.*> as (std::iter::)?IntoIterator>::into_iter$', '&Vec::into_iter')
def _vecref_into_iter(eng, st, args, ci):
    return _mk_iter(args[0], 0, 'SliceIter')


@intrinsic(r'^<.* as (std::iter::)?IntoIterator>::into_iter$', 'IntoIterator for iterators (identity)')
def _into_iter_id(eng, st, args, ci):
    a = args[0]
    if isinstance(a, Tup) and a.name in ('SliceIter', 'Peekable', 'ValuesMut', 'Rev', 'Enumerate', 'Zip', 'Filter', 'Map', 'RangeIter', 'Range', 'CharsIter', 'OwnedIter', 'FilterMap'):
        return a
    if isinstance(a, Ref):
        v = eng.read_ref(st, a)
        if isinstance(v, Seq):
            return _mk_iter(a, 0, 'SliceIter')
    raise Unsupported('into_iter on %r' % (a,))


def _slice_iter_next(eng, st, itref):
    it = eng.read_ref(st, itref)
    ref, pos = it.items
    seq = eng.read_ref(st, ref)
    p = pos.concrete()
    if p >= len(seq.items):
        return NONE
    eng.write_ref(st, itref, _mk_iter(ref, p + 1, 'SliceIter'))
    return some(Ref(ref.key, ref.projs + (('cindex', p),), ref.mut))


@intrinsic(r'^<(std|core)::slice::Iter(Mut)?<.*> as (std::iter::)?Iterator>::next$', 'slice::Iter::next')
def _slice_next(eng, st, args, ci):
    return _slice_iter_next(eng, st, args[0])


@intrinsic(r'^<(std|core)::slice::Iter(Mut)?<.*> as (std::iter::)?Iterator>::peekable$', 'Iterator::peekable')
def _peekable(eng, st, args, ci):
    return Tup([args[0]], 'Peekable')


@intrinsic(r'^<(std::iter::)?Peekable<(std|core)::slice::Iter(Mut)?<.*>> as (std::iter::)?Iterator>::next$', 'Peekable<slice::Iter>::next')
def _peekable_next(eng, st, args, ci):
    pref = args[0]
    inner_ref = Ref(pref.key, pref.projs + (('field', 0),), True)
    return _slice_iter_next(eng, st, inner_ref)


@intrinsic(r'^(std::iter::)?Peekable::<(std|core)::slice::Iter(Mut)?<.*>>::peek$', 'Peekable<slice::Iter>::peek')
def _peekable_peek(eng, st, args, ci):
    pref = args[0]
    pk = eng.read_ref(st, pref)
    it = pk.items[0]
    ref, pos = it.items
    seq = eng.read_ref(st, ref)
    p = pos.concrete()
    if p >= len(seq.items):
        return NONE
    item = Ref(ref.key, ref.projs + (('cindex', p),), ref.mut)
    cell = eng.ref_to(st, item, tag='peek')
    return some(cell)


# HashMap<K, Vec<V>> viewed through values_mut only (one symbolic entry list supplied by the harness):
# HashMap value = Tup(name='HashMap', [Seq of Tup((key, value))])
@intrinsic(r'^(std::collections::)?HashMap::<.*>::values_mut$', 'HashMap::values_mut (harness-supplied entry list)')
def _hm_values_mut(eng, st, args, ci):
    return Tup([args[0], bv_const(0, 'usize')], 'ValuesMut')


@intrinsic(r'^<std::collections::hash_map::ValuesMut<.*> as (std::iter::)?Iterator>::next$', 'hash_map::ValuesMut::next')
def _hm_values_mut_next(eng, st, args, ci):
    itref = args[0]
    it = eng.read_ref(st, itref)
    mref, pos = it.items
    hm = eng.read_ref(st, mref)
    entries = hm.items[0]
    p = pos.concrete()
    if p >= len(entries.items):
        return NONE
    eng.write_ref(st, itref, Tup([mref, bv_const(p + 1, 'usize')], 'ValuesMut'))
    return some(Ref(mref.key, mref.projs + (('field', 0), ('cindex', p), ('field', 1)), True))


# ---------------------------------------------------------------- integer / bool trait methods (args are references)



def _deref_arg(eng, st, a):
    while isinstance(a, Ref):
        a = eng.read_ref(st, a)
    return a


def _as_bv(v):
    if z3.is_bool(v):
        return BV(z3.If(v, z3.BitVecVal(1, 8), z3.BitVecVal(0, 8)), 'u8')
    return v


def _int_cmp_discr(a, b):
    a, b = _as_bv(a), _as_bv(b)
    lt = (a.e < b.e) if a.signed else z3.ULT(a.e, b.e)
    return z3.If(lt, z3.BitVecVal(-1, 64), z3.If(a.e == b.e, z3.BitVecVal(0, 64), z3.BitVecVal(1, 64)))


@intrinsic(r'^<' + _INTS + r' as (std::cmp::)?Ord>::cmp$', 'Ord::cmp on integers')
def _int_ord_cmp(eng, st, args, ci):
    a, b = (_deref_arg(eng, st, x) for x in args)
    return ordering(_int_cmp_discr(a, b))


@intrinsic(r'^<' + _INTS + r' as (std::cmp::)?PartialOrd>::partial_cmp$', 'PartialOrd::partial_cmp on integers')
def _int_partial_cmp(eng, st, args, ci):
    a, b = (_deref_arg(eng, st, x) for x in args)
    return some(ordering(_int_cmp_discr(a, b)))


@intrinsic(r'^<&?' + _INTS + r' as (std::cmp::)?PartialEq(<&?' + _INTS + r'>)?>::(eq|ne)$', 'PartialEq on integers')
def _int_eq(eng, st, args, ci):
    a, b = (_as_bv(_deref_arg(eng, st, x)) for x in args)
    r = a.e == b.e
    return r if ci.func.endswith('::eq') else z3.Not(r)


@intrinsic(r'^<' + _INTS + r' as (std::cmp::)?PartialOrd>::(lt|le|gt|ge)$', 'PartialOrd::{lt,le,gt,ge} on integers')
def _int_lt(eng, st, args, ci):
    a, b = (_as_bv(_deref_arg(eng, st, x)) for x in args)
    op = ci.func.rsplit('::', 1)[1]
    s = a.signed
    if op == 'lt':
        return (a.e < b.e) if s else z3.ULT(a.e, b.e)
    if op == 'le':
        return (a.e <= b.e) if s else z3.ULE(a.e, b.e)
    if op == 'gt':
        return (a.e > b.e) if s else z3.UGT(a.e, b.e)
    return (a.e >= b.e) if s else z3.UGE(a.e, b.e)


@intrinsic(r'^<(std::cmp::|core::cmp::)?Ordering as (std::cmp::)?PartialEq>::(eq|ne)$', 'Ordering == / != (derived)')
def _ordering_eq(eng, st, args, ci):
    a, b = _deref_arg(eng, st, args[0]), _deref_arg(eng, st, args[1])
    r = a.discr == b.discr
    return r if ci.func.endswith('::eq') else z3.Not(r)


@intrinsic(r'^(std|core)::cmp::Ordering::(then|reverse|is_eq|is_ne|is_lt|is_gt|is_le|is_ge)$', 'Ordering combinators')
def _ordering_ops(eng, st, args, ci):
    op = ci.func.rsplit('::', 1)[1]
    a = args[0]
    if op == 'then':
        b = args[1]
        return ordering(z3.If(a.discr == 0, b.discr, a.discr))
    if op == 'reverse':
        return ordering(-a.discr)
    z = z3.BitVecVal(0, 64)
    return {'is_eq': a.discr == z, 'is_ne': a.discr != z, 'is_lt': a.discr < z, 'is_gt': a.discr > z,
            'is_le': a.discr <= z, 'is_ge': a.discr >= z}[op]


# ---------------------------------------------------------------- Option combinators taking closures

def _fork_on_option(eng, st, v, on_some, on_none):
    """-> list of (state, kind, value); on_some(state, payload) -> list of (state, kind, value)"""
    res = []
    some_c = _discr_is(v, 1)
    s_feas = eng.feasible(st, some_c)
    n_feas = eng.feasible(st, z3.Not(some_c))
    if s_feas and n_feas:
        s2 = st.fork()
        s2.assume(z3.Not(some_c))
        res.extend(on_none(s2))
        st.assume(some_c)
        res.extend(on_some(st, v.payloads[1].items[0]))
    elif s_feas:
        res.extend(on_some(st, v.payloads[1].items[0]))
    elif n_feas:
        res.extend(on_none(st))
    return res


@intrinsic(r'^((std|core)::option::)?Option::<.*>::and_then::<', 'Option::and_then (closure body = real MIR)')
def _opt_and_then(eng, st, args, ci):
    v, f = args
    return _fork_on_option(eng, st, v,
                           lambda s, x: eng.call_value(s, f, [x], ci.dest_ty),
                           lambda s: [(s, 'ret', NONE)])


@intrinsic(r'^((std|core)::option::)?Option::<.*>::map::<', 'Option::map (closure body = real MIR)')
def _opt_map(eng, st, args, ci):
    v, f = args

    def on_some(s, x):
        out = []
        for (s2, kind, val) in eng.call_value(s, f, [x], None):
            out.append((s2, kind, some(val) if kind == 'ret' else val))
        return out
    return _fork_on_option(eng, st, v, on_some, lambda s: [(s, 'ret', NONE)])


@intrinsic(r'^((std|core)::option::)?Option::<.*>::or_else::<', 'Option::or_else (closure body = real MIR)')
def _opt_or_else(eng, st, args, ci):
    v, f = args
    return _fork_on_option(eng, st, v, lambda s, x: [(s, 'ret', v)], lambda s: eng.call_value(s, f, [], ci.dest_ty))


@intrinsic(r'^(std|core)::ops::RangeInclusive::<' + _INTS + r'>::contains::<', 'RangeInclusive<int>::contains')
def _range_incl_contains(eng, st, args, ci):
    r = _deref_arg(eng, st, args[0])
    x = _as_bv(_deref_arg(eng, st, args[1]))
    if not (isinstance(r, Tup) and len(r.items) >= 2 and isinstance(r.items[0], BV)):
        raise Unsupported('RangeInclusive value %r' % (r,))
    lo_, hi_ = r.items[0], r.items[1]
    if x.signed:
        return z3.And(lo_.e <= x.e, x.e <= hi_.e)
    return z3.And(z3.ULE(lo_.e, x.e), z3.ULE(x.e, hi_.e))


@intrinsic(r'^((std|core)::option::)?Option::<.*>::(as_deref|as_deref_mut)$', 'Option::as_deref (String / Vec / Box deref to the same value in this model)')
def _opt_as_deref(eng, st, args, ci):
    r = args[0]
    v = eng.read_ref(st, r) if isinstance(r, Ref) else r
    if not isinstance(v, Enum):
        raise Unsupported('as_deref of %r' % (v,))
    pl = {}
    if 1 in v.payloads:
        if isinstance(r, Ref):
            pl[1] = Tup([Ref(r.key, r.projs + (('downcast', 'Some'), ('field', 0)), r.mut)])
        else:
            pl[1] = v.payloads[1]
    return Enum('Option', v.discr, pl)


@intrinsic(r'^((std|core)::option::)?Option::<.*>::flatten$', 'Option::flatten')
def _opt_flatten(eng, st, args, ci):
    v = args[0]
    return _fork_on_option(eng, st, v, lambda s, x: [(s, 'ret', x)], lambda s: [(s, 'ret', NONE)])


@intrinsic(r'^((std|core)::option::)?Option::<.*>::or$', 'Option::or (structural ite; falls back to a fork when the payloads do not merge)')
def _opt_or(eng, st, args, ci):
    a, b = args
    c = _discr_is(a, 1)
    try:
        return merge_val(c, a, b)
    except MergeFail:
        return _fork_on_option(eng, st, a, lambda s, x: [(s, 'ret', a)], lambda s: [(s, 'ret', b)])


def _fork_on_result(eng, st, v, on_ok, on_err):
    res = []
    ok_c = _discr_is(v, 0)
    o_feas = eng.feasible(st, ok_c)
    e_feas = eng.feasible(st, z3.Not(ok_c))
    if o_feas and e_feas:
        s2 = st.fork()
        s2.assume(z3.Not(ok_c))
        res.extend(on_err(s2, v.payloads[1].items[0]))
        st.assume(ok_c)
        res.extend(on_ok(st, v.payloads[0].items[0]))
    elif o_feas:
        res.extend(on_ok(st, v.payloads[0].items[0]))
    elif e_feas:
        res.extend(on_err(st, v.payloads[1].items[0]))
    return res


@intrinsic(r'^((std|core)::result::)?Result::<.*>::map::<', 'Result::map (closure body = real MIR)')
def _res_map(eng, st, args, ci):
    v, f = args

    def on_ok(s, x):
        out = []
        for (s2, kind, val) in eng.call_value(s, f, [x], None):
            out.append((s2, kind, Enum('Result', 0, {0: Tup([val])}) if kind == 'ret' else val))
        return out
    return _fork_on_result(eng, st, v, on_ok, lambda s, e: [(s, 'ret', Enum('Result', 1, {1: Tup([e])}))])


@intrinsic(r'^((std|core)::result::)?Result::<.*>::and_then::<', 'Result::and_then (closure body = real MIR)')
def _res_and_then(eng, st, args, ci):
    v, f = args
    return _fork_on_result(eng, st, v, lambda s, x: eng.call_value(s, f, [x], ci.dest_ty),
                           lambda s, e: [(s, 'ret', Enum('Result', 1, {1: Tup([e])}))])


@intrinsic(r'^((std|core)::result::)?Result::<.*>::and::<', 'Result::and (both operands already evaluated)')
def _res_and(eng, st, args, ci):
    a, b = args
    return _fork_on_result(eng, st, a, lambda s, x: [(s, 'ret', b)], lambda s, e: [(s, 'ret', Enum('Result', 1, {1: Tup([e])}))])


@intrinsic(r'^((std|core)::result::)?Result::<.*>::unwrap_or$', 'Result::unwrap_or')
def _res_unwrap_or(eng, st, args, ci):
    v, d = args
    return _fork_on_result(eng, st, v, lambda s, x: [(s, 'ret', x)], lambda s, e: [(s, 'ret', d)])


@intrinsic(r'^((std|core)::result::)?Result::<.*>::ok$', 'Result::ok')
def _res_ok(eng, st, args, ci):
    v = args[0]
    return _fork_on_result(eng, st, v, lambda s, x: [(s, 'ret', some(x))], lambda s, e: [(s, 'ret', NONE)])


@intrinsic(r'^((std|core)::result::)?Result::<.*>::map_err::<', 'Result::map_err (closure body = real MIR)')
def _res_map_err(eng, st, args, ci):
    v, f = args

    def on_err(s, e):
        out = []
        for (s2, kind, val) in eng.call_value(s, f, [e], None):
            out.append((s2, kind, Enum('Result', 1, {1: Tup([val])}) if kind == 'ret' else val))
        return out
    return _fork_on_result(eng, st, v, lambda s, x: [(s, 'ret', Enum('Result', 0, {0: Tup([x])}))], on_err)


@intrinsic(r'^((std|core)::result::)?Result::<.*>::or_else::<', 'Result::or_else (closure body = real MIR)')
def _res_or_else(eng, st, args, ci):
    v, f = args
    return _fork_on_result(eng, st, v, lambda s, x: [(s, 'ret', Enum('Result', 0, {0: Tup([x])}))], lambda s, e: eng.call_value(s, f, [e], ci.dest_ty))


@intrinsic(r'^((std|core)::result::)?Result::<.*>::unwrap_or_else::<', 'Result::unwrap_or_else (closure body = real MIR)')
def _res_unwrap_or_else(eng, st, args, ci):
    v, f = args
    return _fork_on_result(eng, st, v, lambda s, x: [(s, 'ret', x)], lambda s, e: eng.call_value(s, f, [e], ci.dest_ty))


@intrinsic(r'^((std|core)::result::)?Result::<.*>::(is_ok_and|is_err_and)::<', 'Result::{is_ok_and,is_err_and} (closure body = real MIR)')
def _res_is_and(eng, st, args, ci):
    v, f = args
    ok = 'is_ok_and' in ci.func
    no = lambda s, x: [(s, 'ret', z3.BoolVal(False))]
    yes = lambda s, x: eng.call_value(s, f, [x], ci.dest_ty)
    return _fork_on_result(eng, st, v, yes if ok else no, no if ok else yes)


@intrinsic(r'^((std|core)::option::)?Option::<.*>::map_or::<', 'Option::map_or (closure body = real MIR)')
def _opt_map_or(eng, st, args, ci):
    v, d, f = args
    return _fork_on_option(eng, st, v,
                           lambda s, x: eng.call_value(s, f, [x], ci.dest_ty),
                           lambda s: [(s, 'ret', d)])


@intrinsic(r'^((std|core)::option::)?Option::<.*>::unwrap_or_else::<', 'Option::unwrap_or_else')
def _opt_unwrap_or_else(eng, st, args, ci):
    v, f = args
    return _fork_on_option(eng, st, v,
                           lambda s, x: [(s, 'ret', x)],
                           lambda s: eng.call_value(s, f, [], ci.dest_ty))


@intrinsic(r'^((std|core)::option::)?Option::<.*>::(as_ref|as_mut)$', 'Option::as_ref')
def _opt_as_ref(eng, st, args, ci):
    r = args[0]
    v = eng.read_ref(st, r)
    pl = {}
    if 1 in v.payloads:
        pl[1] = Tup([Ref(r.key, r.projs + (('downcast', 'Some'), ('field', 0)), r.mut)])
    return Enum('Option', v.discr, pl)


# ---------------------------------------------------------------- iterator adaptors over slices with closures

def _remaining(eng, st, itref):
    it = eng.read_ref(st, itref) if isinstance(itref, Ref) else itref
    if not (isinstance(it, Tup) and it.name == 'SliceIter'):
        raise Unsupported('iterator %r' % (it,))
    ref, pos = it.items
    seq = eng.read_ref(st, ref)
    p = pos.concrete()
    return ref, p, len(seq.items)


@intrinsic(r'^<(std|core)::slice::Iter<.*> as (std::iter::)?Iterator>::(any|all)::<', 'slice::Iter::{any,all} (closure body = real MIR, merged per element)')
def _iter_any(eng, st, args, ci):
    itref, f = args
    is_any = '>::any::<' in ci.func
    ref, p, n = _remaining(eng, st, itref)
    conds = []
    for j in range(p, n):
        el = Ref(ref.key, ref.projs + (('cindex', j),), False)
        conds.append(merged_call_value(eng, st, f, [el]))
    if isinstance(itref, Ref):
        eng.write_ref(st, itref, _mk_iter(ref, n, 'SliceIter'))
    if is_any:
        return z3.Or(conds) if conds else z3.BoolVal(False)
    return z3.And(conds) if conds else z3.BoolVal(True)


def _keys_equal(a, b):
    if isinstance(a, Enum) and isinstance(b, Enum):
        ca, cb = a.concrete(), b.concrete()
        if ca is None or cb is None:
            raise Unsupported('symbolic map key')
        if ca != cb:
            return False
        pa, pb = a.payloads.get(ca), b.payloads.get(cb)
        if pa is None and pb is None:
            return True
        if pa is None or pb is None or not pa.items and not pb.items:
            return True
        return _keys_equal(pa.items[0], pb.items[0])
    if isinstance(a, Opaque) and isinstance(b, Opaque):
        return a.ident == b.ident
    if isinstance(a, StrVal) and isinstance(b, StrVal) and a.s is not None and b.s is not None:
        return a.s == b.s
    raise Unsupported('map key comparison %r / %r' % (a, b))


@intrinsic(r'^(std::collections::)?HashMap::<.*>::get::<', 'HashMap::get (harness-supplied entry list, concrete keys)')
def _hm_get(eng, st, args, ci):
    mref, kref = args
    hm = eng.read_ref(st, mref)
    key = _deref_arg(eng, st, kref)
    entries = hm.items[0]
    for j, ent in enumerate(entries.items):
        if _keys_equal(ent.items[0], key):
            return some(Ref(mref.key, mref.projs + (('field', 0), ('cindex', j), ('field', 1)), False))
    return NONE


@intrinsic(r'^(std::vec::)?Vec::<.*>::retain::<', 'Vec::retain (forks on the real closure\'s verdict per element)')
def _vec_retain(eng, st, args, ci):
    vref, f = args
    v = eng.read_ref(st, vref)
    if not isinstance(v, Seq):
        raise Unsupported('retain on %r' % (v,))
    # compute keep-conditions against the original elements (closure is pure in the kernels)
    conds = []
    for j in range(len(v.items)):
        el = Ref(vref.key, vref.projs + (('cindex', j),), False)
        conds.append(merged_call_value(eng, st, f, [el]))
    alts = [(st, [])]
    for j, c in enumerate(conds):
        nxt = []
        for (s, kept) in alts:
            cs = z3.simplify(c)
            if z3.is_true(cs):
                nxt.append((s, kept + [v.items[j]]))
                continue
            if z3.is_false(cs):
                nxt.append((s, kept))
                continue
            t_ok = eng.feasible(s, c)
            f_ok = eng.feasible(s, z3.Not(c))
            if t_ok and f_ok:
                s2 = s.fork()
                s2.assume(z3.Not(c))
                nxt.append((s2, list(kept)))
                s.assume(c)
                nxt.append((s, kept + [v.items[j]]))
            elif t_ok:
                nxt.append((s, kept + [v.items[j]]))
            elif f_ok:
                nxt.append((s, kept))
        alts = nxt
    out = []
    for (s, kept) in alts:
        eng.write_ref(s, vref, Seq(kept))
        out.append((s, UNIT))
    return Forks(out)


def Forks(alts):
    from .engine import Forks as F
    return F(alts)


# ---------------------------------------------------------------- strings (equality only; contents are symbolic elements of sort Str)

_STR_CONSTS = {}


def str_expr(v):
    """z3 term of sort Str for a StrVal (concrete strings map to distinct named constants)"""
    from .engine import StrSort
    if v.e is not None:
        return v.e
    if v.s not in _STR_CONSTS:
        _STR_CONSTS[v.s] = z3.Const('strlit:%d' % len(_STR_CONSTS), StrSort)
    return _STR_CONSTS[v.s]


def str_distinct_axioms():
    vs = list(_STR_CONSTS.values())
    return [z3.Distinct(*vs)] if len(vs) > 1 else []


@intrinsic(r'^<&?&?(str|std::string::String) as (std::cmp::)?PartialEq(<&?&?(str|std::string::String)>)?>::(eq|ne)$', 'str PartialEq (equality of uninterpreted string values)')
def _str_eq(eng, st, args, ci):
    a, b = (_deref_arg(eng, st, x) for x in args)
    if not (isinstance(a, StrVal) and isinstance(b, StrVal)):
        raise Unsupported('str eq on %r %r' % (a, b))
    if a.s is not None and b.s is not None:
        r = z3.BoolVal(a.s == b.s)
    else:
        r = str_expr(a) == str_expr(b)
    return r if ci.func.endswith('::eq') else z3.Not(r)


# ---------------------------------------------------------------- ranges, string slicing, String building

@intrinsic(r'^<std::ops::Range<(usize|u32|i32|isize)> as (std::iter::)?IntoIterator>::into_iter$', 'Range<int>::into_iter')
def _range_into_iter(eng, st, args, ci):
    return args[0]


@intrinsic(r'^<std::ops::Range<(usize|u32|i32|isize)> as (std::iter::)?Iterator>::next$', 'Range<int>::next (forks on start < end)')
def _range_next(eng, st, args, ci):
    r = args[0]
    rng = eng.read_ref(st, r)
    start, end = rng.items
    lt = (start.e < end.e) if start.signed else z3.ULT(start.e, end.e)
    alts = []
    can_some = eng.feasible(st, lt)
    can_none = eng.feasible(st, z3.Not(lt))
    if can_some and can_none:
        s2 = st.fork()
        s2.assume(z3.Not(lt))
        alts.append((s2, NONE))
    if can_some:
        if can_none:
            st.assume(lt)
        eng.write_ref(st, r, Tup([BV(start.e + 1, start.ty), end], rng.name))
        alts.append((st, some(start)))
    elif can_none:
        alts.append((st, NONE))
    return Forks(alts)


@intrinsic(r'^std::ops::RangeInclusive::<usize>::new$', 'RangeInclusive::new')
def _range_incl_new(eng, st, args, ci):
    return Tup([args[0], args[1]], 'RangeInclusive')


def _str_index(eng, st, s, start, end_excl, ci, what):
    """&s[start..end_excl] with the std panics as obligations; s must be a concrete ASCII string"""
    while isinstance(s, Ref):
        s = eng.read_ref(st, s)
    if isinstance(s, Tup) and s.name == 'StrSlice':
        base, b0, b1 = s.items
        n_e = b1.e - b0.e
        off = b0.e
        sv = base
    elif isinstance(s, StrVal) and s.s is not None and all(ord(c) < 128 for c in s.s):
        n_e = z3.BitVecVal(len(s.s), 64)
        off = z3.BitVecVal(0, 64)
        sv = s
    else:
        raise Unsupported('str slicing of non-constant / non-ASCII %r' % (s,))
    ok = z3.And(z3.ULE(start, end_excl), z3.ULE(end_excl, n_e))
    res = []
    if eng.feasible(st, z3.Not(ok)):
        sp = st.fork()
        sp.assume(z3.Not(ok))
        res.append((sp, 'panic', {'msg': 'str slice index out of range (%s)' % what, 'fn': ci.fn.name if ci.fn else '?', 'bb': ci.bb, 'kind': 'str-index'}))
    if eng.feasible(st, ok):
        st.assume(ok)
        res.append((st, 'ret', Tup([sv, BV(off + start, 'usize'), BV(off + end_excl, 'usize')], 'StrSlice')))
    return res


@intrinsic(r'^<str as (std::ops::)?Index<std::ops::RangeInclusive<usize>>>::index$', 'str[a..=b] (bounds obligations; constant ASCII string)')
def _str_index_incl(eng, st, args, ci):
    s, r = args
    a, b = r.items
    # a..=b panics if b == usize::MAX, else behaves as a..b+1
    res = []
    mx = b.e == z3.BitVecVal((1 << 64) - 1, 64)
    if eng.feasible(st, mx):
        sp = st.fork()
        sp.assume(mx)
        res.append((sp, 'panic', {'msg': 'str slice end overflow', 'fn': ci.fn.name if ci.fn else '?', 'bb': ci.bb, 'kind': 'str-index'}))
        st.assume(z3.Not(mx))
    return res + _str_index(eng, st, s, a.e, b.e + 1, ci, 'a..=b')


@intrinsic(r'^<(std::borrow::)?Cow<.*str> as (std::convert::)?From<.*>>::from$', 'Cow<str>::from (same value)', prio=4)
def _cow_from(eng, st, args, ci):
    return args[0]


@intrinsic(r'^(std::string::)?String::(new|with_capacity)$', 'String::new/with_capacity (empty char sequence)')
def _string_new(eng, st, args, ci):
    return Seq([])


@intrinsic(r'^(std::string::)?String::push$', 'String::push (char sequence)')
def _string_push(eng, st, args, ci):
    v = eng.read_ref(st, args[0])
    if isinstance(v, Seq):
        eng.write_ref(st, args[0], Seq(v.items + (args[1],)))
        return UNIT
    if isinstance(v, (Opaque, StrVal)):
        return UNIT   # contents of an uninterpreted string are not tracked
    raise Unsupported('String::push on %r' % (v,))


@intrinsic(r'^(std::string::)?String::clear$', 'String::clear')
def _string_clear(eng, st, args, ci):
    v = eng.read_ref(st, args[0])
    if isinstance(v, Seq):
        eng.write_ref(st, args[0], Seq([]))
    return UNIT


@intrinsic(r'^((std|core)::option::)?Option::<.*>::ok_or_else::<', 'Option::ok_or_else (closure body = real MIR)')
def _opt_ok_or_else(eng, st, args, ci):
    v, f = args

    def on_none(s):
        out = []
        for (s2, kind, val) in eng.call_value(s, f, [], None):
            out.append((s2, kind, Enum('Result', 1, {1: Tup([val])}) if kind == 'ret' else val))
        return out
    return _fork_on_option(eng, st, v, lambda s, x: [(s, 'ret', Enum('Result', 0, {0: Tup([x])}))], on_none)


@intrinsic(r'^((std|core)::option::)?Option::<.*>::ok_or::<', 'Option::ok_or')
def _opt_ok_or(eng, st, args, ci):
    v, e = args
    d = z3.If(v.discr == 1, z3.BitVecVal(0, 64), z3.BitVecVal(1, 64))
    pl = {1: Tup([e])}
    if 1 in v.payloads:
        pl[0] = v.payloads[1]
    return Enum('Result', d, pl)


# ---------------------------------------------------------------- char classification (exact Unicode sets)

WHITE_SPACE = [(9, 13), (32, 32), (0x85, 0x85), (0xA0, 0xA0), (0x1680, 0x1680), (0x2000, 0x200A), (0x2028, 0x2029), (0x202F, 0x202F),
               (0x205F, 0x205F), (0x3000, 0x3000)]


def is_whitespace_expr(e):
    return z3.Or([z3.And(z3.UGE(e, a), z3.ULE(e, b)) if a != b else e == a for (a, b) in WHITE_SPACE])


@intrinsic(r'^(core::)?char::methods::<impl char>::is_whitespace$', 'char::is_whitespace (Unicode White_Space, exact)')
def _char_is_whitespace(eng, st, args, ci):
    c = _deref_arg(eng, st, args[0])
    return is_whitespace_expr(c.e)


@intrinsic(r'^(core::)?char::methods::<impl char>::is_ascii_digit$', 'char::is_ascii_digit')
def _char_is_ascii_digit(eng, st, args, ci):
    c = _deref_arg(eng, st, args[0])
    return z3.And(z3.UGE(c.e, 48), z3.ULE(c.e, 57))


@intrinsic(r'^(core::)?char::methods::<impl char>::len_utf8$', 'char::len_utf8')
def _char_len_utf8(eng, st, args, ci):
    c = _deref_arg(eng, st, args[0])
    e = c.e
    r = z3.If(z3.ULT(e, 0x80), z3.BitVecVal(1, 64), z3.If(z3.ULT(e, 0x800), z3.BitVecVal(2, 64), z3.If(z3.ULT(e, 0x10000), z3.BitVecVal(3, 64), z3.BitVecVal(4, 64))))
    return BV(r, 'usize')


# ---------------------------------------------------------------- smart pointers: Rc / Box / RefCell / RefMut (modelled as a Ref to the content)

@intrinsic(r'^<(std::rc::)?(Rc|Lrc|Arc)<.*> as (std::ops::)?Deref>::deref$|^<(std::boxed::)?Box<.*> as (std::ops::)?Deref(Mut)?>::deref(_mut)?$|^<(std::cell::)?(RefMut|Ref)<.*> as (std::ops::)?Deref(Mut)?>::deref(_mut)?$',
           'Deref for Rc/Box/RefMut (pointer to the content)', prio=5)
def _smart_deref(eng, st, args, ci):
    v = eng.read_ref(st, args[0])
    if not isinstance(v, Ref):
        raise Unsupported('smart pointer deref of %r' % (v,))
    return v


@intrinsic(r'^(std::cell::)?RefCell::<.*>::(borrow_mut|borrow)$', 'RefCell::borrow(_mut) (no dynamic borrow check; pointer to the content)', prio=5)
def _refcell_borrow(eng, st, args, ci):
    r = args[0]
    return Ref(r.key, r.projs + (('field', 0),), ci.func.endswith('borrow_mut'))


# ---------------------------------------------------------------- by-value iteration over Vec / HashMap (concrete length)

@intrinsic(r'^<(std::vec::)?Vec<.*> as (std::iter::)?IntoIterator>::into_iter$', 'Vec::into_iter (by value)', prio=3)
def _vec_into_iter(eng, st, args, ci):
    v = args[0]
    if not isinstance(v, Seq):
        raise Unsupported('Vec::into_iter on %r' % (v,))
    cell = eng.ref_to(st, v, True, 'owned')
    return Tup([cell, bv_const(0, 'usize')], 'OwnedIter')


@intrinsic(r'^<(std::collections::)?HashMap<.*> as (std::iter::)?IntoIterator>::into_iter$', 'HashMap::into_iter (by value; harness entry list)', prio=3)
def _hm_into_iter(eng, st, args, ci):
    hm = args[0]
    if not (isinstance(hm, Tup) and hm.name == 'HashMap'):
        raise Unsupported('HashMap::into_iter on %r' % (hm,))
    cell = eng.ref_to(st, hm.items[0], True, 'owned')
    return Tup([cell, bv_const(0, 'usize')], 'OwnedIter')


@intrinsic(r'^<std::vec::IntoIter<.*> as (std::iter::)?Iterator>::next$|^<std::collections::hash_map::IntoIter<.*> as (std::iter::)?Iterator>::next$', 'IntoIter::next (by value)', prio=3)
def _owned_next(eng, st, args, ci):
    itref = args[0]
    it = eng.read_ref(st, itref)
    if not (isinstance(it, Tup) and it.name == 'OwnedIter'):
        raise Unsupported('IntoIter::next on %r' % (it,))
    cell, pos = it.items
    seq = eng.read_ref(st, cell)
    p = pos.concrete()
    if p >= len(seq.items):
        return NONE
    eng.write_ref(st, itref, Tup([cell, bv_const(p + 1, 'usize')], 'OwnedIter'))
    return some(seq.items[p])


# ---------------------------------------------------------------- slice.contains(&x)

@intrinsic(r'^(core|std)::slice::<impl \[.*\]>::contains$', 'slice::contains(&x): disjunction of element equalities (integers, strings)', prio=2)
def _slice_contains(eng, st, args, ci):
    seq = _deref_arg(eng, st, args[0])
    x = _deref_arg(eng, st, args[1])
    if not isinstance(seq, Seq):
        raise Unsupported('slice::contains on %r' % (seq,))
    alts = []
    for it in seq.items:
        it = _deref_arg(eng, st, it)
        if isinstance(it, StrVal) and isinstance(x, StrVal):
            if it.s is not None and x.s is not None:
                alts.append(z3.BoolVal(it.s == x.s))
            else:
                alts.append(str_expr(it) == str_expr(x))
        elif isinstance(it, BV) and isinstance(x, BV):
            alts.append(it.e == x.e)
        else:
            raise Unsupported('slice::contains over %r / %r' % (it, x))
    return z3.Or(alts) if alts else z3.BoolVal(False)


# ---------------------------------------------------------------- slice.get(range)

@intrinsic(r'^(core|std)::slice::<impl \[.*\]>::get::<(std::ops::)?(RangeFrom|RangeTo|Range)<usize>>$', 'slice::get(range): Some(sub-slice) when the bounds fit, None otherwise', prio=2)
def _slice_get_range(eng, st, args, ci):
    ref = args[0]
    seq = eng.read_ref(st, ref) if isinstance(ref, Ref) else ref
    if not isinstance(seq, Seq):
        raise Unsupported('slice::get on %r' % (seq,))
    r = args[1]
    while isinstance(r, Ref):
        r = eng.read_ref(st, r)
    kind = re.search(r'(RangeFrom|RangeTo|Range)<usize>>$', ci.func).group(1)
    n = len(seq.items)
    vals = [eng.concrete_under(st, x) for x in r.items]
    if any(v is None for v in vals):
        raise Unsupported('slice::get with an undetermined bound')
    lo, hi = (vals[0], n) if kind == 'RangeFrom' else ((0, vals[0]) if kind == 'RangeTo' else (vals[0], vals[1]))
    if not (0 <= lo <= hi <= n):
        return NONE
    cell = eng.ref_to(st, Seq(list(seq.items[lo:hi])), False, 'subslice')
    return some(cell)


# ---------------------------------------------------------------- (a..).zip(iter): numbering the items of another iterator

@intrinsic(r'^<(std::ops::)?RangeFrom<(u\d+|usize|i\d+|isize)> as (std::iter::)?Iterator>::zip::<', 'RangeFrom::zip(iter) (counter + the other iterator, advanced by its own summary)', prio=2)
def _rangefrom_zip(eng, st, args, ci):
    rf = args[0]
    if not (isinstance(rf, Tup) and len(rf.items) >= 1 and isinstance(rf.items[0], BV)):
        raise Unsupported('RangeFrom value %r' % (rf,))
    cell = eng.ref_to(st, args[1], True, 'zipped')
    return Tup([rf.items[0], cell], 'ZipFrom')


@intrinsic(r'^<(std::iter::)?Zip<(std::ops::)?RangeFrom<(u\d+|usize|i\d+|isize)>, .*> as (std::iter::)?IntoIterator>::into_iter$', 'Zip::into_iter (identity)', prio=2)
def _zipfrom_into_iter(eng, st, args, ci):
    return args[0]


@intrinsic(r'^<(std::iter::)?Zip<(std::ops::)?RangeFrom<(u\d+|usize|i\d+|isize)>, .*> as (std::iter::)?Iterator>::next$', 'Zip<RangeFrom, I>::next', prio=2)
def _zipfrom_next(eng, st, args, ci):
    zref = args[0]
    z = eng.read_ref(st, zref)
    if not (isinstance(z, Tup) and z.name == 'ZipFrom'):
        raise Unsupported('Zip::next on %r' % (z,))
    cnt, cell = z.items
    m = re.match(r'^<(?:std::iter::)?Zip<(?:std::ops::)?RangeFrom<[a-z0-9]+>, (.*)> as (?:std::iter::)?Iterator>::next$', ci.func)
    inner_callee = '<%s as Iterator>::next' % m.group(1)
    res = []
    for (s2, kind, v) in eng.call_path(st, inner_callee, [cell], ci):
        if kind != 'ret':
            res.append((s2, kind, v))
            continue
        if not isinstance(v, Enum):
            raise Unsupported('inner next returned %r' % (v,))
        if v.concrete() == 0:
            res.append((s2, 'ret', NONE))
            continue
        if v.concrete() is None:
            raise Unsupported('inner next with a symbolic discriminant')
        eng.write_ref(s2, zref, Tup([BV(cnt.e + 1, cnt.ty), cell], 'ZipFrom'))
        res.append((s2, 'ret', some(Tup([cnt, v.payloads[1].items[0]]))))
    return res


# ---------------------------------------------------------------- f32

@intrinsic(r'^(std|core)::f32::<impl f32>::round$', 'f32::round = round to nearest, ties away from zero (IEEE roundToIntegral RNA)')
def _f32_round(eng, st, args, ci):
    return FP(z3.fpRoundToIntegral(z3.RNA(), args[0].e))


# ---------------------------------------------------------------- lazy adaptors over slices: filter_map / map ... next

@intrinsic(r'^<(std|core)::slice::Iter<.*> as (std::iter::)?Iterator>::filter_map::<', 'slice::Iter::filter_map (lazy adaptor; closure body = real MIR)')
def _iter_filter_map(eng, st, args, ci):
    return Tup([args[0], args[1]], 'FilterMap')


@intrinsic(r'^<(std::iter::)?FilterMap<(std|core)::slice::Iter<.*>, .*> as (std::iter::)?Iterator>::next$', 'FilterMap::next (forks on the closure result per element)')
def _filter_map_next(eng, st, args, ci):
    fm = args[0]
    if isinstance(fm, Ref):
        fmv = eng.read_ref(st, fm)
    else:
        fmv = fm
    it, f = fmv.items
    ref, pos = it.items
    seq = eng.read_ref(st, ref)
    p = pos.concrete()
    n = len(seq.items)
    results = []
    live = [st]

    def advance(s_, to):
        # the cursor moves past the element that was yielded (or to the end)
        if isinstance(fm, Ref):
            eng.write_ref(s_, fm, Tup([Tup([ref, bv_const(to, 'usize')], it.name), f], fmv.name))
    for j in range(p, n):
        nxt = []
        for s in live:
            el = Ref(ref.key, ref.projs + (('cindex', j),), False)
            for (s2, kind, val) in eng.call_value(s, f, [el], None):
                if kind != 'ret':
                    results.append((s2, kind, val))
                    continue
                some_c = val.discr == 1
                can_some = eng.feasible(s2, some_c)
                can_none = eng.feasible(s2, z3.Not(some_c))
                if can_some and can_none:
                    s3 = s2.fork()
                    s3.assume(z3.Not(some_c))
                    nxt.append(s3)
                    s2.assume(some_c)
                    advance(s2, j + 1)
                    results.append((s2, 'ret', Enum('Option', 1, {1: val.payloads[1]})))
                elif can_some:
                    advance(s2, j + 1)
                    results.append((s2, 'ret', Enum('Option', 1, {1: val.payloads[1]})))
                elif can_none:
                    nxt.append(s2)
        live = nxt
    for s in live:
        advance(s, n)
        results.append((s, 'ret', NONE))
    return results


@intrinsic(r'^<(std::iter::)?FilterMap<(std::vec::|alloc::vec::)?IntoIter<.*>, .*> as (std::iter::)?Iterator>::next$', 'FilterMap<vec::IntoIter>::next (by-value items; forks on the closure result per element)')
def _filter_map_owned_next(eng, st, args, ci):
    fm = args[0]
    fmv = eng.read_ref(st, fm) if isinstance(fm, Ref) else fm
    if not (isinstance(fmv, Tup) and len(fmv.items) == 2 and isinstance(fmv.items[0], Tup) and fmv.items[0].name == 'OwnedIter'):
        raise Unsupported('FilterMap::next on %r' % (fmv,))
    it, f = fmv.items
    cell, pos = it.items
    seq = eng.read_ref(st, cell)
    p = pos.concrete()
    n = len(seq.items)
    results = []
    live = [st]

    def advance(s_, to):
        if isinstance(fm, Ref):
            eng.write_ref(s_, fm, Tup([Tup([cell, bv_const(to, 'usize')], 'OwnedIter'), f], fmv.name))
    for j in range(p, n):
        nxt = []
        for s in live:
            for (s2, kind, val) in eng.call_value(s, f, [seq.items[j]], None):
                if kind != 'ret':
                    results.append((s2, kind, val))
                    continue
                some_c = val.discr == 1
                can_some = eng.feasible(s2, some_c)
                can_none = eng.feasible(s2, z3.Not(some_c))
                if can_some and can_none:
                    s3 = s2.fork()
                    s3.assume(z3.Not(some_c))
                    nxt.append(s3)
                    s2.assume(some_c)
                    advance(s2, j + 1)
                    results.append((s2, 'ret', Enum('Option', 1, {1: val.payloads[1]})))
                elif can_some:
                    advance(s2, j + 1)
                    results.append((s2, 'ret', Enum('Option', 1, {1: val.payloads[1]})))
                elif can_none:
                    nxt.append(s2)
        live = nxt
    for s in live:
        advance(s, n)
        results.append((s, 'ret', NONE))
    return results


@intrinsic(r'^<(std::iter::)?Filter<(std|core)::slice::Iter<.*>, .*> as (std::iter::)?Iterator>::next$', 'Filter<slice::Iter>::next (forks on the predicate per element; the cursor advances)')
def _filter_next(eng, st, args, ci):
    fr = args[0]
    if not isinstance(fr, Ref):
        raise Unsupported('Filter::next on a non-reference')
    fv = eng.read_ref(st, fr)
    it, f = fv.items
    ref, pos = it.items
    seq = eng.read_ref(st, ref)
    p = pos.concrete()
    n = len(seq.items)
    results = []
    live = [st]
    for j in range(p, n):
        nxt = []
        for s in live:
            el = Ref(ref.key, ref.projs + (('cindex', j),), False)
            arg = eng.ref_to(s, el, False, 'flt')            # the predicate takes &Self::Item = &&T
            for (s2, kind, val) in eng.call_value(s, f, [arg], None):
                if kind != 'ret':
                    results.append((s2, kind, val))
                    continue
                t_ok = eng.feasible(s2, val)
                f_ok = eng.feasible(s2, z3.Not(val))
                adv = Tup([Tup([ref, bv_const(j + 1, 'usize')], it.name), f], fv.name)
                if t_ok and f_ok:
                    s3 = s2.fork()
                    s3.assume(z3.Not(val))
                    nxt.append(s3)
                    s2.assume(val)
                    eng.write_ref(s2, fr, adv)
                    results.append((s2, 'ret', some(el)))
                elif t_ok:
                    eng.write_ref(s2, fr, adv)
                    results.append((s2, 'ret', some(el)))
                elif f_ok:
                    nxt.append(s2)
        live = nxt
    for s in live:
        eng.write_ref(s, fr, Tup([Tup([ref, bv_const(n, 'usize')], it.name), f], fv.name))
        results.append((s, 'ret', NONE))
    return results


# ---------------------------------------------------------------- VecDeque / Vec::remove / str::to_owned (sequences of concrete length)

@intrinsic(r'^(std::collections::)?VecDeque::<.*>::(new|with_capacity)$', 'VecDeque::new/with_capacity')
def _vd_new(eng, st, args, ci):
    return Seq([])


@intrinsic(r'^(std::collections::)?VecDeque::<.*>::len$', 'VecDeque::len')
def _vd_len(eng, st, args, ci):
    v = eng.read_ref(st, args[0])
    return bv_const(len(v.items), 'usize')


@intrinsic(r'^(std::collections::)?VecDeque::<.*>::pop_front$', 'VecDeque::pop_front')
def _vd_pop_front(eng, st, args, ci):
    v = eng.read_ref(st, args[0])
    if not v.items:
        return NONE
    eng.write_ref(st, args[0], Seq(v.items[1:]))
    return some(v.items[0])


@intrinsic(r'^(std::collections::)?VecDeque::<.*>::push_back$', 'VecDeque::push_back')
def _vd_push_back(eng, st, args, ci):
    v = eng.read_ref(st, args[0])
    eng.write_ref(st, args[0], Seq(v.items + (args[1],)))
    return UNIT


@intrinsic(r'^(std::collections::)?VecDeque::<.*>::drain::<(std::ops::)?RangeFull>$|^(std::vec::)?Vec::<.*>::drain::<(std::ops::)?RangeFull>$', 'VecDeque / Vec::drain(..): yields every element, leaves the container empty')
def _vd_drain_all(eng, st, args, ci):
    v = eng.read_ref(st, args[0])
    if not isinstance(v, Seq):
        raise Unsupported('drain on %r' % (v,))
    cell = eng.ref_to(st, Seq(list(v.items)), True, 'drained')
    eng.write_ref(st, args[0], Seq([]))
    return Tup([cell, bv_const(0, 'usize')], 'OwnedIter')


@intrinsic(r'^<(std::collections::)?vec_deque::Drain<.*> as (std::iter::)?Iterator>::next$|^<(std::vec::)?Drain<.*> as (std::iter::)?Iterator>::next$', 'Drain::next')
def _drain_next(eng, st, args, ci):
    return _owned_next(eng, st, args, ci)


@intrinsic(r'^(std|core)::iter::repeat::<', 'iter::repeat(x) = the endless iterator of x (only usable under take)')
def _iter_repeat(eng, st, args, ci):
    return Tup([args[0]], 'Repeat')


@intrinsic(r'^<(std::iter::)?Repeat<.*> as (std::iter::)?Iterator>::take$', 'Repeat::take(n)', prio=3)
def _repeat_take(eng, st, args, ci):
    return Tup([args[0].items[0], args[1]], 'RepeatTake')


@intrinsic(r'^<(std::string::)?String as (std::iter::)?Extend<char>>::extend::<', 'String::extend with repeat(c).take(n): forks on the feasible values of n up to the loop bound')
def _string_extend(eng, st, args, ci):
    sref, it = args
    if not (isinstance(it, Tup) and it.name == 'RepeatTake'):
        raise Unsupported('String::extend with %r' % (it,))
    ch, n = it.items
    cur = eng.read_ref(st, sref)
    if not isinstance(cur, Seq):
        raise Unsupported('String::extend on %r' % (cur,))
    c = n.concrete()
    if c is not None:
        eng.write_ref(st, sref, Seq(list(cur.items) + [ch] * c))
        return UNIT
    res = []
    rest = st
    bound = max(eng.loop_bound, 1)
    for k in range(0, bound + 1):
        cond = n.e == k
        if eng.feasible(rest, cond):
            sk = rest.fork()
            sk.assume(cond)
            eng.write_ref(sk, sref, Seq(list(cur.items) + [ch] * k))
            res.append((sk, 'ret', UNIT))
            rest.assume(z3.Not(cond))
    if eng.feasible(rest):
        res.append((rest, 'unwind', 'String::extend(repeat.take(n)) with n above the loop bound'))
    return res


@intrinsic(r'^core::slice::<impl \[.*\]>::(last|last_mut|first|first_mut)$|^(std::vec::)?Vec::<.*>::(last|last_mut|first|first_mut)$', 'slice::{first,last}(_mut) on a sequence of concrete length')
def _slice_last(eng, st, args, ci):
    r = args[0]
    if not isinstance(r, Ref):
        raise Unsupported('slice::last on a non-reference')
    seq = eng.read_ref(st, r)
    if not isinstance(seq, Seq):
        raise Unsupported('slice::last on %r' % (seq,))
    if not seq.items:
        return NONE
    meth = ci.func.rsplit('::', 1)[1]
    j = len(seq.items) - 1 if meth.startswith('last') else 0
    return some(Ref(r.key, r.projs + (('cindex', j),), meth.endswith('_mut')))


@intrinsic(r'^(std::vec::)?Vec::<.*>::dedup_by::<', 'Vec::dedup_by (std semantics: same_bucket(&mut next, &mut last_kept), next is dropped when it returns true; closure = real MIR)')
def _vec_dedup_by(eng, st, args, ci):
    vref, f = args
    seq = eng.read_ref(st, vref)
    if not isinstance(seq, Seq):
        raise Unsupported('dedup_by on %r' % (seq,))
    n = len(seq.items)
    if n < 2:
        return UNIT
    # state per live path: list of kept element values (the last one may be mutated by the closure)
    live = [(st, [seq.items[0]])]
    early = []
    for j in range(1, n):
        nxt = []
        for (s, kept) in live:
            cur = eng.ref_to(s, seq.items[j], True, 'dd_next')
            last = eng.ref_to(s, kept[-1], True, 'dd_kept')
            for (s2, kind, val) in eng.call_value(s, f, [cur, last], None):
                if kind != 'ret':
                    early.append((s2, kind, val))      # a panic inside the predicate is an outcome of the caller
                    continue
                cur_v = eng.read_ref(s2, cur)
                last_v = eng.read_ref(s2, last)
                t_ok = eng.feasible(s2, val)
                f_ok = eng.feasible(s2, z3.Not(val))
                if t_ok and f_ok:
                    s3 = s2.fork()
                    s3.assume(z3.Not(val))
                    nxt.append((s3, kept[:-1] + [last_v, cur_v]))
                    s2.assume(val)
                    nxt.append((s2, kept[:-1] + [last_v]))
                elif t_ok:
                    nxt.append((s2, kept[:-1] + [last_v]))
                elif f_ok:
                    nxt.append((s2, kept[:-1] + [last_v, cur_v]))
        live = nxt
    res = list(early)
    for (s, kept) in live:
        eng.write_ref(s, vref, Seq(kept))
        res.append((s, 'ret', UNIT))
    return res


@intrinsic(r'^(std::vec::)?Vec::<.*>::remove$', 'Vec::remove (concrete index)')
def _vec_remove(eng, st, args, ci):
    v = eng.read_ref(st, args[0])
    i = args[1].concrete()
    if i is None:
        raise Unsupported('Vec::remove with symbolic index')
    if i >= len(v.items):
        return PanicNowCompat('removal index (is %d) should be < len (is %d)' % (i, len(v.items)))
    eng.write_ref(st, args[0], Seq(v.items[:i] + v.items[i + 1:]))
    return v.items[i]


@intrinsic(r'^<str as (std::borrow::)?ToOwned>::to_owned$|^<(std::string::)?String as (std::clone::)?Clone>::clone$|^<str as (std::string::)?ToString>::to_string$', 'str::to_owned / String::clone (same text value)', prio=2)
def _str_to_owned(eng, st, args, ci):
    return _deref_arg(eng, st, args[0])


# ---------------------------------------------------------------- generic lazy iterator adaptors (map / filter / filter_map) and consumers

_ITER_TYS = r'(Skip|std::iter::Skip|FlatMap|std::iter::FlatMap|std::slice::Iter|core::slice::Iter|std::vec::IntoIter|Map|Filter|FilterMap|std::iter::Map|std::iter::Filter|std::iter::FilterMap|std::iter::Take|Take|TakeWhile|std::iter::TakeWhile|Rev|std::iter::Rev|Chars|std::str::Chars|Bytes|std::str::Bytes)'


@intrinsic(r'^<' + _ITER_TYS + r'<.*> as (std::iter::)?Iterator>::(map|filter|filter_map)::<', 'Iterator::{map,filter,filter_map} (lazy adaptors; closure bodies = real MIR)', prio=1)
def _iter_adaptor(eng, st, args, ci):
    m = re.search(r'Iterator>::(map|filter|filter_map)::<', ci.func)
    kind = {'map': 'Map', 'filter': 'Filter', 'filter_map': 'FilterMap'}[m.group(1)]
    return Tup([args[0], args[1]], kind)


def drain(eng, st, it):
    """all elements an iterator value yields: list of (state, [items]); forks where closures decide"""
    if isinstance(it, Ref):
        return drain(eng, st, eng.read_ref(st, it))
    if not isinstance(it, Tup):
        raise Unsupported('drain of %r' % (it,))
    if it.name == 'SliceIter':
        ref, pos = it.items
        seq = eng.read_ref(st, ref)
        p = pos.concrete()
        return [(st, [Ref(ref.key, ref.projs + (('cindex', j),), ref.mut) for j in range(p, len(seq.items))])]
    if it.name == 'OwnedIter':
        cell, pos = it.items
        seq = eng.read_ref(st, cell)
        p = pos.concrete()
        return [(st, list(seq.items[p:]))]
    if it.name in ('Map', 'Filter', 'FilterMap'):
        inner, f = it.items
        out = []
        for (s, items) in drain(eng, st, inner):
            live = [(s, [])]
            for item in items:
                nxt = []
                for (s1, acc) in live:
                    if it.name == 'Filter':
                        arg = eng.ref_to(s1, item, False, 'flt')   # predicate takes &Self::Item (Item is &T for slice iterators, T for owning ones)
                    else:
                        arg = item
                    for (s2, kind, val) in eng.call_value(s1, f, [arg], None):
                        if kind != 'ret':
                            raise Unsupported('iterator closure did not return: %s %r' % (kind, val))
                        if it.name == 'Map':
                            nxt.append((s2, acc + [val]))
                        elif it.name == 'Filter':
                            t_ok = eng.feasible(s2, val)
                            f_ok = eng.feasible(s2, z3.Not(val))
                            if t_ok and f_ok:
                                s3 = s2.fork()
                                s3.assume(z3.Not(val))
                                nxt.append((s3, list(acc)))
                                s2.assume(val)
                                nxt.append((s2, acc + [item]))
                            elif t_ok:
                                nxt.append((s2, acc + [item]))
                            elif f_ok:
                                nxt.append((s2, acc))
                        else:
                            some_c = val.discr == 1
                            t_ok = eng.feasible(s2, some_c)
                            f_ok = eng.feasible(s2, z3.Not(some_c))
                            if t_ok and f_ok:
                                s3 = s2.fork()
                                s3.assume(z3.Not(some_c))
                                nxt.append((s3, list(acc)))
                                s2.assume(some_c)
                                nxt.append((s2, acc + [val.payloads[1].items[0]]))
                            elif t_ok:
                                nxt.append((s2, acc + [val.payloads[1].items[0]]))
                            elif f_ok:
                                nxt.append((s2, acc))
                live = nxt
            out.extend(live)
        return out
    if it.name == 'FlatMap':
        inner, f = it.items
        out = []
        for (s, items) in drain(eng, st, inner):
            live = [(s, [])]
            for item in items:
                nxt = []
                for (s1, acc) in live:
                    for (s2, kind, val) in eng.call_value(s1, f, [item], None):
                        if kind != 'ret':
                            raise Unsupported('flat_map closure did not return: %s %r' % (kind, val))
                        val = _deref_arg(eng, s2, val)
                        if not isinstance(val, Seq):
                            raise Unsupported('flat_map closure result %r' % (val,))
                        nxt.append((s2, acc + list(val.items)))
                live = nxt
            out.extend(live)
        return out
    if it.name == 'TakeWhile':
        inner, f = it.items
        out = []
        for (s, items) in drain(eng, st, inner):
            live = [(s, [], False)]
            for item in items:
                nxt = []
                for (s1, acc, done) in live:
                    if done:
                        nxt.append((s1, acc, True))
                        continue
                    arg = eng.ref_to(s1, item, False, 'tw')
                    for (s2, kind, val) in eng.call_value(s1, f, [arg], None):
                        if kind != 'ret':
                            raise Unsupported('take_while predicate did not return: %s %r' % (kind, val))
                        t_ok = eng.feasible(s2, val)
                        f_ok = eng.feasible(s2, z3.Not(val))
                        if t_ok and f_ok:
                            s3 = s2.fork()
                            s3.assume(z3.Not(val))
                            nxt.append((s3, list(acc), True))
                            s2.assume(val)
                            nxt.append((s2, acc + [item], False))
                        elif t_ok:
                            nxt.append((s2, acc + [item], False))
                        elif f_ok:
                            nxt.append((s2, acc, True))
                live = nxt
            out.extend((s1, acc) for (s1, acc, _) in live)
        return out
    raise Unsupported('drain of iterator %s' % it.name)


@intrinsic(r'^(core|std)::str::<impl str>::(chars|bytes)$', 'str::chars / str::bytes over a string held as a character sequence (bytes: ASCII contents only)', prio=2)
def _str_chars(eng, st, args, ci):
    v = _deref_arg(eng, st, args[0])
    if isinstance(v, StrVal) and v.s is not None:
        v = Seq([bv_const(ord(c), 'char') for c in v.s])
    if not isinstance(v, Seq):
        raise Unsupported('chars of %r' % (v,))
    items = list(v.items)
    if ci.func.endswith('bytes'):
        for c in items:
            if eng.feasible(st, z3.UGE(c.e, 0x80)):
                raise Unsupported('str::bytes over a possibly non-ASCII character')
        items = [BV(z3.Extract(7, 0, c.e), 'u8') for c in items]
    cell = eng.ref_to(st, Seq(items), False, 'chars')
    return Tup([cell, bv_const(0, 'usize')], 'OwnedIter')


@intrinsic(r'^<(std::str::)?(Chars|Bytes)<.*> as (std::iter::)?Iterator>::rev$|^<' + _ITER_TYS + r'<.*> as (std::iter::)?Iterator>::rev$', 'Iterator::rev over a finite drained iterator', prio=2)
def _iter_rev(eng, st, args, ci):
    res = []
    for (s, items) in drain(eng, st, args[0]):
        cell = eng.ref_to(s, Seq(list(reversed(items))), False, 'rev')
        res.append((s, 'ret', Tup([cell, bv_const(0, 'usize')], 'OwnedIter')))
    return res


@intrinsic(r'^<' + _ITER_TYS + r'<.*> as (std::iter::)?Iterator>::(any|all)::<', 'Iterator::{any,all} over a drained finite iterator (predicate = real MIR, merged per element)', prio=0)
def _iter_any_generic(eng, st, args, ci):
    it, f = args
    is_any = '>::any::<' in ci.func
    if isinstance(it, Ref):
        it = eng.read_ref(st, it)
    res = []
    for (s, items) in drain(eng, st, it):
        conds = [merged_call_value(eng, s, f, [x]) for x in items]
        if is_any:
            res.append((s, 'ret', z3.Or(conds) if conds else z3.BoolVal(False)))
        else:
            res.append((s, 'ret', z3.And(conds) if conds else z3.BoolVal(True)))
    return res


@intrinsic(r'^<' + _ITER_TYS + r'<.*> as (std::iter::)?Iterator>::skip$', 'Iterator::skip with a concrete count', prio=2)
def _iter_skip(eng, st, args, ci):
    n = args[1].concrete()
    if n is None:
        raise Unsupported('skip with a symbolic count')
    res = []
    for (s, items) in drain(eng, st, args[0]):
        cell = eng.ref_to(s, Seq(list(items[n:])), False, 'skip')
        res.append((s, 'ret', Tup([cell, bv_const(0, 'usize')], 'OwnedIter')))
    return res


@intrinsic(r'^<' + _ITER_TYS + r'<.*> as (std::iter::)?Iterator>::take$', 'Iterator::take with a concrete count', prio=2)
def _iter_take(eng, st, args, ci):
    n = args[1].concrete()
    if n is None:
        raise Unsupported('take with a symbolic count')
    res = []
    for (s, items) in drain(eng, st, args[0]):
        cell = eng.ref_to(s, Seq(list(items[:n])), False, 'take')
        res.append((s, 'ret', Tup([cell, bv_const(0, 'usize')], 'OwnedIter')))
    return res


@intrinsic(r'^<(std::iter::)?Map<.*> as (std::iter::)?Iterator>::next$', 'Map<I, F>::next over an iterator that is itself summarised or stubbed: inner next, then the real F', prio=3)
def _map_next(eng, st, args, ci):
    mref = args[0]
    if not isinstance(mref, Ref):
        raise Unsupported('Map::next on a non-reference')
    mv = eng.read_ref(st, mref)
    if not (isinstance(mv, Tup) and mv.name == 'Map'):
        raise Unsupported('Map::next on %r' % (mv,))
    inner, f = mv.items
    m = re.match(r'^<(?:std::iter::)?Map<(.*)> as (?:std::iter::)?Iterator>::next$', ci.func)
    from .engine import CallInfo, split_top_commas
    parts = split_top_commas(m.group(1))
    inner_ty = parts[0].strip()
    ci2 = CallInfo()
    ci2.func = '<%s as Iterator>::next' % inner_ty
    ci2.dest_ty = None
    ci2.frame = ci.frame
    ci2.fn = ci.fn
    ci2.bb = ci.bb
    ci2.arg_ops = None
    iref = Ref(mref.key, mref.projs + (('field', 0),), True)
    res = []
    for (s1, kind, val) in eng.call_path(st, ci2.func, [iref], ci2):
        if kind != 'ret':
            res.append((s1, kind, val))
            continue
        if not isinstance(val, Enum):
            raise Unsupported('inner next returned %r' % (val,))

        def on_some(s, x):
            out = []
            for (s2, k2, v2) in eng.call_value(s, f, [x], None):
                out.append((s2, k2, some(v2) if k2 == 'ret' else v2))
            return out
        res.extend(_fork_on_option(eng, s1, val, on_some, lambda s: [(s, 'ret', NONE)]))
    return res


@intrinsic(r'^<' + _ITER_TYS + r'<.*> as (std::iter::)?Iterator>::find::<', 'Iterator::find (forks on the real predicate per element)', prio=2)
def _iter_find(eng, st, args, ci):
    it, f = args
    if isinstance(it, Ref):
        it = eng.read_ref(st, it)
    results = []
    for (s0, items) in drain(eng, st, it):
        live = [s0]
        for item in items:
            nxt = []
            for s1 in live:
                arg = eng.ref_to(s1, item, False, 'find')            # predicate takes &Self::Item
                for (s2, kind, val) in eng.call_value(s1, f, [arg], None):
                    if kind != 'ret':
                        results.append((s2, kind, val))
                        continue
                    t_ok = eng.feasible(s2, val)
                    f_ok = eng.feasible(s2, z3.Not(val))
                    if t_ok and f_ok:
                        s3 = s2.fork()
                        s3.assume(z3.Not(val))
                        nxt.append(s3)
                        s2.assume(val)
                        results.append((s2, 'ret', some(item)))
                    elif t_ok:
                        results.append((s2, 'ret', some(item)))
                    elif f_ok:
                        nxt.append(s2)
            live = nxt
        for s1 in live:
            results.append((s1, 'ret', NONE))
    return results


@intrinsic(r'^<' + _ITER_TYS + r'<.*> as (std::iter::)?Iterator>::flat_map::<', 'Iterator::flat_map over closures returning Vec (lazy adaptor; closure = real MIR)', prio=2)
def _iter_flat_map(eng, st, args, ci):
    return Tup([args[0], args[1]], 'FlatMap')


@intrinsic(r'^<' + _ITER_TYS + r'<.*> as (std::iter::)?Iterator>::take_while::<', 'Iterator::take_while (lazy adaptor; predicate = real closure MIR)', prio=2)
def _iter_take_while(eng, st, args, ci):
    return Tup([args[0], args[1]], 'TakeWhile')


@intrinsic(r'^<' + _ITER_TYS + r'<.*> as (std::iter::)?Iterator>::collect::<(std::vec::)?Vec<', 'Iterator::collect::<Vec<_>>', prio=1)
def _iter_collect(eng, st, args, ci):
    return [(s, 'ret', Seq(items)) for (s, items) in drain(eng, st, args[0])]


@intrinsic(r'^<' + _ITER_TYS + r'<.*> as (std::iter::)?Iterator>::count$', 'Iterator::count', prio=1)
def _iter_count(eng, st, args, ci):
    return [(s, 'ret', bv_const(len(items), 'usize')) for (s, items) in drain(eng, st, args[0])]


@intrinsic(r'^<' + _ITER_TYS + r'<.*> as (std::iter::)?Iterator>::(max|min)$', 'Iterator::{max,min} over integer items (fold of the drained items)', prio=1)
def _iter_max(eng, st, args, ci):
    is_max = ci.func.endswith('::max')
    res = []
    for (s, items) in drain(eng, st, args[0]):
        if not items:
            res.append((s, 'ret', NONE))
            continue
        vals = [_as_bv(_deref_arg(eng, s, x)) for x in items]
        acc = vals[0]
        for v in vals[1:]:
            # max returns the last of several maxima, min the first: irrelevant for integers
            if is_max:
                c = (v.e >= acc.e) if acc.signed else z3.UGE(v.e, acc.e)
            else:
                c = (v.e < acc.e) if acc.signed else z3.ULT(v.e, acc.e)
            acc = BV(z3.If(c, v.e, acc.e), acc.ty)
        res.append((s, 'ret', some(acc)))
    return res


@intrinsic(r'^<(std::vec::)?Vec<.*> as (std::iter::)?FromIterator<.*>>::from_iter::<', 'Vec::from_iter', prio=1)
def _vec_from_iter(eng, st, args, ci):
    return [(s, 'ret', Seq(items)) for (s, items) in drain(eng, st, args[0])]


@intrinsic(r'^<(std::option::)?Option<&?' + _INTS + r'> as (std::cmp::)?PartialEq>::(eq|ne)$', 'Option<int/char> PartialEq')
def _opt_int_eq(eng, st, args, ci):
    a, b = (_deref_arg(eng, st, x) for x in args)
    both_some = z3.And(a.discr == 1, b.discr == 1)
    if 1 in a.payloads and 1 in b.payloads:
        x = _as_bv(_deref_arg(eng, st, a.payloads[1].items[0]))
        y = _as_bv(_deref_arg(eng, st, b.payloads[1].items[0]))
        inner = x.e == y.e
    else:
        inner = z3.BoolVal(False)
    r = z3.Or(z3.And(a.discr == 0, b.discr == 0), z3.And(both_some, inner))
    return r if ci.func.endswith('::eq') else z3.Not(r)


@intrinsic(r'^<std::ops::Range<(usize|u32|i32|isize)> as (std::iter::)?Iterator>::(any|all)::<', 'Range<int>::{any,all} with concrete bounds (short-circuit; closure body = real MIR, effects kept)')
def _range_any_all(eng, st, args, ci):
    is_any = '>::any::<' in ci.func
    rref, f = args
    rng = eng.read_ref(st, rref)
    a, b = rng.items[0].concrete(), rng.items[1].concrete()
    if a is None or b is None:
        raise Unsupported('Range::any/all with symbolic bounds')
    results = []
    live = [st]
    for i in range(a, b):
        nxt = []
        for s in live:
            for (s2, kind, val) in eng.call_value(s, f, [BV(z3.BitVecVal(i, rng.items[0].e.size()), rng.items[0].ty)], None):
                if kind != 'ret':
                    results.append((s2, kind, val))
                    continue
                stop = val if is_any else z3.Not(val)
                can_stop = eng.feasible(s2, stop)
                can_go = eng.feasible(s2, z3.Not(stop))
                if can_stop and can_go:
                    s3 = s2.fork()
                    s3.assume(z3.Not(stop))
                    nxt.append(s3)
                    s2.assume(stop)
                    results.append((s2, 'ret', z3.BoolVal(is_any)))
                elif can_stop:
                    results.append((s2, 'ret', z3.BoolVal(is_any)))
                elif can_go:
                    nxt.append(s2)
        live = nxt
    for s in live:
        results.append((s, 'ret', z3.BoolVal(not is_any)))
    return results
