"""Symbolic values for mirsym. All values are immutable."""
import z3

INT_TYPES = {
    'usize': (64, False), 'isize': (64, True),
    'u8': (8, False), 'i8': (8, True),
    'u16': (16, False), 'i16': (16, True),
    'u32': (32, False), 'i32': (32, True),
    'u64': (64, False), 'i64': (64, True),
    'u128': (128, False), 'i128': (128, True),
    'char': (32, False),
}


class Unsupported(Exception):
    pass


class BV:
    __slots__ = ('e', 'ty')

    def __init__(self, e, ty):
        self.e = e
        self.ty = ty

    @property
    def width(self):
        return INT_TYPES[self.ty][0]

    @property
    def signed(self):
        return INT_TYPES[self.ty][1]

    def concrete(self):
        e = z3.simplify(self.e)
        if z3.is_bv_value(e):
            return e.as_signed_long() if self.signed else e.as_long()
        return None

    def __repr__(self):
        return 'BV(%s:%s)' % (self.e, self.ty)


def bv_const(v, ty):
    w, _ = INT_TYPES[ty]
    return BV(z3.BitVecVal(v, w), ty)


class FP:
    __slots__ = ('e', 'ty')

    def __init__(self, e, ty='f32'):
        self.e = e
        self.ty = ty

    def __repr__(self):
        return 'FP(%s)' % (self.e,)


class Tup:
    """tuple / struct / closure-captures"""
    __slots__ = ('items', 'name')

    def __init__(self, items, name=None):
        self.items = tuple(items)
        self.name = name

    def __repr__(self):
        return '%s%r' % (self.name or '', self.items)


UNIT = Tup(())


class Seq:
    """array / slice / Vec contents with concrete length"""
    __slots__ = ('items',)

    def __init__(self, items):
        self.items = tuple(items)

    def __repr__(self):
        return 'Seq%r' % (list(self.items),)


class Enum:
    """discr: z3 BV64 expr; payloads: {variant_index: Tup}"""
    __slots__ = ('name', 'discr', 'payloads')

    def __init__(self, name, discr, payloads=None):
        self.name = name
        if isinstance(discr, int):
            discr = z3.BitVecVal(discr, 64)
        self.discr = discr
        self.payloads = dict(payloads or {})

    def concrete(self):
        e = z3.simplify(self.discr)
        if z3.is_bv_value(e):
            return e.as_signed_long()
        return None

    def __repr__(self):
        return 'Enum(%s,%s,%r)' % (self.name, self.discr, self.payloads)


class Ref:
    __slots__ = ('key', 'projs', 'mut')

    def __init__(self, key, projs=(), mut=False):
        self.key = key
        self.projs = tuple(projs)
        self.mut = mut

    def __repr__(self):
        return 'Ref(%r,%r)' % (self.key, self.projs)

    def same(self, o):
        return isinstance(o, Ref) and self.key == o.key and self.projs == o.projs


class StrVal:
    """string: concrete python str (s) or symbolic element of the uninterpreted sort Str (e)."""
    __slots__ = ('s', 'e')

    def __init__(self, s=None, e=None):
        self.s = s
        self.e = e

    def __repr__(self):
        return 'Str(%r)' % (self.s if self.s is not None else self.e,)


class Opaque:
    """uninterpreted value; identity = ident"""
    __slots__ = ('tag', 'ident', 'data')

    def __init__(self, tag, ident, data=None):
        self.tag = tag
        self.ident = ident
        self.data = data

    def __repr__(self):
        return 'Opaque(%s#%s)' % (self.tag, self.ident)


class FnItem:
    __slots__ = ('path',)

    def __init__(self, path):
        self.path = path

    def __repr__(self):
        return 'FnItem(%s)' % self.path


class Undef:
    def __repr__(self):
        return 'Undef'


UNDEF = Undef()


class MergeFail(Exception):
    pass


def merge_val(c, a, b):
    """ite(c, a, b) structurally"""
    if a is b:
        return a
    if isinstance(a, Undef):
        return b
    if isinstance(b, Undef):
        return a
    if isinstance(a, bool):
        a = z3.BoolVal(a)
    if isinstance(b, bool):
        b = z3.BoolVal(b)
    if z3.is_bool(a) and z3.is_bool(b):
        if a.eq(b):
            return a
        return z3.If(c, a, b)
    if isinstance(a, BV) and isinstance(b, BV):
        if a.ty != b.ty:
            raise MergeFail('bv types')
        if a.e.eq(b.e):
            return a
        return BV(z3.If(c, a.e, b.e), a.ty)
    if isinstance(a, FP) and isinstance(b, FP):
        return FP(z3.If(c, a.e, b.e), a.ty)
    if isinstance(a, Tup) and isinstance(b, Tup):
        if len(a.items) != len(b.items):
            raise MergeFail('tuple arity')
        return Tup([merge_val(c, x, y) for x, y in zip(a.items, b.items)], a.name or b.name)
    if isinstance(a, Seq) and isinstance(b, Seq):
        if len(a.items) != len(b.items):
            raise MergeFail('seq len')
        return Seq([merge_val(c, x, y) for x, y in zip(a.items, b.items)])
    if isinstance(a, Enum) and isinstance(b, Enum):
        d = a.discr if a.discr.eq(b.discr) else z3.If(c, a.discr, b.discr)
        pl = {}
        for k in set(a.payloads) | set(b.payloads):
            if k in a.payloads and k in b.payloads:
                pl[k] = merge_val(c, a.payloads[k], b.payloads[k])
            else:
                pl[k] = a.payloads.get(k) or b.payloads.get(k)
        return Enum(a.name or b.name, d, pl)
    if isinstance(a, Ref) and isinstance(b, Ref):
        if a.same(b):
            return a
        raise MergeFail('refs differ')
    if isinstance(a, StrVal) and isinstance(b, StrVal):
        if a.s is not None and a.s == b.s:
            return a
        if a.e is not None and b.e is not None:
            return StrVal(e=z3.If(c, a.e, b.e))
        raise MergeFail('str')
    if isinstance(a, Opaque) and isinstance(b, Opaque):
        if a.ident == b.ident:
            return a
        raise MergeFail('opaque')
    if isinstance(a, FnItem) and isinstance(b, FnItem) and a.path == b.path:
        return a
    raise MergeFail('kinds %s/%s' % (type(a).__name__, type(b).__name__))
