"""C05 (thin kernel) — a failing run writes nothing for that crate root: the module-level gate of format_project.

Decided on the real MIR of formatting.rs::format_project (+ should_skip_module and its closures) with parsing, module resolution and
per-file formatting as environment (see projmodel.py): on every path
  * no file is formatted unless ParseSess::new, Parser::parse_crate and ModResolver::visit_crate all succeeded before it;
  * a parse error ends the run with the parsing-error flag recorded and an Ok(report), nothing formatted;
  * a resolution error, or a format_file error, is returned as Err at once, nothing (more) formatted;
  * each format_file call pairs a path with its own module.
What a failing parse or resolution is, and that format_file only writes complete texts (C06), is outside."""
from common import *
import projmodel


def build(ctx):
    ctx.level = 'other'
    eng = ctx.engine('lib', loop_bound=8)
    K = 2 if ctx.tier == 'quick' else 3
    ctx.bounds = {'modules returned by the resolver': '0..%d' % K, 'input': 'a path and standard input'}
    ctx.outside = ['rustc_parse and ModResolver themselves (which inputs fail)', 'configuration errors raised while the options are loaded', 'what format_file writes (C06: handle_formatted_file, emitters)',
                   'the loop over several inputs in the binary (C15)']
    ctx.assumptions = ['ParseSess::new, Parser::parse_crate, ModResolver::visit_crate, FormatContext::format_file = Ok | Err, symbolic, observed in order',
                       'contains_skip / ignore_file / is_generated_file symbolic per module']
    rp = make_replay(ctx)
    nfmt = 0
    for stdin in (False, True):
        for k in range(0, K + 1):
            outs, info = projmodel.run_format_project(ctx, eng, k, stdin)
            ctx.paths += len(outs)
            log('[C05] format_project stdin=%s modules=%d: %d paths' % (stdin, k, len(outs)))
            for pi, o in enumerate(outs):
                tag = 'format_project/%s/k%d/p%d' % ('stdin' if stdin else 'file', k, pi)
                if o.kind != 'ret':
                    ctx.prop(tag + '/no-panic', o.state.pc, z3.BoolVal(True), [], rp, twin=False)
                    continue
                ev = projmodel.events(o)
                names = [e[0] for e in ev]
                okd = {e[0]: e[1] for e in ev if e[0] in ('psess', 'parse', 'resolve')}
                fmts = [e for e in ev if e[0] == 'format']
                ret_ok = o.value.concrete() == 0
                bad = []
                if fmts:
                    nfmt += 1
                    first = names.index('format')
                    for need in ('psess', 'parse', 'resolve'):
                        if not (need in names[:first] and okd.get(need) is True):
                            bad.append('formatted before %s succeeded' % need)
                if okd.get('psess') is False and (len(ev) != 1 or ret_ok):
                    bad.append('ParseSess::new failed but the run went on or returned Ok')
                if okd.get('parse') is False:
                    if fmts or 'resolve' in names:
                        bad.append('parse error but resolution / formatting went on')
                    if 'parsing_error' not in names:
                        bad.append('parse error not recorded in the report')
                    if not ret_ok:
                        bad.append('parse error returned as Err (the report carries it)')
                if okd.get('resolve') is False and (fmts or ret_ok):
                    bad.append('resolution error but a file was formatted or Ok returned')
                for j, f in enumerate(fmts):
                    if f[1] != f[2]:
                        bad.append('format_file(path_%s, module_%s)' % (f[1], f[2]))
                    if f[3] is False and ret_ok:
                        bad.append('format_file failed but the run returned Ok (the failure is swallowed)')
                ctx.prop(tag + '/nothing-is-formatted-unless-the-whole-crate-parsed-and-resolved;errors-end-the-run', o.state.pc, z3.BoolVal(bool(bad)), [], rp, twin=False, meta={'events': str(ev)[:200], 'bad': bad})
    if not nfmt:
        raise Inconclusive('format_project: no path formats a file')
    ctx.cover('cover/some-path-formats-a-file', [z3.BoolVal(nfmt > 0)])
    part_emitter(ctx, eng, rp)
    part_version_gate(ctx, eng)
    part_module_file_classification(ctx, eng)
    import resolvermodel
    resolvermodel.part_find_external_module(ctx, eng, 'C05', resolvermodel.replay_find_external_module)
    resolvermodel.part_walkers_pass_errors_on(ctx, eng, 'C05', resolvermodel.replay_walkers)


def part_emitter(ctx, eng, rp):
    """SilentOnIgnoredFilesEmitter::emit_diagnostic, one step from an arbitrary emitter state: an error may be forgotten (`can_reset`) only
    while every diagnostic so far was non-fatal and located in a file matched by `ignore`. State: (has_non_ignorable_parser_errors H,
    can_reset R) under the invariant H => not R; the diagnostic: fatal?, has a primary span?, file name shape, ignore-set match."""
    em = eng.find('emit_diagnostic', self_ty='SilentOnIgnoredFilesEmitter', file='src/parse/session.rs', trait='Emitter')
    eng.stubs = []
    eng.lenient = True
    eng.inline_only = [re.compile(r'emit_diagnostic$'), re.compile(r'handle_non_ignoreable_error$')]
    H0, R0 = z3.Bool('has_non_ignorable_parser_errors'), z3.Bool('can_reset')
    F = z3.Bool('diagnostic_is_fatal')
    M = z3.Bool('file_matches_ignore')
    cell = {}

    def a_store(e, s_, a, c):
        s_.notes['can_reset'] = a[1]
        s_.trace.append(('store', a[1]))
        return UNIT
    eng.stub(r'AtomicBool::store$', a_store, 'AtomicBool::store on can_reset observed (single-threaded: the flag is a plain boolean)')
    eng.stub(r'AtomicBool::load$', lambda e, s_, a, c: s_.notes.get('can_reset', R0), 'AtomicBool::load')
    eng.stub(r'Arc<AtomicBool> as (std::ops::)?Deref>::deref$', lambda e, s_, a, c: Opaque('AtomicBool', 'can_reset'), 'the shared can_reset flag')
    eng.stub(r'<rustc_errors::Level as (std::cmp::)?PartialEq>::eq$', lambda e, s_, a, c: F, 'diag.level() == Fatal: symbolic')
    eng.stub(r'IgnorePathSet::is_match$', lambda e, s_, a, c: (s_.trace.append(('is_match',)), M)[1], 'IgnorePathSet::is_match(file of the primary span): symbolic')
    eng.stub(r'Emitter>::emit_diagnostic$', lambda e, s_, a, c: (s_.trace.append(('forwarded',)), UNIT)[1], 'the wrapped emitter receives the diagnostic: observed')
    st = State()
    st.assume(z3.Implies(H0, z3.Not(R0)))
    fields = [n for n, _ in eng.src.struct_fields('SilentOnIgnoredFilesEmitter', 'src/parse/session.rs')]
    vals = []
    for n in fields:
        if n == 'has_non_ignorable_parser_errors':
            vals.append(H0)
        else:
            vals.append(Opaque('field', n))
    selfref = eng.ref_to(st, Tup(vals, 'SilentOnIgnoredFilesEmitter'), True, 'emitter')
    fn = eng.get_fn(em)
    outs = ctx.check_outcomes(eng.run(em, [selfref, Opaque('DiagInner', 'diag'), eng.fresh_of_type(st, fn.params[2][1], 'registry')], st), 'emit_diagnostic')
    hidx = fields.index('has_non_ignorable_parser_errors')
    kinds = set()
    for pi, o in enumerate(outs):
        if o.kind != 'ret':
            continue
        tr = [t[0] for t in o.state.trace]
        H1 = eng.read_ref(o.state, selfref).items[hidx]
        R1 = o.state.notes.get('can_reset', R0)
        asked = 'is_match' in tr
        # ignorable on this path: not fatal, and the ignore set was consulted (primary span in a real local file) and matched
        ignorable = z3.And(z3.Not(F), M) if asked else z3.BoolVal(False)
        kinds.add('asked' if asked else 'direct')
        tag = 'emitter/p%d' % pi
        fwd = tr.count('forwarded')
        mv = [H0, R0, F, M]
        ctx.prop(tag + '/ignorable-diagnostic:swallowed,state-kept,may-reset-only-if-nothing-else-failed', o.state.pc + [ignorable],
                 z3.Or(z3.BoolVal(fwd != 0), H1 != H0, R1 != z3.If(H0, R0, z3.BoolVal(True))), mv, replay_emitter, twin=False)
        ctx.prop(tag + '/any-other-diagnostic:forwarded-once,recorded,reset-forbidden', o.state.pc + [z3.Not(ignorable)],
                 z3.Or(z3.BoolVal(fwd != 1), z3.Not(H1), R1), mv, replay_emitter, twin=False)
        ctx.prop(tag + '/invariant:a-recorded-error-forbids-the-reset', o.state.pc, z3.And(H1, R1), mv, replay_emitter, twin=False)
    if kinds != {'asked', 'direct'}:
        raise Inconclusive('emit_diagnostic: paths explored %r' % (sorted(kinds),))
    eng.stubs = []
    eng.lenient = False
    eng.inline_only = None


def replay_emitter(model, r):
    """an error in a non-ignored module must fail the run even if an ignored module before it was broken too"""
    import hashlib
    bins = ensure_bins()
    rf = os.path.join(bins, 'rustfmt')
    d = os.path.join(BUILD, 'scratch', 'c05e-%d' % os.getpid())
    found = []
    bad_fmt = 'pub fn   f( ) { }\n'
    broken = 'pub fn g() {\n    let mut mut x = 1;\n}\n'
    for what, files, want_exit, must_change in (
            ('ignored broken module, then a non-ignored broken module', {'lib.rs': 'mod generated;\nmod util;\n' + bad_fmt, 'generated.rs': broken, 'util.rs': broken}, 1, []),
            ('only the ignored module is broken', {'lib.rs': 'mod generated;\nmod util;\n' + bad_fmt, 'generated.rs': broken, 'util.rs': bad_fmt}, 0, ['lib.rs', 'util.rs'])):
        shutil.rmtree(d, ignore_errors=True)
        os.makedirs(d)
        for n, t in files.items():
            open(os.path.join(d, n), 'w').write(t)
        open(os.path.join(d, 'rustfmt.toml'), 'w').write('ignore = ["generated.rs"]\n')
        before = {n: hashlib.sha256(open(os.path.join(d, n), 'rb').read()).hexdigest() for n in files}
        r_ = subprocess.run([rf, 'lib.rs'], capture_output=True, text=True, env=run_env(), timeout=60, cwd=d)
        changed = sorted(n for n in files if hashlib.sha256(open(os.path.join(d, n), 'rb').read()).hexdigest() != before[n])
        if r_.returncode != want_exit or changed != sorted(must_change):
            found.append('%s: exit %d (expected %d), files rewritten %r (expected %r)' % (what, r_.returncode, want_exit, changed, sorted(must_change)))
    shutil.rmtree(d, ignore_errors=True)
    return {'reproduced': bool(found), 'detail': found}


# ----------------------------------------------------------------------------- the version gate in front of format_project
def part_version_gate(ctx, eng):
    """Session::format_input_inner from an arbitrary session state: when the options in force for THIS input do not accept the running version
    (Config::version_meets_requirement, symbolic), the result is Err(VersionMismatch) and neither format_project nor the echo of standard
    input is reached.  The session object is under-constrained: whatever it remembers from earlier inputs is arbitrary."""
    from mirsym.config import make_config
    from mirsym.engine import StrSort
    fii = eng.find('format_input_inner', self_ty='Session', file='src/formatting.rs')
    old = (eng.lenient, eng.inline_only, list(eng.stubs))
    eng.stubs = []
    eng.lenient = True
    eng.inline_only = [re.compile(r'format_input_inner'), re.compile(r'src/config/config_type\.rs'), re.compile(r'^Config::')]
    V = z3.Bool('version_meets_requirement')
    eng.stub(r'create_session_if_not_set_then::<', lambda e, s_, a, c: e.call_value(s_, a[1], [Opaque('&SessionGlobals', 'globals')], c.dest_ty), 'create_session_if_not_set_then(edition, f) = f(globals)')
    eng.stub(r'version_meets_requirement$', lambda e, s_, a, c: (s_.trace.append(('version_asked',)), V)[1], 'Config::version_meets_requirement = symbolic (one answer for the options of this input)')
    eng.stub(r'(^|::)format_project::<', lambda e, s_, a, c: (s_.trace.append(('format_project',)), Enum('Result', 0, {0: Tup([Opaque('FormatReport', 'fp')])}))[1], 'format_project observed')
    eng.stub(r'(^|::)echo_back_stdin$', lambda e, s_, a, c: (s_.trace.append(('echo',)), Enum('Result', 0, {0: Tup([Opaque('FormatReport', 'echo')])}))[1], 'echo_back_stdin observed')
    eng.stub(r'FormatReport::new$', lambda e, s_, a, c: Opaque('FormatReport', 'empty'), 'FormatReport::new')

    def deref(e, s_, v):
        while isinstance(v, Ref):
            v = e.read_ref(s_, v)
        return v
    eng.stub(r'<(config::)?Config as (std::clone::)?Clone>::clone$', lambda e, s_, a, c: deref(e, s_, a[0]), 'Config::clone = the same options')
    ek = eng.enum_variants('ErrorKind')
    VM = ek.index('VersionMismatch')
    n_reach = 0
    try:
        for is_text in (False, True):
            st = State()
            cfgref, cv = make_config(eng, st)
            sfields = [n for n, _ in eng.src.struct_fields('Session', 'src/lib.rs')]
            sess = Opaque('Session', 'sess')
            st.notes[('lazy', sess.ident, sfields.index('config'))] = deref(eng, st, cfgref)
            sref = eng.ref_to(st, sess, True, 'session')
            inp = Enum('Input', 1 if is_text else 0, {1: Tup([StrVal(e=z3.Const('stdin_text', StrSort))]), 0: Tup([Opaque('PathBuf', 'file')])})
            outs = ctx.check_outcomes(eng.run(fii, [sref, inp, eng.fresh_bool('is_macro_def')], st), 'format_input_inner')
            for pi, o in enumerate(outs):
                tag = 'version-gate/%s/p%d' % ('text' if is_text else 'file', pi)
                if o.kind != 'ret':
                    ctx.prop(tag + '/no-panic', o.state.pc, z3.BoolVal(True), [V], replay_version_gate, twin=False)
                    continue
                tr = [t[0] for t in o.state.trace]
                v = o.value
                is_vm = z3.BoolVal(False)
                if isinstance(v, Enum) and 1 in v.payloads and v.payloads[1].items and isinstance(deref(eng, o.state, v.payloads[1].items[0]), Enum):
                    is_vm = z3.And(v.discr == 1, deref(eng, o.state, v.payloads[1].items[0]).discr == VM)
                reached = 'format_project' in tr or 'echo' in tr
                if reached:
                    n_reach += 1
                ctx.prop(tag + '/a-version-mismatch-of-this-input-is-an-error-and-nothing-is-formatted', o.state.pc, z3.And(z3.Not(V), z3.Or(z3.Not(is_vm), z3.BoolVal(reached))), [V], replay_version_gate, twin=False)
                ctx.prop(tag + '/no-mismatch-is-reported-when-the-version-is-accepted', o.state.pc, z3.And(V, is_vm), [V], replay_version_gate, twin=False)
    finally:
        eng.lenient, eng.inline_only, eng.stubs = old
    if not n_reach:
        raise Inconclusive('version gate: no path of format_input_inner reaches format_project')


def replay_version_gate(model, r):
    import hashlib
    bins = ensure_bins()
    rf = os.path.join(bins, 'rustfmt')
    d = os.path.join(BUILD, 'scratch', 'c05v-%d' % os.getpid())
    found = []
    bad_fmt = 'pub fn   f( ) { }\n'
    for order in (('good/src/main.rs', 'pinned/src/lib.rs'), ('pinned/src/lib.rs', 'good/src/main.rs'), ('pinned/src/lib.rs',)):
        shutil.rmtree(d, ignore_errors=True)
        for sub in ('good/src', 'pinned/src'):
            os.makedirs(os.path.join(d, sub))
        files = {'good/src/main.rs': bad_fmt, 'pinned/src/lib.rs': 'mod helper;\n' + bad_fmt, 'pinned/src/helper.rs': bad_fmt}
        for n, t in files.items():
            open(os.path.join(d, n), 'w').write(t)
        open(os.path.join(d, 'pinned/rustfmt.toml'), 'w').write('required_version = "0.99.4"\n')
        before = {n: hashlib.sha256(open(os.path.join(d, n), 'rb').read()).hexdigest() for n in files}
        r_ = subprocess.run([rf] + list(order), capture_output=True, text=True, env=run_env(), timeout=60, cwd=d)
        changed = sorted(n for n in files if hashlib.sha256(open(os.path.join(d, n), 'rb').read()).hexdigest() != before[n])
        if r_.returncode == 0 or any(n.startswith('pinned/') for n in changed):
            found.append('rustfmt %s with pinned/rustfmt.toml requiring another version: exit %d, files rewritten %r' % (' '.join(order), r_.returncode, changed))
    shutil.rmtree(d, ignore_errors=True)
    return {'reproduced': bool(found), 'detail': found}


# ----------------------------------------------------------------------------- how a failing module file is classified
def part_module_file_classification(ctx, eng):
    """Parser::parse_file_as_module with rustc_parse as environment (returns | unwinds), ParseSess::{has_errors, can_reset_errors} and
    Path::exists symbolic: whenever the file exists and the result is an error, the error is ParseError - never the "not found / panic" class the
    module resolver tolerates for alternative #[cfg_attr(.., path)] locations (modules.rs::find_external_module)."""
    import c16
    old = (eng.lenient, eng.inline_only, list(eng.stubs), eng.unsupported_as_outcome)
    eng.lenient = True
    eng.stubs = []
    eng.unsupported_as_outcome = False
    eng.inline_only = [re.compile(r'src/parse/parser\.rs')]
    rustc_call = c16.containment_env(eng)
    eng.stub(c16.RUSTC_PARSE, rustc_call, 'every call into rustc_parse = returns an arbitrary value | unwinds')
    E = z3.Bool('the_module_file_exists')
    eng.stub(r'(std::path::)?Path::exists$', lambda e, s_, a, c: E, 'Path::exists = symbolic')
    pe = eng.enum_variants('ParserError')
    PE = pe.index('ParseError')
    try:
        cands = [r for r in eng.by_method.get('parse_file_as_module', []) if r['file'] == 'src/parse/parser.rs']
        if len(cands) != 1:
            raise Inconclusive('parse_file_as_module not found')
        name = cands[0]['name']
        fn = eng.get_fn(name)
        st = State()
        args = [eng.fresh_of_type(st, ty, 'arg.%s' % pn) for pn, ty in fn.params]
        outs = ctx.check_outcomes(eng.run(name, args, st), 'parse_file_as_module', allow_panic=True)
        n_err = 0
        for pi, o in enumerate(outs):
            if o.kind != 'ret':
                continue        # unwinding out of the entry point is C16's obligation
            v = o.value
            while isinstance(v, Ref):
                v = eng.read_ref(o.state, v)
            if not isinstance(v, Enum) or v.name != 'Result':
                raise Inconclusive('parse_file_as_module returned %r' % (v,))
            if 1 not in v.payloads:
                continue
            n_err += 1
            err = v.payloads[1].items[0]
            while isinstance(err, Ref):
                err = eng.read_ref(o.state, err)
            ctx.prop('module-file/p%d/an-existing-file-that-fails-is-a-parse-error' % pi, o.state.pc, z3.And(v.discr == 1, E, err.discr != PE), [E], replay_module_file, twin=False)
        if not n_err:
            raise Inconclusive('module-file classification: no failing path explored')
    finally:
        eng.lenient, eng.inline_only, eng.stubs, eng.unsupported_as_outcome = old


def replay_module_file(model, r):
    """the default-path file of a module with a cfg_attr(path) alternative exists and is broken: the run must fail and write nothing"""
    import hashlib
    bins = ensure_bins()
    rf = os.path.join(bins, 'rustfmt')
    d = os.path.join(BUILD, 'scratch', 'c05m-%d' % os.getpid())
    found = []
    bad_fmt = 'pub fn   f( ) { }\n'
    for what, broken in (('unterminated string', 'pub fn g() { let s = "abc; }\n'), ('unclosed delimiter', 'pub fn g( {\n'), ('unterminated block comment', 'pub fn g() {}\n/* never closed\n')):
        shutil.rmtree(d, ignore_errors=True)
        os.makedirs(d)
        files = {'main.rs': 'mod bar;\n#[cfg_attr(unix, path = "unix_foo.rs")]\nmod foo;\n' + bad_fmt, 'bar.rs': bad_fmt, 'unix_foo.rs': bad_fmt, 'foo.rs': broken}
        for n, t in files.items():
            open(os.path.join(d, n), 'w').write(t)
        before = {n: hashlib.sha256(open(os.path.join(d, n), 'rb').read()).hexdigest() for n in files}
        r_ = subprocess.run([rf, 'main.rs'], capture_output=True, text=True, env=run_env(), timeout=60, cwd=d)
        changed = sorted(n for n in files if hashlib.sha256(open(os.path.join(d, n), 'rb').read()).hexdigest() != before[n])
        if r_.returncode == 0 or changed:
            found.append('foo.rs exists with an %s next to a cfg_attr(path) alternative: exit %d, files rewritten %r' % (what, r_.returncode, changed))
    shutil.rmtree(d, ignore_errors=True)
    return {'reproduced': bool(found), 'detail': found}


def cli_findings():
    import hashlib
    bins = ensure_bins()
    rf = os.path.join(bins, 'rustfmt')
    d = os.path.join(BUILD, 'scratch', 'c05-%d' % os.getpid())
    found = []
    bad_fmt = 'pub fn   f( ) { }\n'

    def h(p):
        return hashlib.sha256(open(p, 'rb').read()).hexdigest()
    for what, files, args, want_exit, must_change in (
            ('syntax error in an out-of-line module', {'lib.rs': 'mod a;\nmod bad;\n' + bad_fmt, 'a.rs': bad_fmt, 'bad.rs': 'fn f( {\n'}, ['lib.rs'], 1, []),
            ('missing module file', {'lib.rs': 'mod a;\nmod nowhere;\n' + bad_fmt, 'a.rs': bad_fmt}, ['lib.rs'], 1, []),
            ('syntax error in the root', {'lib.rs': 'mod a;\nfn f( {\n', 'a.rs': bad_fmt}, ['lib.rs'], 1, []),
            ('a failing root next to a good one', {'lib.rs': 'mod bad;\n' + bad_fmt, 'bad.rs': 'fn f( {\n', 'other.rs': bad_fmt}, ['lib.rs', 'other.rs'], 1, ['other.rs']),
            ('control: everything parses', {'lib.rs': 'mod a;\n' + bad_fmt, 'a.rs': bad_fmt}, ['lib.rs'], 0, ['lib.rs', 'a.rs'])):
        shutil.rmtree(d, ignore_errors=True)
        os.makedirs(d)
        for n, t in files.items():
            open(os.path.join(d, n), 'w').write(t)
        before = {n: h(os.path.join(d, n)) for n in files}
        r = subprocess.run([rf] + args, capture_output=True, text=True, env=run_env(), timeout=60, cwd=d)
        changed = sorted(n for n in files if h(os.path.join(d, n)) != before[n])
        extra = sorted(set(os.listdir(d)) - set(files))
        if r.returncode != want_exit:
            found.append('%s: exit %d, expected %d' % (what, r.returncode, want_exit))
        if changed != sorted(must_change):
            found.append('%s: files changed %r, expected %r' % (what, changed, sorted(must_change)))
        if extra:
            found.append('%s: new files %r' % (what, extra))
    # a file that cannot be written (open for writing fails): the run must not report success
    shutil.rmtree(d, ignore_errors=True)
    os.makedirs(d)
    for n, t in {'lib.rs': 'mod a;\nmod b;\n' + bad_fmt, 'a.rs': bad_fmt, 'b.rs': bad_fmt}.items():
        open(os.path.join(d, n), 'w').write(t)
    r = subprocess.run(['strace', '-f', '-o', '/dev/null', '-P', os.path.join(d, 'a.rs'), '-e', 'trace=openat,open', '-e', 'inject=openat,open:error=EACCES:when=2+', rf, 'lib.rs'],
                       capture_output=True, text=True, env=run_env(), timeout=120, cwd=d)
    if open(os.path.join(d, 'a.rs')).read() == bad_fmt and r.returncode == 0:
        found.append('a.rs could not be opened for writing (EACCES injected) and was left as it was, but rustfmt exits 0')
    shutil.rmtree(d, ignore_errors=True)
    return found


def make_replay(ctx):
    def replay(model, r):
        f = cli_findings()
        return {'reproduced': bool(f), 'detail': f[:4]}
    return replay


if __name__ == '__main__':
    main_wrapper('C05', build, level='other')
