"""C03 — comments are never silently dropped: text-level kernels of src/comment.rs.

1. is_raw_string_suffix (raw-string terminator look-ahead used by the comment/string segmentation).
2. changed_comment_content (the lost-comment safety net): every comment slice of either text takes part in the payload comparison.
3. CharClasses::next, one step from an arbitrary comment-tracking status: comment opening/closing/nesting and line-comment end.
4. Net wiring: format_stmt, format_expr and rewrite_static hand every rewritten text to the safety net (under-constrained, callees uninterpreted).
List machinery, close_block, comment rewriting and the string/char-literal part of the segmentation need spans/AST or whole texts and are outside."""
from common import *
from mirsym.intrinsics import str_expr, some, NONE
from mirsym.values import StrVal

CF = 'src/comment.rs'


def deref(eng, st, v):
    while isinstance(v, Ref):
        v = eng.read_ref(st, v)
    return v


def install_multipeek(eng, lookahead):
    """itertools::MultiPeek over the harness look-ahead characters: peek() advances a peek cursor, next() resets it."""
    def mp_peek(eng_, st_, args, ci):
        mp = eng_.read_ref(st_, args[0])
        pos, pk = mp.items[0].concrete(), mp.items[1].concrete()
        idx = pos + pk
        if idx < len(lookahead):
            ch, present = lookahead[idx]
            eng_.write_ref(st_, args[0], Tup([bv_const(pos, 'usize'), bv_const(pk + 1, 'usize')], 'MultiPeek'))
            cell = eng_.ref_to(st_, ch, False, 'peeked')
            return Enum('Option', z3.If(present, z3.BitVecVal(1, 64), z3.BitVecVal(0, 64)), {1: Tup([cell])})
        return NONE
    eng.stub(r'MultiPeek::<.*>::peek$', mp_peek, 'itertools MultiPeek::peek: k-th look-ahead character (advances the peek cursor)')

    def mp_next(eng_, st_, args, ci):
        mp = eng_.read_ref(st_, args[0])
        pos = mp.items[0].concrete()
        if pos < len(lookahead):
            ch, present = lookahead[pos]
            eng_.write_ref(st_, args[0], Tup([bv_const(pos + 1, 'usize'), bv_const(0, 'usize')], 'MultiPeek'))
            return Enum('Option', z3.If(present, z3.BitVecVal(1, 64), z3.BitVecVal(0, 64)), {1: Tup([ch])})
        return NONE
    eng.stub(r'MultiPeek<.*> as (std::iter::)?Iterator>::next$', mp_next, 'MultiPeek::next: consumes one character and resets the peek cursor')
    eng.stub(r'as RichChar>::get_char$', lambda e, s, a, c: deref(e, s, a[0]), 'RichChar::get_char for char = the character')


def sym_chars(n, prefix='la'):
    out = []
    for i in range(n):
        c = BV(z3.BitVec('%s%d' % (prefix, i), 32), 'char')
        p = z3.Bool('%s%d.present' % (prefix, i))
        out.append((c, p))
    return out


def char_facts(chars):
    f = []
    for i, (c, p) in enumerate(chars):
        f.append(z3.And(z3.ULE(c.e, 0x10FFFF), z3.Or(z3.ULT(c.e, 0xD800), z3.UGT(c.e, 0xDFFF))))
        if i > 0:
            f.append(z3.Implies(p, chars[i - 1][1]))     # the text ends once
    return f


def build(ctx):
    eng = ctx.engine('lib', loop_bound=12)
    ctx.bounds = {'raw-string sharps': '0..3 with 4 look-ahead characters (any scalar values, text may end anywhere)',
                  'comment slices per text (safety net)': '<= 2 slices of symbolic kind and uninterpreted text in each of the two texts',
                  'segmentation': 'one CharClasses::next step from each of the 14 statuses (comment-tracking and literal-tracking), current character and 2 look-ahead characters symbolic, nesting depth / number of sharps symbolic (< 2^20)'}
    ctx.outside = ['rewriters other than format_stmt / format_expr / rewrite_static calling the safety net; list-item comment attachment; close_block; rewrite_comment word preservation (spans / AST / graphemes)',
                   'agreement of the segmentation with the Rust lexer on whole texts (one step per status is decided; byte / C string prefixes, raw identifiers and unicode escapes are not distinguished by the scanner and not by the reference grammar used here)',
                   'CommentReducer itself (payload is an uninterpreted function of the comment text here)', 'UngroupedCommentCodeSlices (slices are harness-supplied)']
    ctx.assumptions = ['itertools MultiPeek cursor semantics', 'tracing debug! output disabled', 'payload(comment text) is an uninterpreted function; concatenation of at most two payloads compared as sequences']
    part_raw_suffix(ctx, eng)
    part_safety_net(ctx, eng)
    part_segmentation_step(ctx, eng)
    part_literal_step(ctx, eng)
    part_net_wiring(ctx, eng)
    validate(ctx)


# ======================================================================================= 1. is_raw_string_suffix

def part_raw_suffix(ctx, eng):
    rp = make_replay(ctx)
    fn = eng.find('is_raw_string_suffix', free=True)
    for count in range(0, 4):
        la = sym_chars(4)
        install_multipeek(eng, la)
        st = State()
        for f in char_facts(la):
            st.assume(f)
        mp = eng.ref_to(st, Tup([bv_const(0, 'usize'), bv_const(0, 'usize')], 'MultiPeek'), True)
        outs = ctx.check_outcomes(eng.run(fn, [mp, bv_const(count, 'u32')], st), 'is_raw_string_suffix')
        want = z3.And([z3.And(la[i][1], la[i][0].e == 35) for i in range(count)]) if count else z3.BoolVal(True)
        mv = [c.e for c, _ in la] + [p for _, p in la]
        for pi, o in enumerate(outs):
            if o.kind != 'ret':
                ctx.prop('is_raw_string_suffix/count%d/p%d/no-panic' % (count, pi), o.state.pc, z3.BoolVal(True), mv, rp, twin=False)
                continue
            ctx.prop('is_raw_string_suffix/count%d/p%d/true-iff-the-next-count-characters-are-all-#' % (count, pi), o.state.pc, o.value != want, mv, rp)
        eng.stubs = []


# ======================================================================================= 2. the safety net

def part_safety_net(ctx, eng):
    rp = make_replay(ctx)
    ccc = eng.find('changed_comment_content', free=True)
    eng.lenient = True
    eng.inline_only = [re.compile(r'changed_comment_content'), re.compile(r'src/comment\.rs[^>]*>::(eq|ne)$'), re.compile(r'CodeCharKind as PartialEq')]
    # small helpers of the kernel that live in the same file (a nested fn instead of a closure) are inlined too; anything bigger stays a call
    eng.inline_pred = lambda e, name, callee: e.fn_file(name) == 'src/comment.rs' and len(e.get_fn(name).blocks) <= 12
    eng.ignored.append(re.compile(r'tracing|LevelFilter|DefaultCallsite|Interest|FieldSet|ValueSet|Event::|Metadata|fmt::|Arguments::'))
    eng.stub(r'^__is_enabled$', lambda e, s, a, c: z3.BoolVal(False), 'tracing debug! disabled')
    eng.stub(r'tracing::Level as PartialOrd<LevelFilter>>::le$', lambda e, s, a, c: z3.BoolVal(False), 'tracing level check: disabled')
    from mirsym.engine import StrSort
    payload = z3.Function('comment_payload', StrSort, z3.IntSort())      # abstract payload (0 = empty)
    ck = eng.enum_variants('CodeCharKind')
    COMMENT = ck.index('Comment')
    texts = {}

    def slices_new(eng_, st_, args, ci):
        code = deref(eng_, st_, args[0])
        key = code.e.decl().name() if code.e is not None else code.s
        cell = eng_.ref_to(st_, Seq(texts[key]), True, 'slices')
        return Tup([cell, bv_const(0, 'usize')], 'OwnedIter')
    eng.stub(r'UngroupedCommentCodeSlices::<.*>::new$|UngroupedCommentCodeSlices::new$', slices_new, 'UngroupedCommentCodeSlices::new(code) = the harness slice list of that text')
    eng.stub(r'UngroupedCommentCodeSlices<.*> as (std::iter::)?Iterator>::filter::<', lambda e, s, a, c: Tup([a[0], a[1]], 'Filter'), 'Iterator::filter (lazy)')
    eng.stub(r'as (std::iter::)?Iterator>::flat_map::<', lambda e, s, a, c: Tup([a[0], a[1]], 'Map'), 'Iterator::flat_map (lazy; one reducer per slice)')
    eng.stub(r'CommentReducer::<.*>::new$|CommentReducer::new$', lambda e, s, a, c: Tup([deref(e, s, a[0])], 'Reducer'), 'CommentReducer::new(text) = the payload character stream of that comment (abstract)')

    def iter_ne(eng_, st_, args, ci):
        from mirsym.intrinsics import drain
        res = []
        for (s1, la) in drain(eng_, st_, args[0]):
            for (s2, lb) in drain(eng_, s1, args[1]):
                s2.trace.append(('ne', tuple(la), tuple(lb)))
                res.append((s2, 'ret', seq_ne(la, lb)))
        return res

    def seq_ne(la, lb):
        # flattened payload streams differ; with <= 2 reducers per side, empty payloads vanish
        pa = [payload(str_expr(r_.items[0])) for r_ in la]
        pb = [payload(str_expr(r_.items[0])) for r_ in lb]
        return z3.Not(streams_equal(pa, pb))
    eng.stub(r'as (std::iter::)?Iterator>::ne::<', iter_ne, 'Iterator::ne on the two flattened payload streams')

    def streams_equal(pa, pb):
        # compare after dropping empty payloads (payload 0); enumerate which are empty
        import itertools
        cases = []
        for ea in itertools.product([False, True], repeat=len(pa)):
            for eb in itertools.product([False, True], repeat=len(pb)):
                cond = [(p == 0) if e else (p != 0) for p, e in zip(pa, ea)] + [(p == 0) if e else (p != 0) for p, e in zip(pb, eb)]
                ka = [p for p, e in zip(pa, ea) if not e]
                kb = [p for p, e in zip(pb, eb) if not e]
                if len(ka) != len(kb):
                    eq = z3.BoolVal(False)       # abstract payloads are atomic: different numbers of non-empty payloads are taken as different
                else:
                    eq = z3.And([x == y for x, y in zip(ka, kb)]) if ka else z3.BoolVal(True)
                cases.append(z3.And(cond + [eq]))
        return z3.Or(cases)
    maxs = 2
    for na in range(0, maxs + 1):
        for nb in range(0, maxs + 1):
            st = State()
            orig, new = eng.fresh_str('orig'), eng.fresh_str('new')

            def mk(name, n):
                out, kinds, txts = [], [], []
                for i in range(n):
                    k = z3.BitVec('%s.slice%d.kind' % (name, i), 64)
                    st.assume(z3.Or(k == 0, k == 1))
                    t = eng.fresh_str('%s.slice%d.text' % (name, i))
                    out.append(Tup([Enum('CodeCharKind', k, {}), bv_const(i, 'usize'), t]))
                    kinds.append(k)
                    txts.append(t)
                return out, kinds, txts
            sa, ka, ta = mk('orig', na)
            sb, kb, tb = mk('new', nb)
            texts[orig.e.decl().name()] = sa
            texts[new.e.decl().name()] = sb
            outs = ctx.check_outcomes(eng.run(ccc, [orig, new], st), 'changed_comment_content')
            mv = ka + kb
            for pi, o in enumerate(outs):
                if o.kind != 'ret':
                    continue
                # specification: the streams of *all* comment slices
                import itertools
                spec_cases = []
                for sel_a in itertools.product([False, True], repeat=na):
                    for sel_b in itertools.product([False, True], repeat=nb):
                        cond = [(k == COMMENT) if s_ else (k != COMMENT) for k, s_ in zip(ka, sel_a)] + [(k == COMMENT) if s_ else (k != COMMENT) for k, s_ in zip(kb, sel_b)]
                        pa = [payload(t.e) for t, s_ in zip(ta, sel_a) if s_]
                        pb = [payload(t.e) for t, s_ in zip(tb, sel_b) if s_]
                        spec_cases.append(z3.And(cond + [z3.Not(streams_equal(pa, pb))]))
                spec_changed = z3.Or(spec_cases)
                ctx.prop('changed_comment_content/%d-%d/p%d/changed-iff-the-comment-payloads-of-all-comment-slices-differ' % (na, nb, pi), o.state.pc, o.value != spec_changed, mv, rp)
    eng.stubs = []
    eng.ignored = []
    eng.lenient = False
    eng.inline_only = None
    eng.inline_pred = None


# ======================================================================================= 3. segmentation, one step

def part_segmentation_step(ctx, eng):
    rp = make_replay(ctx)
    nx = None
    for r in eng.records:
        if r['is_plain'] and r['method'] == 'next' and r['file'] == CF and r['trait'] == 'Iterator' and 'CharClasses' in (eng._first_param_ty(r) or ''):
            nx = r['name']
    if nx is None:
        raise Inconclusive('CharClasses::next not found')
    sv = eng.enum_variants('CharClassesStatus')
    kv = eng.enum_variants('FullCodeCharKind')
    K = {k: i for i, k in enumerate(kv)}
    S = {k: i for i, k in enumerate(sv)}
    cf = [n for n, _ in eng.src.struct_fields('CharClasses', CF)]
    for status in ('Normal', 'BlockComment', 'BlockCommentOpening', 'BlockCommentClosing', 'LineComment', 'StringInBlockComment'):
        la = sym_chars(3)
        install_multipeek(eng, la)
        st = State()
        for f in char_facts(la):
            st.assume(f)
        st.assume(la[0][1])         # there is a current character
        depth = BV(z3.BitVec('depth', 32), 'u32')
        st.assume(z3.And(z3.UGE(depth.e, 1), z3.ULT(depth.e, 1 << 20)))
        payloads = {S[status]: Tup([depth])} if status in ('BlockComment', 'BlockCommentOpening', 'BlockCommentClosing', 'StringInBlockComment') else {S[status]: Tup([])}
        if status == 'BlockCommentClosing':
            # the field holds the depth *after* closing: may be 0
            st.pc.pop()
            st.assume(z3.ULT(depth.e, 1 << 20))
        if status == 'BlockCommentOpening':
            st.assume(la[0][0].e == 42)       # the '/' of "/*" has been consumed: the current character is '*' (asserted by the code)
        if status == 'BlockCommentClosing':
            st.assume(la[0][0].e == 47)
        vals = [None] * len(cf)
        vals[cf.index('base')] = Tup([bv_const(0, 'usize'), bv_const(0, 'usize')], 'MultiPeek')
        vals[cf.index('status')] = Enum('CharClassesStatus', S[status], payloads)
        selfref = eng.ref_to(st, Tup(vals, 'CharClasses'), True)
        outs = ctx.check_outcomes(eng.run(nx, [selfref], st), 'CharClasses::next from ' + status)
        cur, n1 = la[0][0].e, la[1][0].e
        has1 = la[1][1]
        mv = [cur, n1, la[2][0].e, depth.e, has1]
        for pi, o in enumerate(outs):
            tag = 'CharClasses::next/%s/p%d' % (status, pi)
            if o.kind != 'ret':
                ctx.prop(tag + '/no-panic', o.state.pc, z3.BoolVal(True), mv, rp, twin=False)
                continue
            v = o.value
            if 1 not in v.payloads:
                continue
            kind = v.payloads[1].items[0].items[0]
            after = eng.read_ref(o.state, selfref).items[cf.index('status')]
            is_comment_kind = z3.Or([kind.discr == K[k] for k in ('StartComment', 'InComment', 'EndComment', 'StartStringCommented', 'InStringCommented', 'EndStringCommented')])

            def st_is(name):
                return after.discr == S[name]

            def st_depth(name):
                pl = after.payloads.get(S[name])
                return pl.items[0].e if pl is not None and pl.items else None
            some_ret = v.discr == 1
            pc = o.state.pc + [some_ret]
            if status == 'Normal':
                opens_block = z3.And(cur == 47, has1, n1 == 42)
                opens_line = z3.And(cur == 47, has1, n1 == 47)
                ctx.prop(tag + '/slash-star-and-slash-slash-start-a-comment-and-nothing-else-does', pc,
                         (kind.discr == K['StartComment']) != z3.Or(opens_block, opens_line), mv, rp)
                ctx.prop(tag + '/comment-start-enters-the-right-status', pc,
                         z3.Or(z3.And(opens_block, z3.Not(z3.And(st_is('BlockCommentOpening'), depth_eq(st_depth('BlockCommentOpening'), 1)))), z3.And(opens_line, z3.Not(st_is('LineComment')))), mv, rp)
                ctx.prop(tag + '/code-characters-are-not-labelled-comment', pc, z3.And(is_comment_kind, z3.Not(z3.Or(opens_block, opens_line))), mv, rp)
            elif status == 'LineComment':
                ctx.prop(tag + '/line-comment-ends-exactly-at-the-newline', pc, z3.Or((kind.discr == K['EndComment']) != (cur == 10), st_is('Normal') != (cur == 10),
                                                                                z3.And(cur != 10, z3.Not(st_is('LineComment'))), z3.Not(is_comment_kind)), mv, rp)
            elif status == 'BlockCommentOpening':
                ctx.prop(tag + '/after-the-opening-star-we-are-inside-the-comment-at-that-depth', pc, z3.Not(z3.And(st_is('BlockComment'), depth_eq(st_depth('BlockComment'), depth.e), is_comment_kind)), mv, rp)
            elif status == 'BlockCommentClosing':
                ended = depth.e == 0
                ctx.prop(tag + '/closing-slash-ends-the-comment-iff-depth-reaches-zero', pc,
                         z3.Or(z3.And(ended, z3.Not(z3.And(st_is('Normal'), kind.discr == K['EndComment']))),
                               z3.And(z3.Not(ended), z3.Not(z3.And(st_is('BlockComment'), depth_eq(st_depth('BlockComment'), depth.e), kind.discr == K['InComment'])))), mv, rp)
            elif status == 'BlockComment':
                closes = z3.And(cur == 42, has1, n1 == 47)
                opens = z3.And(cur == 47, has1, n1 == 42)
                ctx.prop(tag + '/nesting-is-counted', pc,
                         z3.Or(z3.And(closes, z3.Not(z3.And(st_is('BlockCommentClosing'), depth_eq(st_depth('BlockCommentClosing'), depth.e - 1)))),
                               z3.And(opens, z3.Not(z3.And(st_is('BlockCommentOpening'), depth_eq(st_depth('BlockCommentOpening'), depth.e + 1)))),
                               z3.And(z3.Not(closes), z3.Not(opens), cur != 34, z3.Not(z3.And(st_is('BlockComment'), depth_eq(st_depth('BlockComment'), depth.e)))),
                               z3.Not(is_comment_kind)), mv, rp)
            elif status == 'StringInBlockComment':
                closes = z3.And(cur == 42, has1, n1 == 47)
                ctx.prop(tag + '/a-quoted-run-inside-a-block-comment-stays-comment', pc,
                         z3.Or(z3.Not(is_comment_kind), z3.And(closes, z3.Not(z3.And(st_is('BlockCommentClosing'), depth_eq(st_depth('BlockCommentClosing'), depth.e - 1)))),
                               z3.And(cur == 34, z3.Not(z3.And(st_is('BlockComment'), depth_eq(st_depth('BlockComment'), depth.e))))), mv, rp)
        eng.stubs = []


# ======================================================================================= (3b) the literal-tracking statuses of the segmentation
def part_literal_step(ctx, eng):
    """One CharClasses::next step from each literal-tracking status (and the literal-opening part of Normal) against the lexical grammar
    of Rust literals: a string runs to the next unescaped `"`, a character literal starts at `'` followed by a backslash or by one character and
    `'` (anything else is a lifetime), a raw string r#..#"..."#..# is delimited by its sharps; no character inside a literal is labelled comment
    and no literal status is left except by its closing delimiter.  (What swallows or invents a comment for the safety net is exactly a wrong
    literal boundary.)"""
    rp = make_replay(ctx, 'literals')
    nx = None
    for r in eng.records:
        if r['is_plain'] and r['method'] == 'next' and r['file'] == CF and r['trait'] == 'Iterator' and 'CharClasses' in (eng._first_param_ty(r) or ''):
            nx = r['name']
    sv = eng.enum_variants('CharClassesStatus')
    kv = eng.enum_variants('FullCodeCharKind')
    K = {k: i for i, k in enumerate(kv)}
    S = {k: i for i, k in enumerate(sv)}
    cf = [n for n, _ in eng.src.struct_fields('CharClasses', CF)]
    QUOTE, APOS, BSL, SHARP, R = 34, 39, 92, 35, 114
    for status in ('Normal', 'LitString', 'LitStringEscape', 'LitChar', 'LitCharEscape', 'RawStringPrefix', 'LitRawString', 'RawStringSuffix'):
        la = sym_chars(3)
        install_multipeek(eng, la)
        suffix_follows = z3.Bool('raw_suffix_follows')
        asked = []

        def raw_suffix(e, s_, a, c):
            s_.trace.append(('suffix_arg', a[1]))
            return suffix_follows
        eng.stub(r'(^|::)is_raw_string_suffix::<', raw_suffix, 'is_raw_string_suffix(base, n) = symbolic (decided separately in part 1); n is observed')
        st = State()
        for f in char_facts(la):
            st.assume(f)
        st.assume(la[0][1])
        sharps = BV(z3.BitVec('sharps', 32), 'u32')
        st.assume(z3.ULT(sharps.e, 1 << 20))
        if status == 'RawStringSuffix':
            st.assume(z3.UGE(sharps.e, 1))       # the status is only entered with the sharps still to come
        has_pl = status in ('RawStringPrefix', 'LitRawString', 'RawStringSuffix')
        vals = [None] * len(cf)
        vals[cf.index('base')] = Tup([bv_const(0, 'usize'), bv_const(0, 'usize')], 'MultiPeek')
        vals[cf.index('status')] = Enum('CharClassesStatus', S[status], {S[status]: Tup([sharps] if has_pl else [])})
        selfref = eng.ref_to(st, Tup(vals, 'CharClasses'), True)
        outs = ctx.check_outcomes(eng.run(nx, [selfref], st), 'CharClasses::next from ' + status)
        cur, n1, n2 = la[0][0].e, la[1][0].e, la[2][0].e
        has1, has2 = la[1][1], la[2][1]
        mv = [cur, n1, n2, sharps.e, has1, has2, suffix_follows]
        for pi, o in enumerate(outs):
            tag = 'CharClasses::next/literal/%s/p%d' % (status, pi)
            if o.kind != 'ret':
                ctx.prop(tag + '/no-panic', o.state.pc, z3.BoolVal(True), mv, rp, twin=False)
                continue
            v = o.value
            if 1 not in v.payloads:
                continue
            kind = v.payloads[1].items[0].items[0]
            after = eng.read_ref(o.state, selfref).items[cf.index('status')]
            is_comment_kind = z3.Or([kind.discr == K[k] for k in ('StartComment', 'InComment', 'EndComment', 'StartStringCommented', 'InStringCommented', 'EndStringCommented')])
            in_string = kind.discr == K['InString']

            def st_is(name, n=None):
                c = after.discr == S[name]
                if n is not None:
                    pl = after.payloads.get(S[name])
                    if pl is None or not pl.items:
                        return z3.BoolVal(False)
                    c = z3.And(c, pl.items[0].e == n)
                return c
            pc = o.state.pc + [v.discr == 1]
            for t in o.state.trace:
                if t[0] == 'suffix_arg':
                    ctx.prop(tag + '/the-suffix-is-looked-for-with-the-number-of-sharps-of-the-prefix', pc, t[1].e != sharps.e, mv, rp, twin=False)
            if status == 'Normal':
                lit_start = z3.Or(cur == QUOTE, cur == APOS, z3.And(cur == R, has1, z3.Or(n1 == SHARP, n1 == QUOTE)))
                starts_comment = z3.And(cur == 47, has1, z3.Or(n1 == 42, n1 == 47))
                char_lit = z3.And(cur == APOS, z3.Or(z3.And(has1, n1 == BSL), z3.And(has2, n2 == APOS)))
                ctx.prop(tag + '/a-double-quote-opens-a-string', pc, z3.And(cur == QUOTE, z3.Not(z3.And(st_is('LitString'), in_string))), mv, rp)
                ctx.prop(tag + '/an-apostrophe-opens-a-character-literal-iff-a-backslash-or-x-apostrophe-follows', pc,
                         z3.And(cur == APOS, z3.Or(z3.And(char_lit, z3.Not(st_is('LitChar'))), z3.And(z3.Not(char_lit), z3.Not(st_is('Normal'))))), mv, rp)
                ctx.prop(tag + '/r-followed-by-sharp-or-quote-opens-a-raw-string', pc,
                         z3.And(cur == R, has1, z3.Or(n1 == SHARP, n1 == QUOTE), z3.Not(z3.And(st_is('RawStringPrefix', 0), in_string))), mv, rp)
                ctx.prop(tag + '/nothing-else-leaves-the-code-status', pc, z3.And(z3.Not(lit_start), z3.Not(starts_comment), z3.Not(z3.And(st_is('Normal'), kind.discr == K['Normal']))), mv, rp)
                continue
            ctx.prop(tag + '/no-character-of-a-literal-is-labelled-comment', pc, is_comment_kind, mv, rp)
            if status == 'LitString':
                ctx.prop(tag + '/a-string-ends-at-an-unescaped-quote-only', pc,
                         z3.Or(z3.Not(in_string), z3.And(cur == QUOTE, z3.Not(st_is('Normal'))), z3.And(cur == BSL, z3.Not(st_is('LitStringEscape'))),
                               z3.And(cur != QUOTE, cur != BSL, z3.Not(st_is('LitString')))), mv, rp)
            elif status == 'LitStringEscape':
                ctx.prop(tag + '/the-escaped-character-stays-in-the-string', pc, z3.Not(z3.And(st_is('LitString'), in_string)), mv, rp)
            elif status == 'LitChar':
                ctx.prop(tag + '/a-character-literal-ends-at-an-unescaped-apostrophe-only', pc,
                         z3.Or(z3.And(cur == APOS, z3.Not(st_is('Normal'))), z3.And(cur == BSL, z3.Not(st_is('LitCharEscape'))),
                               z3.And(cur != APOS, cur != BSL, z3.Not(st_is('LitChar')))), mv, rp)
            elif status == 'LitCharEscape':
                ctx.prop(tag + '/the-escaped-character-stays-in-the-literal', pc, z3.Not(st_is('LitChar')), mv, rp)
            elif status == 'RawStringPrefix':
                ctx.prop(tag + '/sharps-are-counted-and-the-quote-opens-the-body', pc,
                         z3.Or(z3.And(cur == SHARP, z3.Not(z3.And(st_is('RawStringPrefix', sharps.e + 1), in_string))),
                               z3.And(cur == QUOTE, z3.Not(z3.And(st_is('LitRawString', sharps.e), in_string)))), mv, rp)
            elif status == 'LitRawString':
                ctx.prop(tag + '/a-raw-string-ends-at-a-quote-followed-by-its-sharps-only', pc,
                         z3.Or(z3.And(cur != QUOTE, z3.Not(z3.And(st_is('LitRawString', sharps.e), in_string))),
                               z3.And(cur == QUOTE, sharps.e == 0, z3.Not(st_is('Normal'))),
                               z3.And(cur == QUOTE, sharps.e != 0, suffix_follows, z3.Not(z3.And(st_is('RawStringSuffix', sharps.e), in_string))),
                               z3.And(cur == QUOTE, sharps.e != 0, z3.Not(suffix_follows), z3.Not(z3.And(st_is('LitRawString', sharps.e), in_string)))), mv, rp)
            elif status == 'RawStringSuffix':
                ctx.prop(tag + '/the-closing-sharps-are-counted-down', pc,
                         z3.And(cur == SHARP, z3.Or(z3.And(sharps.e == 1, z3.Not(st_is('Normal'))), z3.And(sharps.e != 1, z3.Not(z3.And(st_is('RawStringSuffix', sharps.e - 1), in_string))))), mv, rp)
        eng.stubs = []


# ======================================================================================= (4) every rewriter named in the anchors hands its result to the safety net
WIRED = [
    dict(method='format_stmt', kind='result', strict=True),        # stmt.rs: the value returned IS the net's result
    dict(method='rewrite_static', kind='option', strict=False),     # items.rs: `;` may be appended afterwards
    dict(method='format_expr', kind='result', strict=False),        # expr.rs: attributes are combined afterwards
]


def part_net_wiring(ctx, eng):
    """Under-constrained, every callee uninterpreted: on every path on which format_stmt / format_expr / rewrite_static returns a
    text (Ok / Some), either that text is the source snippet copied verbatim, or recover_comment_removed was applied to the rewritten
    text on that path with the node's own span. A path that returns a rewritten text past the net can lose a comment silently."""
    rp = make_replay(ctx, 'wiring')
    for spec in WIRED:
        name = eng.find(spec['method'], free=True)
        fn = eng.get_fn(name)
        eng.stubs = []
        eng.lenient = True
        eng.unsupported_as_outcome = True
        eng.inline_only = [re.compile(re.escape(spec['method']) + '$')]

        def rcr(e, s_, a, c):
            tok = e.fresh_str('net')
            s_.trace.append(('net', a[0], a[1], tok))
            return tok

        def snip(e, s_, a, c):
            tok = e.fresh_str('snippet')
            s_.trace.append(('snippet', tok))
            return tok
        eng.stub(r'recover_comment_removed$', rcr, 'recover_comment_removed(new, span, context): observed, result = a fresh text')
        eng.stub(r'RewriteContext::<.*>::snippet$|RewriteContext::snippet$', snip, 'RewriteContext::snippet(span) = the source text (a fresh text, observed)')
        eng.stub(r'FileLines::is_all$', lambda e, s_, a, c: z3.BoolVal(True), 'no --file-lines selection')
        st = State()
        args = [eng.fresh_of_type(st, ty, 'a%d' % i) for i, (_, ty) in enumerate(fn.params)]
        eng.block_budget = 400000
        try:
            outs = eng.run(name, args, st)
        except Budget:
            raise Inconclusive('net wiring: block budget exhausted in %s' % spec['method'])
        finally:
            eng.block_budget = None
            eng.unsupported_as_outcome = False
        ctx.paths += len(outs)
        nret = nnet = 0
        cut = [o for o in outs if o.kind in ('unsupported', 'unwind')]
        for pi, o in enumerate(outs):
            if o.kind != 'ret':
                continue
            v = o.value
            if not isinstance(v, Enum):
                raise Inconclusive('net wiring: %s returns %r' % (spec['method'], v))
            good = 0 if spec['kind'] == 'result' else 1
            pay = v.payloads.get(good)
            if pay is None:
                continue                           # this path can only return Err / None
            is_text = v.discr == good
            if not eng.feasible(o.state, is_text):
                continue
            nret += 1
            nets = [t for t in o.state.trace if t[0] == 'net']
            snippets = [t[1] for t in o.state.trace if t[0] == 'snippet']
            text = pay.items[0]
            verbatim = isinstance(text, StrVal) and any(text is s_ or (text.e is not None and s_.e is not None and text.e.eq(s_.e)) for s_ in snippets)
            label = 'net-wiring/%s/p%d' % (spec['method'], pi)
            if nets:
                nnet += 1
                if spec['strict']:
                    same = isinstance(text, StrVal) and text.e is not None and text.e.eq(nets[-1][3].e)
                    ctx.prop(label + '/returns-the-net-result', o.state.pc + [is_text], z3.BoolVal(not same), [], rp, twin=False)
                continue
            ctx.prop(label + '/a-rewritten-text-passes-the-safety-net(or is the verbatim snippet)', o.state.pc + [is_text], z3.BoolVal(not verbatim), [], rp, twin=False)
        if nnet == 0:
            ctx.inconclusive.append('net wiring: no path of %s reaches recover_comment_removed' % spec['method'])
        if cut:
            ctx.notes.append('net wiring/%s: %d of %d paths ended outside the executor (%s) and are not covered' % (spec['method'], len(cut), len(outs), str(cut[0].info)[:80]))
        log('[C03] net wiring %s: %d paths, %d return a text, %d of them through the net' % (spec['method'], len(outs), nret, nnet))
    eng.stubs = []
    eng.lenient = False
    eng.inline_only = None


def depth_eq(d, want):
    if d is None:
        return z3.BoolVal(False)
    if isinstance(want, int):
        return d == want
    return d == want


# ----------------------------------------------------------------------------- native

CASES = [
    ('raw string with "# inside, then a comment', 'fn f() {\n    let n = r##"say "#hi"##.len() as /* bytes, not chars */ u64;\n}\n', ['bytes, not chars']),
    ('banner comment in an expression', 'fn f() {\n    let p = x as /*** keep me ***/ u32;\n}\n', ['keep me']),
    ('banner comment before =', 'fn f() {\n    let p /******** also me ********/ = 1;\n}\n', ['also me']),
    ('nested block comment', 'fn f() {\n    let a = 1; /* outer1 /* inner2 */ tail3 */\n    let b = 2;\n}\n', ['outer1', 'inner2', 'tail3']),
    ('line comment after statement', 'fn f() {\n    let a = 1; // trailing one\n    let b = 2;\n}\n', ['trailing one']),
    ('char literals and lifetimes', "fn f<'a>(x: &'a str) -> char {\n    let q = '\"'; // after quote char\n    let s = '\\''; /* after escaped */\n    q\n}\n", ['after quote char', 'after escaped']),
    ('raw string then comment', 'fn f() {\n    let s = r#"// not a comment "# ; // real one\n}\n', ['real one']),
]


LITERAL_CASES = [
    ('escaped double quote as a character', 'fn f(c: char) -> bool {\n    let e = c == \'\\"\' || /* lit1 */ c == \'x\';\n    e\n}\n', ['lit1']),
    ('escaped apostrophe as a character', "fn f(c: char) -> bool {\n    let e = c == '\\'' || /* lit2 */ c == 'x';\n    e\n}\n", ['lit2']),
    ('double quote as a character', 'fn f(c: char) -> bool {\n    let e = c == \'"\' || /* lit3 */ c == \'x\';\n    e\n}\n', ['lit3']),
    ('byte literal with an escaped quote', 'fn f(c: u8) -> bool {\n    let e = c == b\'\\"\' || /* lit4 */ c == b\'x\';\n    e\n}\n', ['lit4']),
    ('string ending in an escaped backslash', 'fn f(s: &str) -> bool {\n    let e = s == "a\\\\" || /* lit5 */ s == "b";\n    e\n}\n', ['lit5']),
    ('string with an escaped quote and comment openers', 'fn f(s: &str) -> bool {\n    let e = s == "\\"/*" || /* lit6 */ s == "//";\n    e\n}\n', ['lit6']),
    ('lifetime then comment', "fn f<'a>(x: &'a u8, y: &'a u8) -> bool {\n    let e = x == y || /* lit7 */ *x == 1;\n    e\n}\n", ['lit7']),
    ('raw string with quote and sharps', 'fn f(s: &str) -> bool {\n    let e = s == r##"a"#b"## || /* lit8 */ s == r"c";\n    e\n}\n', ['lit8']),
]


WIRING_CASES = [
    ('const with value', 'const /* w1 */ A: u8 = 1;\n', ['w1']),
    ('static with value', 'static B /* w2 */ : u8 = 2;\n', ['w2']),
    ('associated const without value', 'trait T {\n    const /* w3 */ X: u8;\n    const Y /* w4 */ : u8;\n}\n', ['w3', 'w4']),
    ('let statement', 'fn f() {\n    let /* w6 */ a = 1;\n    let b /* w7 */ : u8 = 2;\n}\n', ['w6', 'w7']),
    ('expression', 'fn f() {\n    g(a as /* w8 */ u8);\n    h(!/* w9 */ b);\n}\n', ['w8', 'w9']),
    ('const item in a body', 'fn f() {\n    const /* w10 */ K: u8 = 3;\n}\n', ['w10']),
]


def native_findings(which=None):
    bins = ensure_bins()
    rf = os.path.join(bins, 'rustfmt')
    d = os.path.join(BUILD, 'scratch', 'c03-%d' % os.getpid())
    shutil.rmtree(d, ignore_errors=True)
    os.makedirs(d)
    found = []
    for name, src, words in (WIRING_CASES if which == 'wiring' else LITERAL_CASES if which == 'literals' else CASES + WIRING_CASES + LITERAL_CASES):
        p = os.path.join(d, 'x.rs')
        open(p, 'w').write(src)
        for cfg in ('max_width=100', 'max_width=40', 'normalize_comments=true,wrap_comments=true'):
            r = subprocess.run([rf, '--emit', 'stdout', '--quiet', '--config', cfg, p], capture_output=True, text=True, env=run_env(), timeout=60)
            for w in words:
                if r.returncode == 0 and r.stdout.count(w) != 1:
                    found.append('%s [%s]: comment text %r appears %d times in the output' % (name, cfg, w, r.stdout.count(w)))
    shutil.rmtree(d, ignore_errors=True)
    return found


def make_replay(ctx, which=None):
    cache = {}

    def replay(model, r):
        if 'f' not in cache:
            cache['f'] = native_findings(which)
        f = cache['f']
        return {'reproduced': bool(f), 'detail': f[:4]}
    return replay


def validate(ctx):
    f = native_findings()
    ctx.validated += len(CASES)
    ctx.validation_detail.append({'native_findings_on_this_tree': f[:3]})


if __name__ == '__main__':
    main_wrapper('C03', build)
