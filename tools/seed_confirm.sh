#!/bin/bash
# usage: seed_confirm.sh <worktree> <n> <outdir>   -- confirms a seeded change: demo fails with it, suite passes with it, demo passes without it
WT=$1; N=$2; OUT=$3
set -u
cd "$WT" || exit 2
git checkout -q -- . || exit 2
export CARGO_TARGET_DIR=$WT/target
export LD_LIBRARY_PATH=$(rustc --print sysroot)/lib
LOG=$OUT/confirm.log
mkdir -p "$OUT"
: > "$LOG"
git apply --check OUT/$N/patch.diff >>"$LOG" 2>&1 || { echo "patch does not apply" | tee -a "$LOG"; exit 3; }
git apply OUT/$N/patch.diff
cargo build --offline -j 8 >>"$LOG" 2>&1 || { echo "BUILD FAILED with change" | tee -a "$LOG"; git checkout -q -- .; exit 4; }
bash OUT/$N/demo.sh "$WT" >>"$LOG" 2>&1; DEMO_WITH=$?
cargo nextest run --workspace --no-fail-fast --offline -j 8 >>"$LOG" 2>&1; SUITE=$?
SUMMARY=$(grep -E "Summary" "$LOG" | tail -1)
git checkout -q -- .
cargo build --offline -j 8 >>"$LOG" 2>&1
bash OUT/$N/demo.sh "$WT" >>"$LOG" 2>&1; DEMO_WITHOUT=$?
echo "demo_with_change_exit=$DEMO_WITH suite_exit=$SUITE demo_without_change_exit=$DEMO_WITHOUT summary=$SUMMARY" | tee -a "$LOG"
if [ $DEMO_WITH -ne 0 ] && [ $SUITE -eq 0 ] && [ $DEMO_WITHOUT -eq 0 ]; then echo CONFIRMED | tee -a "$LOG"; exit 0; fi
echo NOT-CONFIRMED | tee -a "$LOG"; exit 1
