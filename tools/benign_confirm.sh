#!/bin/bash
# usage: benign_confirm.sh <worktree> <n>   -- a behaviour-preserving refactoring: applies, builds without warnings, the 289 tests pass
WT=$1; N=$2
set -u
cd "$WT" || exit 2
git checkout -q -- . || exit 2
export CARGO_TARGET_DIR=$WT/target
export LD_LIBRARY_PATH=$(rustc --print sysroot)/lib
LOG=$WT/OUT/$N/confirm.log
: > "$LOG"
git apply --check OUT/$N/patch.diff >>"$LOG" 2>&1 || { echo "patch does not apply" | tee -a "$LOG"; exit 3; }
git apply OUT/$N/patch.diff
cargo build --offline -j 8 >>"$LOG" 2>&1 || { echo "BUILD FAILED" | tee -a "$LOG"; git checkout -q -- .; exit 4; }
cargo nextest run --workspace --no-fail-fast --offline -j 8 >>"$LOG" 2>&1; SUITE=$?
SUMMARY=$(grep -E "Summary" "$LOG" | tail -1)
git checkout -q -- .
echo "suite_exit=$SUITE summary=$SUMMARY" | tee -a "$LOG"
[ $SUITE -eq 0 ] && { echo CONFIRMED | tee -a "$LOG"; exit 0; }
echo NOT-CONFIRMED | tee -a "$LOG"; exit 1
