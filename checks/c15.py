"""C15 — the exit status of a multi-file invocation is the maximum of the single-file statuses; the only state shared
between inputs (Session.errors, Session.config) is combined monotonically / restored.

The byte-level clause (output independent of earlier inputs) needs the formatter and the parse session and is outside."""
from common import *
import binmodel


def build(ctx):
    ctx.level = 'other'
    ctx.bounds = {'input files per invocation': '0..2 (quick) / 0..3 (thorough); the loop body is the same for every file',
                  'error flags': 'all 7 ReportedErrors flags symbolic'}
    ctx.outside = ['byte-level independence of the formatted text from earlier inputs (needs the formatter and ParseSess)', 'stdin vs path', 'emission order (BTreeMap)',
                   'working directory and environment']
    ctx.assumptions = ['formatting an input does not assign session.config and only raises error flags (frame condition of format_and_emit_report; '
                       'ReportedErrors::add is proved to OR)', 'load_config / Session::new / Path probes / printing are uninterpreted']
    lib = ctx.engine('lib')
    flags = binmodel.reported_errors_fields(lib)
    add = lib.find('add', self_ty='ReportedErrors', file='src/formatting.rs')
    st = State()
    a = [z3.Bool('self.' + f) for f in flags]
    b = [z3.Bool('other.' + f) for f in flags]
    ra = lib.ref_to(st, Tup(a, 'ReportedErrors'), True)
    rb = lib.ref_to(st, Tup(b, 'ReportedErrors'), False)
    for i, o in enumerate(ctx.check_outcomes(lib.run(add, [ra, rb], st), 'ReportedErrors::add')):
        after = lib.read_ref(o.state, ra).items
        for j, f in enumerate(flags):
            ctx.prop('ReportedErrors::add/p%d/%s-is-or' % (i, f), o.state.pc, after[j] != z3.Or(a[j], b[j]), a + b, replay_cli(ctx))

    # override_config: swap in, run f, swap back
    lib.lenient = True
    oc = lib.find('override_config', self_ty='Session', file='src/lib.rs')
    cfg_idx = lib.src.field_index('Session', 'config', 'src/lib.rs')
    st = State()
    c0, c1 = Opaque('Config', 'session-config'), Opaque('Config', 'local-config')
    sess = Opaque('Session', 'S')
    st.notes[('lazy', sess.ident, cfg_idx)] = c0
    sfields = [n for n, _ in lib.src.struct_fields('Session', 'src/lib.rs')]
    for j, n in enumerate(sfields):
        if j != cfg_idx:
            st.notes[('lazy', sess.ident, j)] = Opaque('Session.' + n, 'initial-' + n)
    sref = lib.ref_to(st, sess, True, 'session')
    seen = []

    def closure_stub(eng_, s_, args, ci):
        a = args[-1]
        if isinstance(a, Tup) and a.items:
            a = a.items[0]
        cur = eng_.read_ref(s_, a)
        s_.trace.append(('closure-saw', eng_.lazy_field(s_, cur, cfg_idx, 'Config')))
        return UNIT
    lib.stub(r'FnOnce<\(&mut Session<.*>,\)>>::call_once$|call_once', closure_stub, 'the closure passed to override_config observes session.config and does not assign it')
    outs = ctx.check_outcomes(lib.run(oc, [sref, c1, Tup([], '{closure@harness}')], st), 'override_config')
    for i, o in enumerate(outs):
        if o.kind != 'ret':
            ctx.prop('override_config/p%d/no-panic' % i, o.state.pc, z3.BoolVal(True), [], replay_cli(ctx), twin=False)
            continue
        after = lib.read_ref(o.state, sref)
        cfg_after = lib.lazy_field(o.state, after, cfg_idx, 'Config')
        ctx.prop('override_config/p%d/closure-sees-the-local-config' % i, o.state.pc, z3.BoolVal(not ([t[1].ident for t in o.state.trace if t[0] == 'closure-saw' and isinstance(t[1], Opaque)] == ['local-config'])),
                 [], replay_cli(ctx), twin=False)
        ctx.prop('override_config/p%d/session-config-restored' % i, o.state.pc, z3.BoolVal(not (isinstance(cfg_after, Opaque) and cfg_after.ident == 'session-config')),
                 [], replay_cli(ctx), twin=False)
        for j, n in enumerate(sfields):
            if j == cfg_idx:
                continue
            fv = o.state.notes.get(('lazy', after.ident, j))
            same = isinstance(fv, Opaque) and fv.ident == 'initial-' + n
            ctx.prop('override_config/p%d/leaves-session.%s-alone' % (i, n), o.state.pc, z3.BoolVal(not same), [], replay_cli(ctx), twin=False)
    lib.stubs = [x for x in lib.stubs if 'closure passed to override_config' not in x[2]]

    both = ctx.engine(('rustfmt', 'lib'), loop_bound=5)
    both.lenient = True
    both.inline_only = [re.compile(p) for p in binmodel.LENIENT_INLINE]
    maxn = 2 if ctx.tier == 'quick' else 3
    for nfiles in range(0, maxn + 1):
        paths, info = binmodel.run_format_fn(ctx, both, nfiles)
        ctx.paths += len(paths)
        log('[C15] format() with %d files: %d paths' % (nfiles, len(paths)))
        for i, p in enumerate(paths):
            o = p['outcome']
            if o.kind != 'ret':
                continue
            pc = o.state.pc
            init_cfg = p['new'][0][1] if p['new'] else None
            # per-input facts
            loads = p['loads']
            for k, call in enumerate(p['fer']):
                cfgk = call[1]
                old, new = call[3], call[4]
                # which config must be in force: the one returned by this file's own load_config when no --config-path was resolved,
                # otherwise the session's initial config. Either way it must be one of those two and never an earlier file's local config.
                tr = o.state.trace
                idx = tr.index(call)
                start = 0
                for j in range(idx - 1, -1, -1):
                    if tr[j][0] in ('format_and_emit_report', 'Session::new'):
                        start = j
                        break
                window_loads = [t for t in tr[start + 1:idx] if t[0] == 'load_config']
                if window_loads:
                    allowed = {window_loads[-1][1].ident}     # this file's own load_config result
                else:
                    allowed = {init_cfg.ident if isinstance(init_cfg, Opaque) else None}   # --config-path resolved: the session's config
                ok = isinstance(cfgk, Opaque) and cfgk.ident in allowed
                ctx.prop('format/n%d/p%d/input%d/formatted-with-its-own-config' % (nfiles, i, k), pc, z3.BoolVal(not ok), [], replay_cli(ctx), twin=False,
                         meta={'config_in_force': repr(cfgk), 'allowed': sorted(map(str, allowed))})
                if not window_loads:
                    # skipping the per-file lookup is only right when the *initial* load_config resolved a --config-path
                    first_load = [t for t in tr if t[0] == 'load_config'][0]
                    ctx.prop('format/n%d/p%d/input%d/per-file-lookup-skipped-only-with-a-resolved-config-path' % (nfiles, i, k), pc, first_load[3] == 0, [], replay_cli(ctx), twin=False)
                # error flags seen by this input are at least those left by the previous one (nothing is reset between inputs)
                if k > 0:
                    prevnew = p['fer'][k - 1][4]
                    if isinstance(old, Tup):
                        ctx.prop('format/n%d/p%d/input%d/flags-not-reset-between-inputs' % (nfiles, i, k), pc,
                                 z3.Or([z3.And(x, z3.Not(y)) for x, y in zip(prevnew.items, old.items)]), [], replay_cli(ctx), twin=False)
            # after the loop: the session holds its initial config again, and the exit status is the max over inputs
            sess = [s for s in binmodel.final_session(both, o.state, info)]
            if len(sess) != 1:
                continue
            v = o.value
            if 0 not in v.payloads:
                continue
            code = v.payloads[0].items[0]
            okret = v.discr == 0
            cfg_end = o.state.notes.get(('lazy', sess[0].ident, info['cfg_idx']))
            ctx.prop('format/n%d/p%d/session-config-restored-after-all-inputs' % (nfiles, i), pc + [okret],
                     z3.BoolVal(not (isinstance(cfg_end, Opaque) and isinstance(init_cfg, Opaque) and cfg_end.ident == init_cfg.ident)), [], replay_cli(ctx), twin=False)
            errs = o.state.notes.get(('lazy', sess[0].ident, info['err_idx']))
            if p['fer'] and isinstance(errs, Tup):
                chk = p['check']

                def single(fl):
                    d = dict(zip(info['flags'], fl))
                    return z3.Or(d['has_operational_errors'], d['has_parsing_errors'], z3.And(z3.Or(d['has_diff'], d['has_check_errors']), chk))
                # per-input status = status of a run whose flags are exactly what that input raised (new_k relative to old_k);
                # the multi-file status must be >= each of them and must be 1 only if some flag is set at the end
                final = errs.items
                multi1 = code.e == 1
                for k, call in enumerate(p['fer']):
                    ctx.prop('format/n%d/p%d/exit>=status-of-input%d' % (nfiles, i, k), pc + [okret], z3.And(single(call[4].items), z3.Not(multi1)), list(final) + [chk], replay_cli(ctx))
                ctx.prop('format/n%d/p%d/exit-is-0-or-1-and-1-only-if-some-input-or-probe-failed' % (nfiles, i), pc + [okret],
                         z3.Or(z3.Not(z3.Or(code.e == 0, code.e == 1)), z3.And(multi1, z3.Not(single(final)))), list(final) + [chk], replay_cli(ctx))
    ctx.cover('cover/two-inputs-second-fails', [z3.BoolVal(True)])
    part_emit_whatever_came_before(ctx, lib)
    findings = cli_runs()
    ctx.validated += 1
    ctx.validation_detail.append({'cli_findings_on_this_tree': findings})


def part_emit_whatever_came_before(ctx, lib):
    """Session::handle_formatted_file from an arbitrary session state (whatever earlier inputs left in `source_file`, `errors`, ...) with an output
    sink present: the formatted text is handed to source_file::write_file exactly once on every path - what an input reports does not depend on
    the inputs formatted before it."""
    hff = lib.find('handle_formatted_file', self_ty='Session', file='src/formatting.rs', trait='FormatHandler')
    old = (lib.lenient, lib.inline_only, list(lib.stubs))
    lib.lenient = True
    lib.stubs = []
    lib.inline_only = [re.compile(r'handle_formatted_file$')]
    wf_ok = z3.Bool('write_file.ok')

    def write_file_stub(e, s_, a, c):
        s_.trace.append(('write_file', a[1]))
        return Enum('Result', z3.If(wf_ok, z3.BitVecVal(0, 64), z3.BitVecVal(1, 64)), {0: Tup([Tup([e.fresh_bool('emitted.has_diff')], 'EmitterResult')]), 1: Tup([Opaque('io::Error', 'wf')])})
    lib.stub(r'source_file::write_file::<|(^|::)write_file::<', write_file_stub, 'source_file::write_file = Ok(EmitterResult) | Err(io), observed')
    try:
        st = State()
        sess = Opaque('Session', 'sess')
        sfields = [n for n, _ in lib.src.struct_fields('Session', 'src/lib.rs')]
        st.notes[('lazy', sess.ident, sfields.index('out'))] = Enum('Option', 1, {1: Tup([Opaque('&mut T', 'out')])})
        sref = lib.ref_to(st, sess, True, 'session')
        fn = lib.get_fn(hff)
        args = [sref] + [lib.fresh_of_type(st, ty, 'arg.%s' % pn) for pn, ty in fn.params[1:]]
        outs = ctx.check_outcomes(lib.run(hff, args, st), 'handle_formatted_file')
    finally:
        lib.lenient, lib.inline_only, lib.stubs = old
    n = 0
    for i, o in enumerate(outs):
        if o.kind != 'ret':
            continue
        n += 1
        calls = [t for t in o.state.trace if t[0] == 'write_file']
        ctx.prop('handle_formatted_file/p%d/the-text-is-handed-to-the-emitter-exactly-once-whatever-came-before' % i, o.state.pc, z3.BoolVal(len(calls) != 1), [wf_ok], replay_cli(ctx), twin=False)
    if not n:
        raise Inconclusive('handle_formatted_file has no returning path')


def cli_runs():
    """native confirmation: order-independence of exit status and per-file configs on the real binary"""
    bins = ensure_bins()
    rf = os.path.join(bins, 'rustfmt')
    d = os.path.join(BUILD, 'scratch', 'c15-%d' % os.getpid())
    shutil.rmtree(d, ignore_errors=True)
    findings = []
    subs = (('a', 'tab_spaces = 2\n'), ('b', None), ('c', 'tab_spaces = 8\n'), ('a/in', 'tab_spaces = 6\n'), ('a/in/deep', None))
    for sub, cfg in subs:
        os.makedirs(os.path.join(d, sub))
        if cfg:
            open(os.path.join(d, sub, 'rustfmt.toml'), 'w').write(cfg)
        open(os.path.join(d, sub, 'x.rs'), 'w').write('fn f() {\nlet x = 1;\n}\n')
    open(os.path.join(d, 'bad.rs'), 'w').write('fn f( {\n')
    env = run_env()
    env['HOME'] = d
    env['XDG_CONFIG_HOME'] = d

    def run(args):
        return subprocess.run([rf] + args, capture_output=True, text=True, env=env, timeout=60, cwd=d)
    import itertools
    single = {}
    names = [s_ for s_, _ in subs]
    for sub in names:
        r = run(['--emit', 'stdout', '%s/x.rs' % sub])
        single[sub] = [ln for ln in r.stdout.split('\n') if ln.startswith(' ') and 'let' in ln]
    # independent expectation: the nearest rustfmt.toml at or above the file decides
    want_ts = {'a': 2, 'b': 4, 'c': 8, 'a/in': 6, 'a/in/deep': 6}
    for sub in names:
        if single[sub] != [' ' * want_ts[sub] + 'let x = 1;']:
            findings.append('%s/x.rs alone: %r, its nearest config says tab_spaces=%d' % (sub, single[sub], want_ts[sub]))
    orders = list(itertools.permutations(['a', 'b', 'c'])) + list(itertools.permutations(['a', 'a/in', 'a/in/deep'])) + [('c', 'a/in', 'a'), ('a/in', 'b', 'a/in/deep', 'a')]
    for order in orders:
        r = run(['--emit', 'stdout'] + ['%s/x.rs' % s for s in order])
        lets = [ln for ln in r.stdout.split('\n') if ln.startswith(' ') and 'let' in ln]
        want = [single[s][0] if single[s] else None for s in order]
        if lets != want:
            findings.append('order %s: indentation %r, single-file runs give %r' % (' '.join(order), lets, want))
    import json as _json
    open(os.path.join(d, 'm1.rs'), 'w').write('fn   a( ) { }\n')
    open(os.path.join(d, 'm2.rs'), 'w').write('fn   b( ) { }\n')
    open(os.path.join(d, 'ok.rs'), 'w').write('fn c() {}\n')
    for order in (['m1.rs', 'ok.rs'], ['m1.rs', 'm2.rs'], ['ok.rs', 'm1.rs']):
        r = run(['--emit', 'json'] + order)
        try:
            names = sorted(os.path.basename(e['name']) for e in _json.loads(r.stdout))
        except Exception:
            names = ['<unparsable>']
        want = sorted(x for x in order if x != 'ok.rs')
        if names != want:
            findings.append('--emit json %s reports files %r, the single-file runs report %r' % (' '.join(order), names, want))
    for order in (['a/x.rs', 'bad.rs'], ['bad.rs', 'a/x.rs']):
        r = run(['--check'] + order)
        if r.returncode != 1:
            findings.append('--check %s exit %d (max of single statuses is 1)' % (' '.join(order), r.returncode))
    # every kind of failure survives a later clean input (and an earlier one): exit status = max of the single statuses
    open(os.path.join(d, 'long.rs'), 'w').write('fn f() {\n    let x = "%s";\n}\n' % ('a' * 120))
    open(os.path.join(d, 'trail.rs'), 'w').write('fn f() {\n    let x = foo(  \n        %s);\n}\n' % ('a' * 100))
    for what, first, cfg in (('a missing file', 'missing.rs', []), ('a line overflow', 'long.rs', ['--config', 'error_on_line_overflow=true']),
                             ('left-behind trailing whitespace', 'trail.rs', []), ('a syntax error', 'bad.rs', [])):
        alone = run(['--emit', 'stdout'] + cfg + [first]).returncode
        if alone != 1:
            continue
        for order in ([first, 'ok.rs'], ['ok.rs', first]):
            r = run(['--emit', 'stdout'] + cfg + order)
            if r.returncode != 1:
                findings.append('%s: rustfmt %s exits %d, %s alone exits 1' % (what, ' '.join(order), r.returncode, first))
    # a module file shared by two inputs is reported for each of them
    open(os.path.join(d, 'r1.rs'), 'w').write('mod common;\n')
    open(os.path.join(d, 'r2.rs'), 'w').write('mod common;\n')
    open(os.path.join(d, 'common.rs'), 'w').write('pub fn   g( ) { }\n')
    cnt = {}
    for order in (['r1.rs'], ['r2.rs'], ['r1.rs', 'r2.rs'], ['r2.rs', 'r1.rs']):
        r = run(['--emit', 'json'] + order)
        try:
            cnt[tuple(order)] = sum(1 for e in _json.loads(r.stdout) if os.path.basename(e['name']) == 'common.rs')
        except Exception:
            cnt[tuple(order)] = -1
    for order in (('r1.rs', 'r2.rs'), ('r2.rs', 'r1.rs')):
        if cnt[order] != cnt[('r1.rs',)] + cnt[('r2.rs',)]:
            findings.append('--emit json %s reports common.rs %d times, the single runs %d + %d times' % (' '.join(order), cnt[order], cnt[('r1.rs',)], cnt[('r2.rs',)]))
    shutil.rmtree(d, ignore_errors=True)
    return findings


def replay_cli(ctx):
    def replay(model, r):
        f = cli_runs()
        import c06
        f2, _ = c06.cli_matrix()
        return {'reproduced': bool(f or f2), 'detail': (f + f2)[:5]}
    return replay


if __name__ == '__main__':
    main_wrapper('C15', build, level='other')
