#!/bin/bash
# runs every stored seeded change and every stored behaviour-preserving refactoring against its owning check (quick tier) and prints one line each
cd /verif
for d in $(ls seeded | sort -V); do
  owner=$(python3-vt - "$d" <<'PY'
import json,sys,re
m=json.load(open('/verif/seeded/%s/meta.json'%sys.argv[1]))
x=m.get('detected_by') or ''
mm=re.search(r'caught by (C\d\d)', x)
print(mm.group(1) if mm else sys.argv[1].split('-')[0])
PY
)
  r=$(CHECK=$owner timeout 3000 tools/seed_run.sh $d quick 2>&1 | head -1)
  echo "SEED $r"
done
for d in $(ls benign | sort -V); do
  r=$(timeout 3000 tools/benign_run.sh $d quick 2>&1 | head -1)
  echo "BENIGN $r"
done
