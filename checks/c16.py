"""C16 — panic-freedom of the width arithmetic kernels under the "usable page" precondition.

Every MIR `assert(!overflow…)`, division-by-zero assert, str-slice bound and unwrap that is reachable in the
encoded kernels becomes an obligation `pre ∧ path ⇒ no panic`. Kernels whose contract is "rhs ≤ lhs"
(Indent - Indent, Indent - usize) are listed as precondition-dependent and not decided."""
from common import *
from mirsym.config import make_config

LIM = 1 << 32

# functions whose panics depend on a caller-established relation (documented contract), not on state/config
CONTRACT = {
    ('src/shape.rs', 'sub'): 'Indent - Indent / Indent - usize: callers subtract an indent they added earlier (rhs <= lhs)',
}


def install_models(eng, ctx, max_width_hi):
    def indent_model(eng, st, base):
        b = eng.fresh_bv(base + '.block_indent', 'usize')
        a = eng.fresh_bv(base + '.alignment', 'usize')
        st.assume(z3.ULT(b.e, LIM))
        st.assume(z3.ULT(a.e, LIM))
        return Tup([b, a], 'Indent')

    def shape_model(eng, st, base):
        w = eng.fresh_bv(base + '.width', 'usize')
        o = eng.fresh_bv(base + '.offset', 'usize')
        st.assume(z3.ULT(w.e, LIM))
        st.assume(z3.ULT(o.e, LIM))
        return Tup([w, indent_model(eng, st, base + '.indent'), o], 'Shape')

    def config_model(eng, st, base):
        ref, vals = make_config(eng, st, base=eng.fresh_name(base))
        mw, ts, cw = vals['max_width'].e, vals['tab_spaces'].e, vals['comment_width'].e
        st.assume(z3.And(z3.UGE(mw, 20), z3.ULE(mw, max_width_hi)))
        st.assume(z3.And(z3.UGE(ts, 1), z3.ULE(ts, 8)))
        st.assume(z3.UGE(mw, 5 * ts))
        st.assume(z3.ULE(cw, 10000))
        for k in ('blank_lines_upper_bound', 'blank_lines_lower_bound'):
            st.assume(z3.ULT(vals[k].e, LIM))
        return eng.read_ref(st, ref)

    eng.struct_models['Indent'] = indent_model
    eng.struct_models['Shape'] = shape_model
    eng.struct_models['Config'] = config_model


def fresh_arg(eng, st, ty, base):
    v = eng.fresh_of_type(st, ty, base)
    if isinstance(v, BV) and v.ty == 'usize':
        st.assume(z3.ULT(v.e, LIM))
    return v


def model_vars_of(st):
    """all integer/bool constants occurring in the path condition (for the counterexample)"""
    seen = {}

    def walk(e):
        if z3.is_const(e) and e.decl().kind() == z3.Z3_OP_UNINTERPRETED:
            if z3.is_bv(e) or z3.is_bool(e):
                seen[e.decl().name()] = e
            return
        for ch in e.children():
            walk(ch)
    for c in st.pc:
        walk(c)
    return list(seen.values())


def build(ctx):
    eng = ctx.engine('lib', loop_bound=10)
    hi = 200 if ctx.tier == 'quick' else 10000
    install_models(eng, ctx, hi)
    ctx.bounds = {'max_width': '20..=%d' % hi, 'tab_spaces': '1..=8', 'usable page': 'max_width >= 5*tab_spaces', 'comment_width': '<= 10000',
                  'indent/width/offset/usize arguments': '< 2^32 (block_indent otherwise arbitrary: nesting depth is input-controlled)', 'loop_unwind': 10}
    ctx.outside = ['stack depth, parser panics and their catch_unwind', 'debug_assert_eq!(line_number, count_newlines(buffer)) in formatting.rs',
                   'arithmetic inside AST rewriters other than the sites listed under functions_encoded',
                   'Indent - Indent and Indent - usize (caller contract rhs <= lhs): listed as precondition-dependent, not decided']
    ctx.assumptions = ['usable page: 20 <= max_width, max_width >= 5*tab_spaces, 1 <= tab_spaces <= 8', 'all widths/indents/offsets < 2^32',
                       'under-constrained execution for sites inside large functions: state before the site is arbitrary (sound for panic-freedom: over-approximates)']
    eng.lenient = True
    eng.usize_bound = LIM
    rp_sites = []
    if os.environ.get('C16_ONLY') == 'containment':       # development aid: one part only (never used by the registered commands)
        part_containment(ctx, eng)
        part_diagnostics_consumed(ctx, eng)
        return

    # ---------------- A. every function of src/shape.rs
    shape_fns = [r for r in eng.records if r['is_plain'] and r['file'] == 'src/shape.rs' and not r['name'].startswith('shape::test')]
    eng.inline_only = [re.compile(r'src/shape\.rs'), re.compile(r'src/config/config_type\.rs'), re.compile(r'^Config::')]

    def cut_loops(eng_, st, args, ci):
        # the two push loops of to_string_inner only build the string (C08c); no arithmetic after this point
        return [(st, 'cut', 'String building loop')]
    eng.stub(r'^<std::ops::Range<usize> as (std::iter::)?Iterator>::next$', cut_loops, 'cut: string-building loops of Indent::to_string_inner end the path (no arithmetic follows)')
    decided = contract = 0
    for r in sorted(shape_fns, key=lambda r: r['name']):
        fn = eng.get_fn(r['name'])
        if fn.kind != 'fn' or r['trait'] in ('Debug', 'Clone', 'Copy'):
            continue
        if r['method'] == 'to_string_inner':
            # private helper: analysed through its three callers (to_string, to_string_with_newline,
            # Shape::to_string_with_newline), which pass the constant offsets 1 and 0
            continue
        st = State()
        try:
            args = [fresh_arg(eng, st, ty, 'a%d' % i) for i, (_, ty) in enumerate(fn.params)]
            outs = ctx.check_outcomes(eng.run(r['name'], args, st), r['name'])
        except Unsupported as e:
            ctx.notes.append('not encoded: %s (%s)' % (r['name'], e))
            continue
        label = '%s%s' % ((r['self_ty'] or '') + '::' if r['self_ty'] else '', r['tail'])
        if r['trait']:
            label = '<%s as %s>::%s' % (_self_of(eng, r), r['trait'], r['method'])
        is_contract = (r['file'], r['method']) in CONTRACT and r['trait'] == 'Sub'
        npanic = 0
        by_site = {}
        for i, o in enumerate(outs):
            if o.kind != 'panic':
                continue
            by_site.setdefault((o.info.get('span'), o.info.get('msg', '')[:60], o.info.get('fn'), o.info.get('bb')), []).append(o)
        for (span, msg, pfn, bb), os_ in sorted(by_site.items(), key=lambda kv: str(kv[0])):
            npanic += 1
            if is_contract:
                contract += 1
                continue
            decided += 1
            mv = []
            seen = set()
            for o in os_:
                for v in model_vars_of(o.state):
                    if v.decl().name() not in seen:
                        seen.add(v.decl().name())
                        mv.append(v)
            viol = z3.Or([z3.And(o.state.pc) if o.state.pc else z3.BoolVal(True) for o in os_])
            ctx.prop('shape/%s/%s[%s]' % (label, src_text(eng, span), msg[:40]), [], viol, mv,
                     make_replay(ctx, 'shape', label, os_[0].info), twin=False, hint=[z3.ULT(v, 300) for v in mv if z3.is_bv(v)])
        if npanic == 0:
            # no reachable panic edge at all: record as a trivially discharged obligation (still regenerated every run)
            ctx.prop('shape/%s/no-panic-edge-reachable' % label, [], z3.BoolVal(False), [], None, twin=False)
        if is_contract and npanic:
            ctx.notes.append('precondition-dependent (not decided): %s — %s' % (label, CONTRACT[(r['file'], r['method'])]))
    eng.stubs = [x for x in eng.stubs if 'cut:' not in x[2]]

    # ---------------- B. sites inside larger functions (under-constrained from function entry)
    eng.inline_only = [re.compile(r'src/shape\.rs'), re.compile(r'src/config/config_type\.rs'), re.compile(r'^Config::'), re.compile(r'^(std|core)::cmp::'),
                       re.compile(r'src/formatting\.rs'), re.compile(r'FullCodeCharKind::'), re.compile(r'ErrorKind::')]
    eng.no_inline = [re.compile(r'to_string')]   # string building is C08c's subject; not needed to reach the arithmetic
    sites = [
        dict(key='missed_spans/process_comment', method='process_comment', self_ty='FmtVisitor', file='src/missed_spans.rs'),
        dict(key='missed_spans/push_vertical_spaces', method='push_vertical_spaces', self_ty='FmtVisitor', file='src/missed_spans.rs'),
        dict(key='formatting/FormatLines::new_line', method='new_line', self_ty='FormatLines', file='src/formatting.rs', pre='format_lines'),
        dict(key='formatting/FormatLines::char', method='char', self_ty='FormatLines', file='src/formatting.rs', pre='format_lines'),
        dict(key='utils/last_line_used_width', method='last_line_used_width', free=True),
        dict(key='lib/FormattedSnippet::unwrap_code_block', method='unwrap_code_block', self_ty='FormattedSnippet', file='src/lib.rs'),
    ]
    for site in sites:
        try:
            if site.get('free'):
                name = eng.find(site['method'], free=True)
            else:
                name = eng.find(site['method'], self_ty=site['self_ty'], file=site['file'])
        except KeyError as e:
            raise Inconclusive('kernel not found: %s' % e)
        fn = eng.get_fn(name)
        st = State()
        args = [fresh_arg(eng, st, ty, 'a%d' % i) for i, (_, ty) in enumerate(fn.params)]
        if site.get('pre') == 'format_lines':
            apply_format_lines_invariant(eng, st, args[0])
        t = time.time()
        outs = ctx.check_outcomes(eng.run(name, args, st), name)
        n = 0
        by_site = {}
        for i, o in enumerate(outs):
            if o.kind != 'panic':
                continue
            if o.info.get('fn') != name:
                continue      # panics inside inlined shape.rs / config functions are decided in part A
            by_site.setdefault((o.info.get('span'), o.info.get('msg', '')[:60], o.info.get('bb')), []).append(o)
        for (span, msg, bb), os_ in sorted(by_site.items(), key=lambda kv: str(kv[0])):
            n += 1
            mv = []
            seen = set()
            for o in os_:
                for v in model_vars_of(o.state):
                    if v.decl().name() not in seen:
                        seen.add(v.decl().name())
                        mv.append(v)
            viol = z3.Or([z3.And(o.state.pc) if o.state.pc else z3.BoolVal(True) for o in os_])
            ctx.prop('%s/%s[%s]' % (site['key'], src_text(eng, span), msg[:40]), [], viol, mv,
                     make_replay(ctx, 'site', site['key'], os_[0].info), twin=False, hint=[z3.ULT(v, 300) for v in mv if z3.is_bv(v)])
        if n == 0:
            ctx.prop('%s/no-panic-edge-reachable' % site['key'], [], z3.BoolVal(False), [], None, twin=False)
        log('[C16] %s: %d paths, %d panic edges in the kernel itself, %.1fs' % (site['key'], len(outs), n, time.time() - t))
    ctx.notes.append('shape.rs: %d panic edges decided, %d precondition-dependent' % (decided, contract))
    wide_scan(ctx, eng)
    part_annotation(ctx, eng)
    part_containment(ctx, eng)
    part_diagnostics_consumed(ctx, eng)
    ctx.cover('cover/usable-page-satisfiable', [z3.BoolVal(True)])


# ----------------------------------------------------------------------------- D. the range handed to the diagnostic renderer
def part_annotation(ctx, eng):
    """format_report_formatter.rs::annotation + FormattingError::format_len: the byte range given to annotate-snippets lies inside
    `line_buffer` and on character boundaries (the renderer panics otherwise: environment contract, exercised by the replay).
    line_buffer is an uninterpreted text with a symbolic byte length n and an uninterpreted predicate is_boundary(i)."""
    from mirsym.intrinsics import some, NONE
    name = eng.find('annotation', free=True)
    fn = eng.get_fn(name)
    fe = eng.src.struct_fields('FormattingError', 'src/formatting.rs')
    ek = eng.enum_variants('ErrorKind')
    n = z3.BitVec('line_buffer.len', 64)
    isb = z3.Function('is_char_boundary', z3.BitVecSort(64), z3.BoolSort())
    old = (eng.lenient, eng.usize_bound, eng.inline_only, list(eng.stubs))
    eng.lenient = True
    eng.usize_bound = LIM
    eng.stubs = []
    eng.inline_only = [re.compile(r'^annotation$|format_report_formatter.*annotation'), re.compile(r'format_len$')]
    buf = eng.fresh_str('line_buffer')

    def is_buf(e, s_, v):
        while isinstance(v, Ref):
            v = e.read_ref(s_, v)
        return isinstance(v, StrVal) and v.e is not None and v.e.eq(buf.e)

    def s_len(e, s_, a, c):
        v = a[0]
        while isinstance(v, Ref):
            v = e.read_ref(s_, v)
        if is_buf(e, s_, v):
            return BV(n, 'usize')
        if isinstance(v, Tup) and v.name == 'TrimmedEnd':
            return v.items[0]
        raise Unsupported('len of %r' % (v,))

    def s_trim_end(e, s_, a, c):
        m = e.fresh_bv('trim_end.len', 'usize')
        s_.assume(z3.And(z3.ULE(m.e, n), isb(m.e)))
        return Tup([m], 'TrimmedEnd')

    def s_rfind(e, s_, a, c):
        pos = e.fresh_bv('rfind.pos', 'usize')
        w = e.fresh_bv('rfind.char_len', 'usize')
        d = e.fresh_bv('rfind.some', 'usize')
        s_.assume(z3.Or(d.e == 0, d.e == 1))
        # std contract: the byte index of the first byte of the last matching character, which is 1..4 bytes long
        s_.assume(z3.Implies(d.e == 1, z3.And(z3.ULT(pos.e, n), isb(pos.e), z3.UGE(w.e, 1), z3.ULE(w.e, 4), z3.ULE(pos.e + w.e, n), isb(pos.e + w.e),
                                              z3.And([z3.Implies(z3.ULT(z3.BitVecVal(k, 64), w.e), z3.Not(isb(pos.e + k))) for k in (1, 2, 3)]))))
        return Enum('Option', d.e, {1: Tup([pos])})

    def s_nth(e, s_, a, c):
        k = a[1]
        i = e.fresh_bv('nth.byte', 'usize')
        d = e.fresh_bv('nth.some', 'usize')
        s_.assume(z3.Or(d.e == 0, d.e == 1))
        s_.assume(z3.Implies(d.e == 1, z3.And(z3.ULT(i.e, n), isb(i.e), z3.UGE(i.e, k.e))))
        return Enum('Option', d.e, {1: Tup([Tup([i, e.fresh_bv('nth.char', 'char')])])})
    spans = []

    def lvl_span(e, s_, a, c):
        s_.trace.append(('span', a[1]))
        return Opaque('Annotation', 'ann')
    eng.stub(r'<impl str>::len$|String::len$', s_len, 'line_buffer.len() = n (symbolic byte length)')
    eng.stub(r'<impl str>::trim_end$', s_trim_end, 'trim_end(): a prefix ending on a character boundary')
    eng.stub(r'<impl str>::rfind::<', s_rfind, 'str::rfind(pred): Some(first byte of the last matching character) | None')
    eng.stub(r'CharIndices<.*> as (std::iter::)?Iterator>::nth$', s_nth, 'char_indices().nth(k): Some((byte index >= k on a boundary, char)) | None')
    eng.stub(r'<impl str>::char_indices$', lambda e, s_, a, c: Opaque('CharIndices', 'ci'), 'str::char_indices')
    eng.stub(r'Level::span(::<.*>)?$', lvl_span, 'annotate_snippets Level::span(range): the range is observed')
    eng.stub(r'<String as (std::ops::)?Deref>::deref$', lambda e, s_, a, c: a[0], 'String deref')
    try:
        for kname in ('LineOverflow', 'TrailingWhitespace'):
            st = State()
            found, mx = z3.BitVec('found', 64), z3.BitVec('max', 64)
            st.assume(z3.And(isb(z3.BitVecVal(0, 64)), isb(n), z3.ULT(n, LIM), z3.ULT(found, LIM), z3.ULT(mx, found)))
            kind = Enum('ErrorKind', ek.index(kname), {ek.index(kname): Tup([BV(found, 'usize'), BV(mx, 'usize')])} if kname == 'LineOverflow' else {})
            vals = []
            for fname_, ty in fe:
                if fname_ == 'kind':
                    vals.append(kind)
                elif fname_ == 'line_buffer':
                    vals.append(buf)
                else:
                    vals.append(eng.fresh_of_type(st, ty, 'err.' + fname_))
            err = eng.ref_to(st, Tup(vals, 'FormattingError'), False, 'error')
            outs = ctx.check_outcomes(eng.run(name, [err], st), 'annotation')
            for pi, o in enumerate(outs):
                label = 'annotation/%s/p%d' % (kname, pi)
                if o.kind != 'ret':
                    ctx.prop(label + '/no-panic[%s]' % str(o.info.get('msg'))[:30], o.state.pc, z3.BoolVal(True), [n, found, mx], make_annotation_replay(ctx), twin=False)
                    continue
                for t in o.state.trace:
                    if t[0] != 'span':
                        continue
                    rg = t[1]
                    while isinstance(rg, Ref):
                        rg = eng.read_ref(o.state, rg)
                    s0, e0 = rg.items[0].e, rg.items[1].e
                    ctx.prop(label + '/range-inside-the-line-and-on-character-boundaries', o.state.pc,
                             z3.Not(z3.And(z3.ULE(s0, e0), z3.ULE(e0, n), isb(s0), isb(e0))), [n, found, mx, s0, e0], make_annotation_replay(ctx), twin=False, hint=[z3.ULT(n, 300)])
    finally:
        eng.lenient, eng.usize_bound, eng.inline_only, eng.stubs = old


def make_annotation_replay(ctx):
    def replay(model, r):
        bins = ensure_bins()
        rf = os.path.join(bins, 'rustfmt')
        d = os.path.join(BUILD, 'scratch', 'c16a-%d' % os.getpid())
        shutil.rmtree(d, ignore_errors=True)
        os.makedirs(d)
        cases = [('tab in a too wide line', 'fn a() {\n\tlet x = "%s";\n}\n' % ('a' * 130), 'hard_tabs=true,error_on_line_overflow=true,error_on_unformatted=true'),
                 ('two-byte characters in a too wide line', 'fn a() {\n    let x = "%s";\n}\n' % ('\u00e9' * 130), 'error_on_line_overflow=true,error_on_unformatted=true'),
                 ('three-byte characters around column 100', 'fn a() {\n    let x = "%s%s";\n}\n' % ('a' * 83, '\u4e2d' * 30), 'error_on_line_overflow=true,error_on_unformatted=true'),
                 ('trailing blanks after a two-byte character', 'fn b() {\n    let y = %s(1, \u00e9   \n        );\n}\n' % ('a' * 50), 'max_width=40'),
                 ('plain ASCII control', 'fn a() {\n    let x = "%s";\n}\n' % ('a' * 130), 'error_on_line_overflow=true,error_on_unformatted=true')]
        found = []
        for what, src, cfg in cases:
            p = os.path.join(d, 'x.rs')
            open(p, 'w', encoding='utf-8').write(src)
            pr = subprocess.run([rf, '--emit', 'stdout', '--config', cfg, p], capture_output=True, text=True, env=run_env(), timeout=60, cwd=d)
            if pr.returncode not in (0, 1) or 'panicked' in pr.stderr:
                m = re.search(r'panicked at ([^\n]*)\n([^\n]*)', pr.stderr)
                found.append('%s: exit %d, %s' % (what, pr.returncode, (m.group(2)[:100] if m else 'panic')))
        shutil.rmtree(d, ignore_errors=True)
        return {'reproduced': bool(found), 'detail': found}
    return replay


# ----------------------------------------------------------------------------- E. a panic inside the Rust parser is contained
RUSTC_PARSE = r'^(rustc_parse::.*|new_parser_from_\w+(::<.*>)?|unwrap_or_emit_fatal(::<.*>)?|source_str_to_stream|source_file_to_stream|parse_in(::<.*>)?|stream_to_parser)$'


def containment_env(eng):
    """Environment of the containment kernels (also used by C05): std::panic::catch_unwind runs the real closure and turns an unwind inside it
    into Err(payload); returns the stub body `rustc_call` = returns an arbitrary value | unwinds."""
    def unwrap_aus(e, s_, v):
        while True:
            if isinstance(v, Tup) and v.name and 'AssertUnwindSafe' in v.name and len(v.items) == 1:
                v = v.items[0]
                continue
            return v

    def rustc_call(e, s_, a, c):
        s2 = s_.fork()
        s2.trace.append(('rustc_unwind', c.func))
        s_.trace.append(('rustc_ret', c.func))
        return [(s_, 'ret', e.uninterpreted_call(s_, c.func, a, c)), (s2, 'panic', {'msg': 'unwind out of ' + c.func, 'span': None, 'rustc': True})]

    def catch(e, s_, a, c):
        f = unwrap_aus(e, s_, a[0])
        res = []
        for (s2, kind, v) in e.call_value(s_, f, [], None):
            if kind == 'ret':
                res.append((s2, 'ret', Enum('Result', 0, {0: Tup([v])})))
            elif kind == 'panic':
                s2.trace.append(('caught', v.get('msg') if isinstance(v, dict) else str(v)))
                res.append((s2, 'ret', Enum('Result', 1, {1: Tup([Opaque('Box<dyn Any + Send>', 'payload%d' % next(e.counter))])})))
            else:
                res.append((s2, kind, v))
        return res
    eng.stub(r'^std::panic::catch_unwind::<', catch, 'std::panic::catch_unwind(f): runs the real closure; an unwind inside it becomes Err(payload)')
    eng.stub(r'AssertUnwindSafe<.*> as (std::ops::)?Deref(Mut)?>::deref(_mut)?$',
             lambda e, s_, a, c: (lambda v: unwrap_aus(e, s_, e.read_ref(s_, v) if isinstance(v, Ref) else v))(a[0]), 'AssertUnwindSafe deref')
    eng.stub(r'Diag::<.*>::emit$|Diag::emit$', lambda e, s_, a, c: UNIT, 'Diag::emit: prints')
    eng.stub(r'Cell::<bool>::replace$', lambda e, s_, a, c: (s_.trace.append(('cell_replace', a[1])), e.fresh_bool('cell.old'))[1], 'Cell<bool>::replace: the stored value is observed')
    return rustc_call


def part_containment(ctx, eng):
    """src/parse/parser.rs: Parser::parse_crate and Parser::parse_file_as_module are executed with every call into rustc_parse
    (new_parser_from_file, new_parser_from_source_str, unwrap_or_emit_fatal, Parser::parse_mod, Parser::parse_crate_mod, ...) as environment
    that either returns an arbitrary value or unwinds (a panic, or the FatalError a lexer error raises).  std::panic::catch_unwind runs the
    real closure and turns an unwind inside it into Err(payload).  Obligation: no path leaves the entry point by unwinding, and a path on which
    the parser unwound returns Err(ParserError)."""
    old = (eng.lenient, eng.usize_bound, eng.inline_only, list(eng.stubs), eng.unsupported_as_outcome)
    eng.lenient = True
    eng.stubs = []
    eng.unsupported_as_outcome = False
    eng.inline_only = [re.compile(r'src/parse/parser\.rs')]

    rustc_call = containment_env(eng)
    base = list(eng.stubs)
    # (entry, file, what unwinds, files inlined, replay entry)
    table = [('parse_crate', 'src/parse/parser.rs', RUSTC_PARSE, r'src/parse/parser\.rs', 'every call into rustc_parse'),
             ('parse_file_as_module', 'src/parse/parser.rs', RUSTC_PARSE, r'src/parse/parser\.rs', 'every call into rustc_parse'),
             ('rewrite_macro', 'src/macros.rs', r'(^|::)rewrite_macro_inner$', r'^rewrite_macro$|^rewrite_macro::', 'rewrite_macro_inner (the formatting of one macro call)'),
             ('format_snippet', 'src/lib.rs', r'(^|::)format_input_inner$', r'^format_snippet$|^format_snippet::', 'Session::format_input_inner (the formatting of one snippet)')]
    try:
        for entry, file, unwinds, inl, what in table:
            eng.stubs = list(base)
            eng.stub(unwinds, rustc_call, '%s = returns an arbitrary value | unwinds (panic or FatalError)' % what)
            eng.inline_only = [re.compile(inl)]
            cands = [r for r in eng.by_method.get(entry, []) if (r['file'] == file or r['file'] is None) and r['name'].split('::')[-1] == entry]
            cands = [r for r in cands if r['file'] == file] or [r for r in cands if eng.fn_file(r['name']) == file]
            if len(cands) != 1:
                raise Inconclusive('containment: %s not found uniquely in %s (%d candidates)' % (entry, file, len(cands)))
            name = cands[0]['name']
            fn = eng.get_fn(name)
            st = State()
            args = [eng.fresh_of_type(st, ty, 'arg.%s' % pn) for pn, ty in fn.params]
            outs = ctx.check_outcomes(eng.run(name, args, st), entry, allow_panic=True)
            n_unw = n_caught = 0
            for pi, o in enumerate(outs):
                unw = [t[1] for t in o.state.trace if t[0] == 'rustc_unwind']
                if o.kind == 'panic':
                    if isinstance(o.info, dict) and o.info.get('rustc'):
                        n_unw += 1
                        ctx.prop('containment/%s/p%d/unwind-out-of-%s-is-caught' % (entry, pi, short_callee(unw[-1] if unw else '?')), o.state.pc, z3.BoolVal(True), [],
                                 make_containment_replay(ctx, entry), twin=False)
                    else:
                        ctx.prop('containment/%s/p%d/no-panic[%s]' % (entry, pi, str(o.info.get('msg') if isinstance(o.info, dict) else o.info)[:40]), o.state.pc, z3.BoolVal(True), [],
                                 make_containment_replay(ctx, entry), twin=False)
                    continue
                if o.kind != 'ret':
                    raise Inconclusive('containment: outcome %s in %s: %s' % (o.kind, entry, o.info))
                if unw:
                    n_caught += 1
                    v = o.value
                    while isinstance(v, Ref):
                        v = eng.read_ref(o.state, v)
                    if not isinstance(v, Enum) or v.name not in ('Result', 'Option'):
                        raise Inconclusive('containment: %s returned %r' % (entry, v))
                    fail = 1 if v.name == 'Result' else 0
                    ctx.prop('containment/%s/p%d/after-an-unwind-the-result-is-a-failure' % (entry, pi), o.state.pc, v.discr != fail, [], make_containment_replay(ctx, entry), twin=False)
                    if entry == 'rewrite_macro':
                        # the failure is recorded for the caller (macro_rewrite_failure), which is what makes the file report it
                        reps = [t[1] for t in o.state.trace if t[0] == 'cell_replace']
                        ok = z3.Or([r_ if z3.is_bool(r_) else z3.BoolVal(bool(r_)) for r_ in reps]) if reps else z3.BoolVal(False)
                        ctx.prop('containment/%s/p%d/after-an-unwind-macro_rewrite_failure-is-set' % (entry, pi), o.state.pc, z3.Not(ok), [], make_containment_replay(ctx, entry), twin=False)
            if n_caught + n_unw == 0:
                raise Inconclusive('containment: no path of %s on which the guarded code unwinds was explored (vacuous)' % entry)
            ctx.notes.append('containment/%s: %d paths, %d with a caught unwind, %d leaving by unwinding' % (entry, len(outs), n_caught, n_unw))
    finally:
        eng.lenient, eng.usize_bound, eng.inline_only, eng.stubs, eng.unsupported_as_outcome = old


def short_callee(c):
    prev = None
    while prev != c:
        prev, c = c, re.sub(r'<[^<>]*>', '', c)
    return [x for x in c.split('::') if x][-1]


def make_containment_replay(ctx, entry):
    def replay(model, r):
        bins = ensure_bins()
        rf = os.path.join(bins, 'rustfmt')
        d = os.path.join(BUILD, 'scratch', 'c16e-%d' % os.getpid())
        shutil.rmtree(d, ignore_errors=True)
        os.makedirs(d)
        broken = ['fn main() { let s = "abc; }\n', 'fn f() { let c = \'ab; }\n/* never closed\n', 'fn f() {\n    let r = r#"abc;\n}\n', 'fn f() { g(\n', 'fn f() { 0b }\n', 'fn \\ f() {}\n']
        found = []
        if entry in ('rewrite_macro', 'format_snippet'):
            # the guarded code is made to panic through the cfg-guarded fault hook of /repo (RUSTFMT_VERIF_FAULT=<site>:<prefix>)
            if entry == 'rewrite_macro':
                cases = [('statement macro', 'fn f() {\n    vfault!(a, b);\n}\n', 'macro:vfault!', ''),
                         ('expression macro', 'fn f() {\n    let x = vfault!(a, b) + 1;\n}\n', 'macro:vfault!', ''),
                         ('item macro', 'vfault! { a }\nfn g() {}\n', 'macro:vfault!', ''),
                         ('nested macro', 'fn f() {\n    outer!(1, vfault!(a, b));\n}\n', 'macro:vfault!', '')]
            else:
                cases = [('code block in a doc comment', '/// ```\n/// let   vfault = 1;\n/// ```\nfn f() {}\n', 'snippet:fn main() {\n', 'format_code_in_doc_comments=true'),
                         ('macro_rules body', 'macro_rules! m {\n    ($a:expr) => {\n        let   vfault = $a;\n    };\n}\n', 'snippet:', '')]
            for what, src, fault, cfg in cases:
                p = os.path.join(d, 'x.rs')
                open(p, 'w').write(src)
                env = dict(run_env())
                env['RUSTFMT_VERIF_FAULT'] = fault
                pr = subprocess.run([rf, '--emit', 'stdout'] + (['--config', cfg] if cfg else []) + [p], capture_output=True, text=True, env=env, timeout=60, cwd=d)
                injected = 'injected fault' in pr.stderr
                if pr.returncode not in (0, 1):
                    found.append('%s: exit %d with the fault injected' % (what, pr.returncode))
                elif not injected:
                    found.append('%s: the fault hook was not reached (exit %d)' % (what, pr.returncode)) if False else None
            shutil.rmtree(d, ignore_errors=True)
            return {'reproduced': bool(found), 'detail': found[:6]}
        for bi, src in enumerate(broken):
            if entry == 'parse_crate':
                cases = [('root file', {'main.rs': src}, ['main.rs'], None), ('standard input', {}, [], src)]
            else:
                cases = [('out-of-line module', {'main.rs': 'mod m;\nfn main() {}\n', 'm.rs': src}, ['main.rs'], None)]
            for what, files, argv, stdin in cases:
                for f, t in files.items():
                    open(os.path.join(d, f), 'w').write(t)
                pr = subprocess.run([rf, '--emit', 'stdout'] + argv, input=stdin, capture_output=True, text=True, env=run_env(), timeout=60, cwd=d)
                if pr.returncode not in (0, 1) or 'panicked' in pr.stderr:
                    found.append('%s, broken text %d (%r): exit %d' % (what, bi, src[:30], pr.returncode))
        shutil.rmtree(d, ignore_errors=True)
        return {'reproduced': bool(found), 'detail': found[:6]}
    return replay


# ----------------------------------------------------------------------------- F. a rustc diagnostic is never dropped without being emitted or cancelled
DISCARDS = r'^(std::result::|core::result::)?Result::<.*, (rustc_errors::)?Diag<[^<>]*>>::(ok|unwrap_or|unwrap_or_default|unwrap_or_else|map_or|map_or_else|is_ok_and|is_err_and|and|or)(::<.*>)?$'


def part_diagnostics_consumed(ctx, eng):
    """rustc_errors::Diag panics in its destructor ("error was constructed but not emitted") unless it was emitted or cancelled; outside
    rewrite_macro's catch_unwind that panic ends the process.  Every call in the crate that consumes a Result<_, Diag> and throws the error
    away (Result::ok, unwrap_or*, map_or*, ...) is collected from the MIR; its function is executed under-constrained with the parser's answer an
    arbitrary Ok | Err, and the solver decides whether the Err case reaches the discarding call."""
    from mirsym.mirparse import block_parsed
    sites = {}
    for r in eng.records:
        mir = eng.mirs[r['mir']]
        s0, e0 = mir.index[r['name']]
        if not any('Diag<' in ln for ln in mir.lines[s0:e0]):
            continue
        if not mir.headers[r['name']].startswith('fn '):
            continue
        fn = eng.get_fn(r['name'])
        for bb, blk in fn.blocks.items():
            if blk.get('cleanup'):
                continue
            try:
                stmts, term = block_parsed(blk)
            except Exception:
                continue
            if term[0] == 'call' and term[2][0] == 'path' and re.search(DISCARDS, term[2][1]):
                sites.setdefault(r['name'], []).append((bb, term[2][1], (blk.get('spans') or [None])[-1]))
    # a function nothing calls (dead code kept for later use, e.g. parse_asm) cannot drop anything at run time: listed, not decided
    dead = []
    for name in sorted(sites):
        last = name.rsplit('::', 1)[-1]
        pat = re.compile(r'(^|[ :(])' + re.escape(last) + r'(::<[^(]*>)?\(')
        called = False
        for mir in eng.mirs:
            for ln in mir.lines:
                if '-> [return' in ln and last in ln and pat.search(ln.split('=', 1)[-1]):
                    called = True
                    break
            if called:
                break
        if not called:
            dead.append(name)
    for name in dead:
        del sites[name]
    if dead:
        ctx.notes.append('diagnostics: not decided because nothing in the crate calls them: %s' % ', '.join(short_name(x) for x in dead))
    old = (eng.lenient, eng.inline_only, list(eng.stubs), eng.unsupported_as_outcome)
    eng.lenient = True
    eng.unsupported_as_outcome = False
    rp = make_diag_replay(ctx)
    n = 0
    try:
        for name, lst in sorted(sites.items()):
            eng.stubs = []
            eng.inline_only = [re.compile(re.escape(name) + r'($|::\{closure)')]

            def discard(e, s_, a, c):
                v = a[0]
                while isinstance(v, Ref):
                    v = e.read_ref(s_, v)
                if not isinstance(v, Enum):
                    raise Unsupported('discarding call on %r' % (v,))
                s_.trace.append(('discard', c.func, v.discr, c.bb))
                return NotImplemented          # the ordinary summary of the method applies
            eng.stub(DISCARDS, discard, 'Result<_, Diag>::{ok, unwrap_or, ...}: the discriminant of the receiver is observed')
            fn = eng.get_fn(name)
            st = State()
            args = [eng.fresh_of_type(st, ty, 'arg.%s' % pn) for pn, ty in fn.params]
            outs = ctx.check_outcomes(eng.run(name, args, st), name, allow_panic=True)
            seen = 0
            for pi, o in enumerate(outs):
                for t in o.state.trace:
                    if t[0] != 'discard':
                        continue
                    seen += 1
                    n += 1
                    ctx.prop('diagnostics/%s/p%d/%s-never-receives-an-error-that-was-not-emitted-or-cancelled' % (short_name(name), pi, short_callee(t[1])), o.state.pc, t[2] == 1, [],
                             rp, twin=False, meta={'site': '%s bb%s' % (name, t[3])})
            if not seen:
                raise Inconclusive('diagnostics: the discarding call in %s was not reached on any explored path' % name)
    finally:
        eng.lenient, eng.inline_only, eng.stubs, eng.unsupported_as_outcome = old
    if not sites:
        ctx.prop('diagnostics/no-call-discards-the-error-of-a-Result<_, Diag>', [], z3.BoolVal(False), [], None, twin=False)
    ctx.notes.append('diagnostics: %d functions with a call that discards the error of a Result<_, Diag> (%s), %d path obligations' % (len(sites), ', '.join(short_name(x) for x in sorted(sites)), n))


def make_diag_replay(ctx):
    def replay(model, r):
        bins = ensure_bins()
        rf = os.path.join(bins, 'rustfmt')
        d = os.path.join(BUILD, 'scratch', 'c16f-%d' % os.getpid())
        shutil.rmtree(d, ignore_errors=True)
        os.makedirs(d)
        found = []
        for src in ('fn f() { try!().foo(); }\n', 'fn f() { try!(,).foo(); }\n', 'fn f() { let x = try!(); }\n', 'fn f() { g(try!(a b)).h(); }\n', 'fn f() { r#try!().foo(); }\n'):
            for cfg in ('use_try_shorthand=true', 'use_try_shorthand=true,style_edition=2024'):
                p = os.path.join(d, 'x.rs')
                open(p, 'w').write(src)
                pr = subprocess.run([rf, '--emit', 'stdout', '--config', cfg, p], capture_output=True, text=True, env=run_env(), timeout=60, cwd=d)
                if pr.returncode not in (0, 1) or 'constructed but not emitted' in pr.stderr:
                    found.append('%r [%s]: exit %d%s' % (src.strip(), cfg, pr.returncode, ', "error was constructed but not emitted"' if 'not emitted' in pr.stderr else ''))
        shutil.rmtree(d, ignore_errors=True)
        return {'reproduced': bool(found), 'detail': found[:6]}
    return replay


def src_text(eng, span):
    """source text of a MIR span (site identity that survives line-number shifts)"""
    if not span:
        return '?'
    m = re.match(r'(\S+?):(\d+):(\d+): (\d+):(\d+)', span)
    if not m:
        return span
    t = eng.src.span_text(m.group(1), int(m.group(2)), int(m.group(3)), int(m.group(4)), int(m.group(5)))
    return '%s `%s`' % (m.group(1), ' '.join((t or '').split())[:70])


# ----------------------------------------------------------------------------- C. crate-wide scan for *new* unchecked subtractions
# Every `a - b` that rustc compiled to SubWithOverflow + assert is listed in the audited inventory c16_sites.json by
# (function identity, source text). An inventory site is caller-contract dependent and not decided. A subtraction that is NOT
# in the inventory (a checked/saturating operation that became `-`, or new code) is decided by under-constrained symbolic
# execution of its function from entry; if it can underflow it goes to native replay on a stress corpus.

SITES_FILE = os.path.join(VERIF, 'c16_sites.json')


def fn_identity(eng, r):
    return '%s|%s|%s|%s' % (r['file'] or '', r['trait'] or '', r['self_ty'] or '', r['tail'] if r['file'] else r['name'])


def sub_sites_of(eng, r):
    """[(bb, span, source text)] of the SubWithOverflow asserts of one function (syntactic)"""
    from mirsym.mirparse import block_parsed
    fn = eng.get_fn(r['name'])
    out = []
    for bb, blk in fn.blocks.items():
        if blk.get('cleanup'):
            continue
        try:
            stmts, term = block_parsed(blk)
        except Exception:
            continue
        if term[0] == 'assert' and 'attempt to compute `{} - {}`' in term[3]:
            span = (blk.get('spans') or [None])[-1]
            out.append((bb, span, src_text(eng, span)))
    return out


def wide_scan(ctx, eng, record=False):
    inv = {}
    if os.path.exists(SITES_FILE):
        inv = json.load(open(SITES_FILE))['sites']
    elif not record:
        raise Inconclusive('c16_sites.json missing')
    new_inv = {}
    candidates = []
    nfun = nsite = 0
    for r in eng.records:
        if not r['is_plain']:
            pass
        mir = eng.mirs[r['mir']]
        hdr = mir.headers[r['name']]
        if not hdr.startswith('fn '):
            continue
        s_, e_ = mir.index[r['name']]
        if not any('SubWithOverflow' in ln for ln in mir.lines[s_:e_]):
            continue
        try:
            sites = sub_sites_of(eng, r)
        except Exception:
            continue
        if not sites:
            continue
        nfun += 1
        ident = fn_identity(eng, r)
        cur = new_inv.setdefault(ident, {})
        here = {}
        for (_, _, t) in sites:
            here[t] = here.get(t, 0) + 1
        for t, n_ in here.items():
            cur[t] = cur.get(t, 0) + n_
        nsite += len(sites)
        known = inv.get(ident, {})
        for (bb, span, t) in sites:
            if here[t] > known.get(t, 0):
                candidates.append((r, bb, span, t))
    if record:
        with open(SITES_FILE, 'w') as f:
            json.dump({'comment': 'audited inventory of unchecked usize subtractions (function identity -> source texts); caller-contract dependent, not decided by C16; '
                                  'a subtraction outside this list is decided by the wide scan', 'sites': new_inv}, f, indent=1, sort_keys=True)
        log('[C16] recorded %d subtraction sites in %d functions' % (nsite, nfun))
        return
    ctx.notes.append('wide scan: %d unchecked subtractions in %d functions, %d outside the audited inventory' % (nsite, nfun, len(candidates)))
    if not candidates:
        ctx.prop('wide-scan/no-unchecked-subtraction-outside-the-audited-inventory', [], z3.BoolVal(False), [], None, twin=False)
        return
    by_fn = {}
    for (r, bb, span, t) in candidates:
        by_fn.setdefault(r['name'], (r, []))[1].append((bb, span, t))
    eng.lenient = True
    eng.usize_bound = LIM
    eng.stubs = []
    eng.no_inline = [re.compile(r'to_string'), re.compile(r'ConfigSetter|set_heuristics|set_width_heuristics|Config::set(_cli)?$')]      # option setters: uninterpreted, the options are havoced
    eng.inline_only = [re.compile(r'src/shape\.rs'), re.compile(r'src/config/config_type\.rs'), re.compile(r'^Config::'), re.compile(r'^(std|core)::cmp::')]
    old_lb = eng.loop_bound
    eng.loop_bound = 3
    for name, (r, sites) in sorted(by_fn.items()):
        fn = eng.get_fn(name)
        st = State()
        wanted = {bb for (bb, _, _) in sites}
        hits = {}
        eng.block_budget = 60000
        eng.unsupported_as_outcome = True       # a path that leaves the executor's vocabulary ends there; see `cut` below
        try:
            args = [fresh_arg(eng, st, ty, 'a%d' % i) for i, (_, ty) in enumerate(fn.params)]
            outs = eng.run(name, args, st)
        except Exception as e:
            outs = None
            err = '%s: %s' % (type(e).__name__, e)
        finally:
            eng.block_budget = None
            eng.unsupported_as_outcome = False
        cut = [o for o in (outs or []) if o.kind == 'unsupported']
        for (bb, span, t) in sites:
            label = 'wide-scan/%s/new-subtraction `%s`' % (short_name(name), t[:80])
            if outs is None:
                ctx.inconclusive.append('%s: function could not be explored (%s)' % (label, err[:200]))
                continue
            pcs = [o for o in outs if o.kind == 'panic' and o.info.get('fn') == name and o.info.get('bb') == bb]
            if not pcs:
                if cut:
                    ctx.inconclusive.append('%s: no failing path found, but %d paths ended outside the executor (%s)' % (label, len(cut), str(cut[0].info.get('msg'))[:120]))
                    continue
                # not reached as a failing assert on any explored path: safe within the exploration bound
                ctx.prop(label + '/cannot-underflow(within the loop bound)', [], z3.BoolVal(False), [], None, twin=False)
                continue
            mv = []
            seen = set()
            for o in pcs:
                for v in model_vars_of(o.state):
                    if v.decl().name() not in seen:
                        seen.add(v.decl().name())
                        mv.append(v)
            viol = z3.Or([z3.And(o.state.pc) if o.state.pc else z3.BoolVal(True) for o in pcs])
            ctx.prop(label + '/cannot-underflow', [], viol, mv[:40], make_corpus_replay(ctx, span), twin=False, hint=[z3.ULT(v, 300) for v in mv[:40] if z3.is_bv(v)])
    eng.loop_bound = old_lb


def short_name(name):
    return re.sub(r'<impl at (src/[^:]+):\d+:\d+: \d+:\d+>', r'<\1>', name)[-70:]


STRESS2 = r'''
mod a { mod b { mod c { mod d { mod e {
    /// Doc list:
    /// * first item with a rather long text that has to be wrapped somewhere along the way
    ///   * nested item, also long enough to need wrapping when the page is narrow
    ///     * third level &CacheEntryWithExpiryAndOwnerAndMoreThanTheLineCanHold and more words
    ///       1. numbered fourth level with text text text text text text text text
    fn documented(argument_one: usize) -> usize {
        // - plain comment list item that is long enough to wrap around the narrow page width
        //     - deeply indented sub item @aaaaaaaaaaaaaaaaaaaaaaaaaaaaaaaaaaaaaaaaaaaaaaaaaaaaaaaaaaaaaaaaaaaaaaaa
        let s = "a string literal that is long enough to be broken @aaaaaaaaaaaaaaaaaaaaaaaaaaaaaaaaaaaaaaaaaaaaaaaaaa #bbbbbbbbbbbbbbbbbbbbbbbbbbbbbbbbbbbbb";
        let v = vec![1, 2, 3].iter().map(|x| x + argument_one).filter(|x| *x > 1).collect::<Vec<_>>();
        match v.len() { 0 => 0, n if n > 3 => { n - 1 } _ => 2 }
    }
    struct S<'a, T: Clone + Send + Sync + 'a> { field_one: &'a T, field_two: Option<Vec<T>>, }
    impl<'a, T: Clone + Send + Sync + 'a> S<'a, T> { fn method(&self, x: usize, y: usize) -> Result<usize, String> { if x > y { Ok(x - y) } else { Err(format!("{} {}", x, y)) } } }
} } } } }
'''


STRESS3 = r'''
fn every_expression_kind(input: usize) -> usize {
    let task = async move { first_call().await; second_call().await };
    let other = async { alpha().await; beta().await; gamma().await };
    let u = unsafe { dangerous_call(input); another_dangerous_call(input) };
    let c = const { 1 + 2 + 3 + 4 + 5 + 6 + 7 + 8 + 9 + 10 + 11 + 12 };
    let closure = move |left: usize, right: usize| -> usize { helper(left); left + right };
    let Some(value) = optional_value(input) else { return_early(); return 0 };
    let tuple = (first_element(input), second_element(input), third_element(input));
    let array = [element_one(input), element_two(input), element_three(input)];
    let casted = long_function_name(input) as u64 as u32 as u16 as u8 as usize;
    let ranged = &array[lower_bound(input)..=upper_bound(input)];
    let chain = input.checked_add(1).and_then(|v| v.checked_mul(2)).unwrap_or(0).max(3);
    let lit = SomeStruct { field_one: input, field_two: input + 1, ..Default::default() };
    'outer: loop { while input > 0 { for i in 0..input { if i > 3 { break 'outer; } else { continue; } } } }
    let m = match input { 0 | 1 => first(), n if n > 100 && n < 1000 => second(n), _ => third() };
    let r = if input > 1 { branch_one(input) } else if input > 0 { branch_two(input) } else { 0 };
    let q = fallible(input)?.another_fallible(input)?.yet_another(input)?;
    let t: Result<usize, String> = try_call(input).map_err(|e| format!("failed with {e} for {input}"));
    macro_call!(input, input + 1, "some string literal", nested_call(input, input));
    return binary(input) + binary(input) * binary(input) - binary(input) / binary(input);
}
'''


STRESS4 = r'''
mod a {
    mod b {
        mod c {
            mod d {
                macro_rules! m {
                    () => {
                        1
                    };
                    ($a:expr, $b:expr) => {{
                        let x = $a + $b;
                        x
                    }};
                }
                macro_rules! n { ($($t:tt)*) => { $($t)* }; }
                impl T for S {
                    fn f(&self) -> usize {
                        let Some(x) = "a very long string literal that does not fit anywhere at all" else { return 0 };
                        match x { _ if true => { call!(x, y) } _ => 0 }
                    }
                }
            }
        }
    }
}
'''


def make_corpus_replay(ctx, span):
    def replay(model, r):
        bins = ensure_bins()
        rf = os.path.join(bins, 'rustfmt')
        import concurrent.futures as cf
        sp = re.match(r'(\S+?):(\d+):', span or '')
        want = '%s:%s:' % (sp.group(1), sp.group(2)) if sp else None
        d = os.path.join(BUILD, 'scratch', 'c16w-%d' % os.getpid())
        shutil.rmtree(d, ignore_errors=True)
        os.makedirs(d)
        files = []
        for i, txt in enumerate((STRESS, STRESS2, STRESS3, STRESS4)):
            p = os.path.join(d, 'stress%d.rs' % i)
            open(p, 'w').write(txt)
            files.append(p)
        for root in ('tests/source', 'tests/target'):
            for dp, dn, fns in os.walk(os.path.join(REPO, root)):
                for f in sorted(fns):
                    if f.endswith('.rs'):
                        files.append(os.path.join(dp, f))
        cfgs = ['max_width=%d,wrap_comments=true,format_strings=true,normalize_comments=true,format_code_in_doc_comments=true%s' % (mw, extra)
                for mw in (20, 26, 34, 40, 60) for extra in ('', ',hard_tabs=true', ',style_edition=2024')]
        env = run_env()
        # the generated stress files also under other indentation steps (usable page: max_width >= 5 * tab_spaces)
        wide = ['tab_spaces=%d,max_width=%d%s' % (ts, mw, extra) for ts in (2, 6, 7, 8) for mw in (20, 30, 35, 40, 45, 60) if mw >= 5 * ts for extra in ('', ',style_edition=2024')]
        jobs = [(f, c) for f in files[:4] for c in cfgs + wide] + [(f, c) for f in files[4:] for c in cfgs[:4]]

        def one(job):
            f, c = job
            try:
                pr = subprocess.run([rf, '--edition', '2021', '--emit', 'stdout', '--quiet', '--config', c, f], capture_output=True, text=True, env=env, timeout=60)
            except subprocess.TimeoutExpired:
                return None
            if 'panicked at' in pr.stderr:
                loc = re.search(r'panicked at ([^\n]*)', pr.stderr)
                return (os.path.relpath(f, REPO), c, loc.group(1) if loc else '?')
            return None
        hits = []
        with cf.ThreadPoolExecutor(max_workers=14) as ex:
            for res in ex.map(one, jobs):
                if res:
                    hits.append(res)
        shutil.rmtree(d, ignore_errors=True)
        rel = [h for h in hits if want and want in h[2]]
        return {'reproduced': bool(rel), 'detail': rel[:3], 'site': span, 'runs': len(jobs), 'other_panics': len(hits) - len(rel)}
    return replay


def _self_of(eng, r):
    return r['self_ty'] or eng._derive_self_ty(r)


def apply_format_lines_invariant(eng, st, selfref):
    """FormatLines scanner invariant (proved inductive in C07): last_was_space => line_len >= 1; counters < 2^32."""
    idx = {n: eng.src.field_index('FormatLines', n, 'src/formatting.rs') for n in ('last_was_space', 'line_len', 'cur_line', 'newline_count')}
    obj = eng.read_ref(st, selfref)
    lws = eng.lazy_field(st, obj, idx['last_was_space'], 'bool')
    ll = eng.lazy_field(st, obj, idx['line_len'], 'usize')
    cl = eng.lazy_field(st, obj, idx['cur_line'], 'usize')
    nc = eng.lazy_field(st, obj, idx['newline_count'], 'usize')
    st.assume(z3.Implies(lws, z3.UGE(ll.e, 1)))
    for v in (ll, cl, nc):
        st.assume(z3.ULT(v.e, LIM))


# ----------------------------------------------------------------------------- replay

STRESS = r'''
mod a { mod b { mod c { mod d { mod e { mod f { mod g { mod h {
    // a comment that is long enough to need wrapping when the page is narrow
    fn deeply_nested_function_name(argument_one: usize, argument_two: usize) -> usize {
        // another comment
        let value = argument_one + argument_two; /* trailing */ value
    }


    struct S { field_one: usize, field_two: usize }
} } } } } } } }
'''


def make_replay(ctx, kind, label, info):
    def replay(model, r):
        # API-level: run the real binary on nested stress input over a grid of (max_width, tab_spaces) taken from the model when present
        bins = ensure_bins()
        d = os.path.join(BUILD, 'scratch', 'c16-%d' % os.getpid())
        os.makedirs(d, exist_ok=True)
        p = os.path.join(d, 'stress.rs')
        with open(p, 'w') as f:
            f.write(STRESS)
        mws = sorted({v for k, v in model.items() if 'max_width' in k and isinstance(v, int) and 20 <= v <= 10000} | {20, 25, 40})
        tss = sorted({v for k, v in model.items() if 'tab_spaces' in k and isinstance(v, int) and 1 <= v <= 8} | {4, 8})
        hits = []
        for mw in mws[:4]:
            for ts in tss[:3]:
                if mw < 5 * ts:
                    continue
                for extra in ('', ',hard_tabs=true', ',wrap_comments=true', ',style_edition=2024'):
                    cmd = [os.path.join(bins, 'rustfmt'), '--emit', 'stdout', '--config', 'max_width=%d,tab_spaces=%d%s' % (mw, ts, extra), p]
                    pr = subprocess.run(cmd, capture_output=True, text=True, env=run_env(), timeout=60)
                    if pr.returncode not in (0, 1) or 'panicked' in pr.stderr:
                        loc = re.search(r'panicked at ([^\n]*)', pr.stderr)
                        hits.append({'cmd': ' '.join(cmd[1:]), 'exit': pr.returncode, 'panic': loc.group(1) if loc else pr.stderr[-200:]})
        shutil.rmtree(d, ignore_errors=True)
        sp = re.match(r'(\S+?):(\d+):', info.get('span') or '')
        want = '%s:%s:' % (sp.group(1), sp.group(2)) if sp else None
        rel = [h for h in hits if want and want in h['panic']]
        return {'reproduced': bool(rel), 'detail': rel[:3], 'site': info, 'all_hits': len(hits)}
    return replay


if __name__ == '__main__':
    if '--record-inventory' in sys.argv:
        c = Ctx('C16', 'quick', 0)
        e = c.engine('lib', loop_bound=10)
        wide_scan(c, e, record=True)
        sys.exit(0)
    main_wrapper('C16', build)
