#![feature(rustc_private)]
extern crate rustc_driver;
extern crate rustc_span;
// Native replay / translator-validation driver. Reads one JSON request per line on stdin,
// calls the real kernel through the cfg-guarded hooks, prints one JSON reply per line.
use rustfmt_nightly::verif_hooks as h;
use serde_json::{json, Value};
use std::io::{self, BufRead, Write};

fn us(v: &Value) -> usize {
    v.as_u64().expect("usize") as usize
}
fn pair(v: &Value) -> (usize, usize) {
    (us(&v[0]), us(&v[1]))
}
fn pairs(v: &Value) -> Vec<(usize, usize)> {
    v.as_array().expect("array").iter().map(pair).collect()
}

fn handle(req: &Value) -> Value {
    let op = req["op"].as_str().unwrap_or("");
    match op {
        "range_ops" => {
            let (e, c, i, a, m) = h::file_lines::range_ops(pair(&req["a"]), pair(&req["b"]));
            json!({"is_empty": e, "contains": c, "intersects": i, "adjacent_to": a,
                   "merge": m.map(|(l, h)| vec![l, h])})
        }
        "normalize" => {
            let out = h::file_lines::normalize(pairs(&req["ranges"]));
            json!({"out": out.iter().map(|(l, h)| vec![*l, *h]).collect::<Vec<_>>()})
        }
        "fl_query" => {
            let v = if req["ranges"].is_null() { None } else { Some(pairs(&req["ranges"])) };
            let (cl, cr) = h::file_lines::query(v, us(&req["line"]), us(&req["lo"]), us(&req["hi"]));
            json!({"contains_line": cl, "contains_range": cr})
        }
        "format_lines_scan" => {
            let mut config = rustfmt_nightly::Config::default();
            if let Some(v) = req["max_width"].as_u64() {
                config.set().max_width(v as usize);
            }
            if let Some(v) = req["tab_spaces"].as_u64() {
                config.set().tab_spaces(v as usize);
            }
            if let Some(v) = req["error_on_unformatted"].as_bool() {
                config.set().error_on_unformatted(v);
            }
            if let Some(v) = req["error_on_line_overflow"].as_bool() {
                config.set().error_on_line_overflow(v);
            }
            if let Some(js) = req["file_lines"].as_str() {
                config.set().file_lines(js.parse().expect("file_lines json"));
            }
            let skipped = if req["skipped"].is_null() { vec![] } else { pairs(&req["skipped"]) };
            let (events, errors, state) =
                h::formatting::format_lines_scan(req["text"].as_str().unwrap_or(""), &config, &skipped);
            json!({"events": events.iter().map(|(c, k)| json!([c, k])).collect::<Vec<_>>(),
                   "errors": errors.iter().map(|e| json!([e.0, e.1, e.2, e.3, e.4, e.5])).collect::<Vec<_>>(),
                   "state": [state.0, state.1, state.2]})
        }
        "format_lines_step" => {
            let mut config = rustfmt_nightly::Config::default();
            if let Some(v) = req["max_width"].as_u64() {
                config.set().max_width(v as usize);
            }
            if let Some(v) = req["tab_spaces"].as_u64() {
                config.set().tab_spaces(v as usize);
            }
            if let Some(v) = req["error_on_unformatted"].as_bool() {
                config.set().error_on_unformatted(v);
            }
            if let Some(v) = req["error_on_line_overflow"].as_bool() {
                config.set().error_on_line_overflow(v);
            }
            if let Some(js) = req["file_lines"].as_str() {
                config.set().file_lines(js.parse().expect("file_lines json"));
            }
            let skipped = if req["skipped"].is_null() { vec![] } else { pairs(&req["skipped"]) };
            let st = &req["state"];
            let state = (
                st[0].as_bool().unwrap_or(false),
                us(&st[1]),
                us(&st[2]),
                us(&st[3]),
                st[4].as_bool().unwrap_or(false),
                st[5].as_bool().unwrap_or(false),
            );
            let event = req["char"].as_u64().and_then(|c| char::from_u32(c as u32));
            let (ns, errors) = h::formatting::format_lines_step(
                &config,
                &skipped,
                state,
                event,
                req["kind"].as_u64().unwrap_or(0) as u8,
            );
            json!({"state": [ns.0, ns.1, ns.2, ns.3, ns.4, ns.5],
                   "errors": errors.iter().map(|e| json!([e.0, e.1, e.2, e.3, e.4, e.5])).collect::<Vec<_>>()})
        }
        "version_sort_matrix" => {
            let ids: Vec<String> = req["idents"].as_array().expect("idents").iter().map(|v| v.as_str().unwrap_or("").to_owned()).collect();
            let m = h::sort::version_sort_matrix(&ids);
            let s: String = m.iter().map(|x| match x { -1 => '<', 0 => '=', _ => '>' }).collect();
            json!({"matrix": s})
        }
        "make_diff" => {
            let hunks = h::rustfmt_diff::make_diff_plain(
                req["original"].as_str().unwrap_or(""),
                req["formatted"].as_str().unwrap_or(""),
                us(&req["context"]),
            );
            json!({"hunks": hunks.iter().map(|(a, b, ls)| json!([a, b, ls.iter().map(|(k, s)| json!([k, s])).collect::<Vec<_>>()])).collect::<Vec<_>>()})
        }
        "modified_lines" => {
            let (chunks, printed, reparsed) = h::rustfmt_diff::modified_lines(
                req["original"].as_str().unwrap_or(""),
                req["formatted"].as_str().unwrap_or(""),
            );
            let conv = |v: &Vec<(u32, u32, Vec<String>)>| v.iter().map(|(a, b, ls)| json!([a, b, ls])).collect::<Vec<_>>();
            json!({"chunks": conv(&chunks), "printed": printed, "reparsed": reparsed.as_ref().map(conv)})
        }
        "emit_pair" => {
            let out = h::emitter::emit_pair(
                req["mode"].as_str().unwrap_or(""),
                req["name"].as_str().unwrap_or("/x.rs"),
                req["original"].as_str().unwrap_or(""),
                req["formatted"].as_str().unwrap_or(""),
            );
            json!({"out": out})
        }
        "source_file_src" => {
            // environment contract used by C08: what rustc's source map keeps as the text of a file
            use rustc_span::source_map::{FilePathMapping, SourceMap};
            let text = req["text"].as_str().unwrap_or("").to_owned();
            let src = rustc_span::create_default_session_globals_then(|| {
                let sm = SourceMap::new(FilePathMapping::empty());
                let sf = sm.new_source_file(rustc_span::FileName::Custom("verif".to_owned()), text);
                sf.src.as_ref().map(|s| s.to_string())
            });
            json!({"src": src})
        }
        _ => json!({"error": format!("unknown op {op}")}),
    }
}

fn main() {
    let stdin = io::stdin();
    let stdout = io::stdout();
    let mut out = stdout.lock();
    for line in stdin.lock().lines() {
        let line = line.expect("read");
        if line.trim().is_empty() {
            continue;
        }
        let req: Value = match serde_json::from_str(&line) {
            Ok(v) => v,
            Err(e) => {
                writeln!(out, "{}", json!({"error": e.to_string()})).unwrap();
                continue;
            }
        };
        let res = std::panic::catch_unwind(|| handle(&req));
        let reply = match res {
            Ok(v) => v,
            Err(p) => {
                let msg = p
                    .downcast_ref::<String>()
                    .cloned()
                    .or_else(|| p.downcast_ref::<&str>().map(|s| s.to_string()))
                    .unwrap_or_default();
                json!({"panic": msg})
            }
        };
        writeln!(out, "{}", reply).unwrap();
    }
}
