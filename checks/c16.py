"""C16 — panic-freedom of the width arithmetic kernels under the "usable page" precondition.

Every MIR `assert(!overflow…)`, division-by-zero assert, str-slice bound and unwrap that is reachable in the
encoded kernels becomes an obligation `pre ∧ path ⇒ no panic`. Kernels whose contract is "rhs ≤ lhs"
(Indent - Indent, Indent - usize) are listed as precondition-dependent and not decided."""
from common import *
from mirsym.config import make_config

LIM = 1 << 32

# functions whose panics depend on a caller-established relation (documented contract), not on state/config
CONTRACT = {
    ('src/shape.rs', 'sub'): 'Indent - Indent / Indent - usize: callers subtract an indent they added earlier (rhs <= lhs)',
}


def install_models(eng, ctx, max_width_hi):
    def indent_model(eng, st, base):
        b = eng.fresh_bv(base + '.block_indent', 'usize')
        a = eng.fresh_bv(base + '.alignment', 'usize')
        st.assume(z3.ULT(b.e, LIM))
        st.assume(z3.ULT(a.e, LIM))
        return Tup([b, a], 'Indent')

    def shape_model(eng, st, base):
        w = eng.fresh_bv(base + '.width', 'usize')
        o = eng.fresh_bv(base + '.offset', 'usize')
        st.assume(z3.ULT(w.e, LIM))
        st.assume(z3.ULT(o.e, LIM))
        return Tup([w, indent_model(eng, st, base + '.indent'), o], 'Shape')

    def config_model(eng, st, base):
        ref, vals = make_config(eng, st, base=eng.fresh_name(base))
        mw, ts, cw = vals['max_width'].e, vals['tab_spaces'].e, vals['comment_width'].e
        st.assume(z3.And(z3.UGE(mw, 20), z3.ULE(mw, max_width_hi)))
        st.assume(z3.And(z3.UGE(ts, 1), z3.ULE(ts, 8)))
        st.assume(z3.UGE(mw, 5 * ts))
        st.assume(z3.ULE(cw, 10000))
        for k in ('blank_lines_upper_bound', 'blank_lines_lower_bound'):
            st.assume(z3.ULT(vals[k].e, LIM))
        return eng.read_ref(st, ref)

    eng.struct_models['Indent'] = indent_model
    eng.struct_models['Shape'] = shape_model
    eng.struct_models['Config'] = config_model


def fresh_arg(eng, st, ty, base):
    v = eng.fresh_of_type(st, ty, base)
    if isinstance(v, BV) and v.ty == 'usize':
        st.assume(z3.ULT(v.e, LIM))
    return v


def model_vars_of(st):
    """all integer/bool constants occurring in the path condition (for the counterexample)"""
    seen = {}

    def walk(e):
        if z3.is_const(e) and e.decl().kind() == z3.Z3_OP_UNINTERPRETED:
            if z3.is_bv(e) or z3.is_bool(e):
                seen[e.decl().name()] = e
            return
        for ch in e.children():
            walk(ch)
    for c in st.pc:
        walk(c)
    return list(seen.values())


def build(ctx):
    eng = ctx.engine('lib', loop_bound=10)
    hi = 200 if ctx.tier == 'quick' else 10000
    install_models(eng, ctx, hi)
    ctx.bounds = {'max_width': '20..=%d' % hi, 'tab_spaces': '1..=8', 'usable page': 'max_width >= 5*tab_spaces', 'comment_width': '<= 10000',
                  'indent/width/offset/usize arguments': '< 2^32 (block_indent otherwise arbitrary: nesting depth is input-controlled)', 'loop_unwind': 10}
    ctx.outside = ['stack depth, parser panics and their catch_unwind', 'debug_assert_eq!(line_number, count_newlines(buffer)) in formatting.rs',
                   'arithmetic inside AST rewriters other than the sites listed under functions_encoded',
                   'Indent - Indent and Indent - usize (caller contract rhs <= lhs): listed as precondition-dependent, not decided']
    ctx.assumptions = ['usable page: 20 <= max_width, max_width >= 5*tab_spaces, 1 <= tab_spaces <= 8', 'all widths/indents/offsets < 2^32',
                       'under-constrained execution for sites inside large functions: state before the site is arbitrary (sound for panic-freedom: over-approximates)']
    eng.lenient = True
    eng.usize_bound = LIM
    rp_sites = []

    # ---------------- A. every function of src/shape.rs
    shape_fns = [r for r in eng.records if r['is_plain'] and r['file'] == 'src/shape.rs' and not r['name'].startswith('shape::test')]
    eng.inline_only = [re.compile(r'src/shape\.rs'), re.compile(r'src/config/config_type\.rs'), re.compile(r'^Config::')]

    def cut_loops(eng_, st, args, ci):
        # the two push loops of to_string_inner only build the string (C08c); no arithmetic after this point
        return [(st, 'cut', 'String building loop')]
    eng.stub(r'^<std::ops::Range<usize> as (std::iter::)?Iterator>::next$', cut_loops, 'cut: string-building loops of Indent::to_string_inner end the path (no arithmetic follows)')
    decided = contract = 0
    for r in sorted(shape_fns, key=lambda r: r['name']):
        fn = eng.get_fn(r['name'])
        if fn.kind != 'fn' or r['trait'] in ('Debug', 'Clone', 'Copy'):
            continue
        if r['method'] == 'to_string_inner':
            # private helper: analysed through its three callers (to_string, to_string_with_newline,
            # Shape::to_string_with_newline), which pass the constant offsets 1 and 0
            continue
        st = State()
        try:
            args = [fresh_arg(eng, st, ty, 'a%d' % i) for i, (_, ty) in enumerate(fn.params)]
            outs = ctx.check_outcomes(eng.run(r['name'], args, st), r['name'])
        except Unsupported as e:
            ctx.notes.append('not encoded: %s (%s)' % (r['name'], e))
            continue
        label = '%s%s' % ((r['self_ty'] or '') + '::' if r['self_ty'] else '', r['tail'])
        if r['trait']:
            label = '<%s as %s>::%s' % (_self_of(eng, r), r['trait'], r['method'])
        is_contract = (r['file'], r['method']) in CONTRACT and r['trait'] == 'Sub'
        npanic = 0
        by_site = {}
        for i, o in enumerate(outs):
            if o.kind != 'panic':
                continue
            by_site.setdefault((o.info.get('span'), o.info.get('msg', '')[:60], o.info.get('fn'), o.info.get('bb')), []).append(o)
        for (span, msg, pfn, bb), os_ in sorted(by_site.items(), key=lambda kv: str(kv[0])):
            npanic += 1
            if is_contract:
                contract += 1
                continue
            decided += 1
            mv = []
            seen = set()
            for o in os_:
                for v in model_vars_of(o.state):
                    if v.decl().name() not in seen:
                        seen.add(v.decl().name())
                        mv.append(v)
            viol = z3.Or([z3.And(o.state.pc) if o.state.pc else z3.BoolVal(True) for o in os_])
            ctx.prop('shape/%s/%s[%s]' % (label, src_text(eng, span), msg[:40]), [], viol, mv,
                     make_replay(ctx, 'shape', label, os_[0].info), twin=False, hint=[z3.ULT(v, 300) for v in mv if z3.is_bv(v)])
        if npanic == 0:
            # no reachable panic edge at all: record as a trivially discharged obligation (still regenerated every run)
            ctx.prop('shape/%s/no-panic-edge-reachable' % label, [], z3.BoolVal(False), [], None, twin=False)
        if is_contract and npanic:
            ctx.notes.append('precondition-dependent (not decided): %s — %s' % (label, CONTRACT[(r['file'], r['method'])]))
    eng.stubs = [x for x in eng.stubs if 'cut:' not in x[2]]

    # ---------------- B. sites inside larger functions (under-constrained from function entry)
    eng.inline_only = [re.compile(r'src/shape\.rs'), re.compile(r'src/config/config_type\.rs'), re.compile(r'^Config::'), re.compile(r'^(std|core)::cmp::'),
                       re.compile(r'src/formatting\.rs'), re.compile(r'FullCodeCharKind::'), re.compile(r'ErrorKind::')]
    eng.no_inline = [re.compile(r'to_string')]   # string building is C08c's subject; not needed to reach the arithmetic
    sites = [
        dict(key='missed_spans/process_comment', method='process_comment', self_ty='FmtVisitor', file='src/missed_spans.rs'),
        dict(key='missed_spans/push_vertical_spaces', method='push_vertical_spaces', self_ty='FmtVisitor', file='src/missed_spans.rs'),
        dict(key='formatting/FormatLines::new_line', method='new_line', self_ty='FormatLines', file='src/formatting.rs', pre='format_lines'),
        dict(key='formatting/FormatLines::char', method='char', self_ty='FormatLines', file='src/formatting.rs', pre='format_lines'),
        dict(key='utils/last_line_used_width', method='last_line_used_width', free=True),
        dict(key='lib/FormattedSnippet::unwrap_code_block', method='unwrap_code_block', self_ty='FormattedSnippet', file='src/lib.rs'),
    ]
    for site in sites:
        try:
            if site.get('free'):
                name = eng.find(site['method'], free=True)
            else:
                name = eng.find(site['method'], self_ty=site['self_ty'], file=site['file'])
        except KeyError as e:
            raise Inconclusive('kernel not found: %s' % e)
        fn = eng.get_fn(name)
        st = State()
        args = [fresh_arg(eng, st, ty, 'a%d' % i) for i, (_, ty) in enumerate(fn.params)]
        if site.get('pre') == 'format_lines':
            apply_format_lines_invariant(eng, st, args[0])
        t = time.time()
        outs = ctx.check_outcomes(eng.run(name, args, st), name)
        n = 0
        by_site = {}
        for i, o in enumerate(outs):
            if o.kind != 'panic':
                continue
            if o.info.get('fn') != name:
                continue      # panics inside inlined shape.rs / config functions are decided in part A
            by_site.setdefault((o.info.get('span'), o.info.get('msg', '')[:60], o.info.get('bb')), []).append(o)
        for (span, msg, bb), os_ in sorted(by_site.items(), key=lambda kv: str(kv[0])):
            n += 1
            mv = []
            seen = set()
            for o in os_:
                for v in model_vars_of(o.state):
                    if v.decl().name() not in seen:
                        seen.add(v.decl().name())
                        mv.append(v)
            viol = z3.Or([z3.And(o.state.pc) if o.state.pc else z3.BoolVal(True) for o in os_])
            ctx.prop('%s/%s[%s]' % (site['key'], src_text(eng, span), msg[:40]), [], viol, mv,
                     make_replay(ctx, 'site', site['key'], os_[0].info), twin=False, hint=[z3.ULT(v, 300) for v in mv if z3.is_bv(v)])
        if n == 0:
            ctx.prop('%s/no-panic-edge-reachable' % site['key'], [], z3.BoolVal(False), [], None, twin=False)
        log('[C16] %s: %d paths, %d panic edges in the kernel itself, %.1fs' % (site['key'], len(outs), n, time.time() - t))
    ctx.notes.append('shape.rs: %d panic edges decided, %d precondition-dependent' % (decided, contract))
    ctx.cover('cover/usable-page-satisfiable', [z3.BoolVal(True)])


def src_text(eng, span):
    """source text of a MIR span (site identity that survives line-number shifts)"""
    if not span:
        return '?'
    m = re.match(r'(\S+?):(\d+):(\d+): (\d+):(\d+)', span)
    if not m:
        return span
    t = eng.src.span_text(m.group(1), int(m.group(2)), int(m.group(3)), int(m.group(4)), int(m.group(5)))
    return '%s `%s`' % (m.group(1), ' '.join((t or '').split())[:70])


def _self_of(eng, r):
    return r['self_ty'] or eng._derive_self_ty(r)


def apply_format_lines_invariant(eng, st, selfref):
    """FormatLines scanner invariant (proved inductive in C07): last_was_space => line_len >= 1; counters < 2^32."""
    idx = {n: eng.src.field_index('FormatLines', n, 'src/formatting.rs') for n in ('last_was_space', 'line_len', 'cur_line', 'newline_count')}
    obj = eng.read_ref(st, selfref)
    lws = eng.lazy_field(st, obj, idx['last_was_space'], 'bool')
    ll = eng.lazy_field(st, obj, idx['line_len'], 'usize')
    cl = eng.lazy_field(st, obj, idx['cur_line'], 'usize')
    nc = eng.lazy_field(st, obj, idx['newline_count'], 'usize')
    st.assume(z3.Implies(lws, z3.UGE(ll.e, 1)))
    for v in (ll, cl, nc):
        st.assume(z3.ULT(v.e, LIM))


# ----------------------------------------------------------------------------- replay

STRESS = r'''
mod a { mod b { mod c { mod d { mod e { mod f { mod g { mod h {
    // a comment that is long enough to need wrapping when the page is narrow
    fn deeply_nested_function_name(argument_one: usize, argument_two: usize) -> usize {
        // another comment
        let value = argument_one + argument_two; /* trailing */ value
    }


    struct S { field_one: usize, field_two: usize }
} } } } } } } }
'''


def make_replay(ctx, kind, label, info):
    def replay(model, r):
        # API-level: run the real binary on nested stress input over a grid of (max_width, tab_spaces) taken from the model when present
        bins = ensure_bins()
        d = os.path.join(BUILD, 'scratch', 'c16-%d' % os.getpid())
        os.makedirs(d, exist_ok=True)
        p = os.path.join(d, 'stress.rs')
        with open(p, 'w') as f:
            f.write(STRESS)
        mws = sorted({v for k, v in model.items() if 'max_width' in k and isinstance(v, int) and 20 <= v <= 10000} | {20, 25, 40})
        tss = sorted({v for k, v in model.items() if 'tab_spaces' in k and isinstance(v, int) and 1 <= v <= 8} | {4, 8})
        hits = []
        for mw in mws[:4]:
            for ts in tss[:3]:
                if mw < 5 * ts:
                    continue
                for extra in ('', ',hard_tabs=true', ',wrap_comments=true', ',style_edition=2024'):
                    cmd = [os.path.join(bins, 'rustfmt'), '--emit', 'stdout', '--config', 'max_width=%d,tab_spaces=%d%s' % (mw, ts, extra), p]
                    pr = subprocess.run(cmd, capture_output=True, text=True, env=run_env(), timeout=60)
                    if pr.returncode not in (0, 1) or 'panicked' in pr.stderr:
                        loc = re.search(r'panicked at ([^\n]*)', pr.stderr)
                        hits.append({'cmd': ' '.join(cmd[1:]), 'exit': pr.returncode, 'panic': loc.group(1) if loc else pr.stderr[-200:]})
        shutil.rmtree(d, ignore_errors=True)
        sp = re.match(r'(\S+?):(\d+):', info.get('span') or '')
        want = '%s:%s:' % (sp.group(1), sp.group(2)) if sp else None
        rel = [h for h in hits if want and want in h['panic']]
        return {'reproduced': bool(rel), 'detail': rel[:3], 'site': info, 'all_hits': len(hits)}
    return replay


if __name__ == '__main__':
    main_wrapper('C16', build)
