"""C04 (thin kernels) — skip-marked code and opted-out files are emitted verbatim: the recognisers and the whole-file gates.

1. utils.rs::{is_skip, is_skip_nested, contains_skip} on their real MIR with rustc_ast's MetaItem as an under-constrained object: a word
   attribute is a skip attribute iff its path prints as `rustfmt::skip` or `rustfmt_skip`; a list attribute iff it is `cfg_attr` with
   exactly two entries whose second is itself a skip item; nothing else is; an attribute list contains a skip iff one of its parsable
   attributes is one.
2. formatting.rs::format_project: a module carrying the skip attribute is never handed to format_file (path input), and on standard
   input the text is echoed back instead of formatted (environment as in projmodel.py).
3. Session::format_input_inner: with disable_all_formatting nothing reaches format_project (standard input is echoed, a path yields an
   empty report).
The visitors that copy the span of a skipped item / statement / expression / field / arm, skip::macros and skip::attributes are AST
code and stay outside."""
from common import *
from mirsym.config import make_config
from mirsym.intrinsics import str_expr, some, NONE
import projmodel


def deref(eng, st, v):
    while isinstance(v, Ref):
        v = eng.read_ref(st, v)
    return v


def build(ctx):
    ctx.level = 'other'
    eng = ctx.engine('lib', loop_bound=8)
    ctx.bounds = {'attributes per list': '0..2', 'modules': '0..2', 'cfg_attr nesting': 'one level per step (the nested call is a symbolic answer, decided by the same obligation one level down)'}
    ctx.outside = ['visitors / rewriters that copy the span of a skipped node (visit_item, visit_stmt, format_expr, fields, variants, arms)', 'skip::macros, skip::attributes (SkipContext)',
                   'the ignore matcher and the @generated scan themselves', 'pprust::path_to_string']
    ctx.assumptions = ['rustc_ast::MetaItem / MetaItemInner / Attribute are under-constrained objects; path_to_string, has_name, ThinVec::len, Attribute::meta are symbolic',
                       'Symbol::intern(text).as_str() = text']
    rp = make_replay(ctx)
    part_recognisers(ctx, eng, rp)
    try:
        mark = len(ctx.obls)
        part_generated_marker(ctx, eng, rp)
    except (Unsupported, Inconclusive) as e_:
        # the function is not written over lines().take(limit).any(contains): decide it as a whole over symbolic short texts instead
        del ctx.obls[mark:]
        eng.stubs = []
        eng.lenient = False
        eng.inline_only = None
        ctx.notes.append('is_generated_file is not a lines / take / any chain (%s): decided as a whole function over texts of up to %d characters' % (str(e_)[:80], 4 if ctx.tier == 'quick' else 5))
        part_generated_whole(ctx, eng, rp, 4 if ctx.tier == 'quick' else 5)
    part_module_gate(ctx, eng, rp)
    part_disable_all(ctx, eng, rp)
    import resolvermodel
    resolvermodel.part_visit_sub_mod(ctx, eng, 'C04', resolvermodel.replay_visit_sub_mod)


KF_CFG3 = 'C04/is_skip/cfg_attr-with-more-than-one-attribute-is-not-recognised'


def part_recognisers(ctx, eng, rp):
    from mirsym.engine import StrSort
    isk = eng.find('is_skip', free=True)
    eng.stubs = []
    eng.lenient = True
    eng.inline_only = [re.compile(r'^is_skip$'), re.compile(r'^(utils::)?(skip_annotation|depr_skip_annotation)$')]
    # helpers the recogniser is split into (same file, small) are part of it
    eng.inline_pred = lambda e, name, callee: e.fn_file(name) == 'src/utils.rs' and len(e.get_fn(name).blocks) <= 40 and not re.search(r'is_skip_nested$', name)
    P = StrVal(e=z3.Const('printed_path', StrSort))
    H = z3.Bool('has_name(cfg_attr)')
    SKIP, DEPR = str_expr(StrVal(s='rustfmt::skip')), str_expr(StrVal(s='rustfmt_skip'))
    seen = set()
    for L in (0, 1, 2, 3):          # entries of a list attribute, the predicate included
        eng.stubs = []
        N = [z3.Bool('entry%d_is_a_skip_item' % j) for j in range(L)]
        entries = [Opaque('MetaItemInner', 'entry%d' % j) for j in range(L)]
        eng.stub(r'pprust::path_to_string$', lambda e, s_, a, c: (s_.trace.append(('path_to_string',)), P)[1], 'pprust::path_to_string(path) = symbolic text')
        eng.stub(r'Symbol::intern$', lambda e, s_, a, c: deref(e, s_, a[0]), 'Symbol::intern(text) = text')
        eng.stub(r'Symbol::as_str$', lambda e, s_, a, c: deref(e, s_, a[0]), 'Symbol::as_str = the text')

        def has_name(e, s_, a, c):
            s_.trace.append(('has_name', repr(a[1])))
            return H
        eng.stub(r'MetaItem>::has_name$|MetaItem::has_name$', has_name, 'MetaItem::has_name(sym) = symbolic; the symbol is observed')
        eng.stub(r'ThinVec::<.*>::len$', lambda e, s_, a, c, L=L: bv_const(L, 'usize'), 'ThinVec::len = the number of harness entries')
        eng.stub(r'ThinVec<.*> as (std::ops::)?Deref>::deref$|ThinVec::<.*>::as_slice$', lambda e, s_, a, c, entries=entries: e.ref_to(s_, Seq(entries), False, 'entries'), 'ThinVec deref = the harness entries')

        def nested(e, s_, a, c, N=N):
            v = deref(e, s_, a[0])
            return N[int(str(v.ident)[5:])]
        eng.stub(r'^is_skip_nested$|utils::is_skip_nested$', nested, 'is_skip_nested(entry j) = symbolic (decided by its own obligation)')
        st = State()
        mi = eng.ref_to(st, Opaque('rustc_ast::MetaItem', 'meta'), False, 'meta')
        outs = ctx.check_outcomes(eng.run(isk, [mi], st), 'is_skip')
        for pi, o in enumerate(outs):
            if o.kind != 'ret':
                ctx.prop('is_skip/L%d/p%d/no-panic' % (L, pi), o.state.pc, z3.BoolVal(True), [], rp, twin=False)
                continue
            tr = [t[0] for t in o.state.trace]
            v = o.value
            if 'path_to_string' in tr:
                seen.add('word')
                if L == 0:
                    ctx.prop('is_skip/p%d/word-attribute:iff-the-path-is-rustfmt::skip-or-rustfmt_skip' % pi, o.state.pc, v != z3.Or(P.e == SKIP, P.e == DEPR), [], rp, twin=False)
            elif 'has_name' in tr:
                seen.add('list')
                sym = [t[1] for t in o.state.trace if t[0] == 'has_name'][0]
                ctx.prop('is_skip/L%d/p%d/list-attribute:asks-for-cfg_attr' % (L, pi), o.state.pc, z3.BoolVal('cfg_attr' not in sym), [], rp, twin=False)
                # cfg_attr(predicate, attr1, attr2, ..): a skip among the attributes after the predicate counts
                want = z3.And(H, z3.Or(N[1:])) if L >= 2 else z3.BoolVal(False)
                ctx.prop('is_skip/L%d/p%d/list-attribute:iff-cfg_attr-carrying-a-skip-item-after-its-predicate' % (L, pi), o.state.pc, v != want, [H] + N, rp, twin=False,
                         classes=[(KF_CFG3, z3.And(H, z3.BoolVal(L >= 3), z3.Or(N[1:]) if L >= 2 else z3.BoolVal(False)))])
            else:
                seen.add('other')
                if L == 0:
                    ctx.prop('is_skip/p%d/any-other-attribute-is-not-a-skip' % pi, o.state.pc, v, [], rp, twin=False)
    if seen != {'word', 'list', 'other'}:
        raise Inconclusive('is_skip: arms explored %r' % (sorted(seen),))
    # nested entry: a meta item is asked again, a literal is not a skip (only if the recogniser still has that helper)
    try:
        isn = eng.find('is_skip_nested', free=True)
    except KeyError:
        isn = None
        ctx.notes.append('is_skip_nested no longer exists: entries are judged inside is_skip itself')
    if isn is not None:
        eng.stubs = []
        eng.inline_only = [re.compile(r'^is_skip_nested$')]
        R = z3.Bool('inner_item_is_skip')
        eng.stub(r'^is_skip$|utils::is_skip$', lambda e, s_, a, c: (s_.trace.append(('is_skip',)), R)[1], 'is_skip(inner meta item) = symbolic')
        st = State()
        outs = ctx.check_outcomes(eng.run(isn, [eng.ref_to(st, Opaque('rustc_ast::MetaItemInner', 'inner'), False, 'inner')], st), 'is_skip_nested')
        arms = set()
        for pi, o in enumerate(outs):
            if o.kind != 'ret':
                continue
            if any(t[0] == 'is_skip' for t in o.state.trace):
                arms.add('meta')
                ctx.prop('is_skip_nested/p%d/meta-item:the-answer-of-is_skip' % pi, o.state.pc, o.value != R, [R], rp, twin=False)
            else:
                arms.add('lit')
                ctx.prop('is_skip_nested/p%d/literal:not-a-skip' % pi, o.state.pc, o.value, [], rp, twin=False)
        if arms != {'meta', 'lit'}:
            raise Inconclusive('is_skip_nested: arms explored %r' % (sorted(arms),))
    # contains_skip: some parsable attribute is a skip
    cs = eng.find('contains_skip', free=True)
    for k in (0, 1, 2):
        eng.stubs = []
        eng.inline_only = [re.compile(r'contains_skip')]
        has_meta = [z3.Bool('attr%d.meta_is_some' % i) for i in range(k)]
        skp = [z3.Bool('attr%d.is_skip' % i) for i in range(k)]

        def meta(e, s_, a, c):
            at = deref(e, s_, a[0])
            i = int(str(at.ident)[4:])
            return Enum('Option', z3.If(has_meta[i], z3.BitVecVal(1, 64), z3.BitVecVal(0, 64)), {1: Tup([Opaque('rustc_ast::MetaItem', 'meta%d' % i)])})
        eng.stub(r'Attribute>::meta$|Attribute::meta$', meta, 'Attribute::meta = Some(meta_i) | None, symbolic')
        eng.stub(r'^is_skip$|utils::is_skip$', lambda e, s_, a, c: skp[int(str(deref(e, s_, a[0]).ident)[4:])], 'is_skip(meta_i) = symbolic')
        st = State()
        attrs = eng.ref_to(st, Seq([Opaque('Attribute', 'attr%d' % i) for i in range(k)]), False, 'attrs')
        outs = ctx.check_outcomes(eng.run(cs, [attrs], st), 'contains_skip')
        want = z3.Or([z3.And(has_meta[i], skp[i]) for i in range(k)]) if k else z3.BoolVal(False)
        for pi, o in enumerate(outs):
            if o.kind != 'ret':
                ctx.prop('contains_skip/k%d/p%d/no-panic' % (k, pi), o.state.pc, z3.BoolVal(True), [], rp, twin=False)
                continue
            ctx.prop('contains_skip/k%d/p%d/iff-some-parsable-attribute-is-a-skip' % (k, pi), o.state.pc, o.value != want, has_meta + skp, rp, twin=False)
    eng.stubs = []
    eng.lenient = False
    eng.inline_only = None
    eng.inline_pred = None


def part_generated_marker(ctx, eng, rp):
    """formatting/generated.rs::is_generated_file: true iff one of the first `generated_marker_line_search_limit` lines contains the marker"""
    igf = eng.find('is_generated_file', free=True)
    eng.lenient = True
    eng.inline_only = [re.compile(r'is_generated_file'), re.compile(r'src/config/config_type\.rs'), re.compile(r'^Config::')]
    for L in range(0, 4):
        for limit in range(0, L + 2):
            eng.stubs = []
            marker = [z3.Bool('line%d_contains_the_marker' % j) for j in range(L)]
            lines = [StrVal(e=z3.Const('line%d' % j, __import__('mirsym.engine', fromlist=['StrSort']).StrSort)) for j in range(L)]

            def s_lines(e, s_, a, c, lines=lines):
                cell = e.ref_to(s_, Seq(list(lines)), False, 'lines')
                return Tup([cell, bv_const(0, 'usize')], 'OwnedIter')
            eng.stub(r'<impl str>::lines$', s_lines, 'str::lines = the harness lines')

            def s_take(e, s_, a, c):
                it = a[0]
                k = a[1].concrete()
                if k is None:
                    raise Unsupported('take with a symbolic limit')
                cell, pos = it.items
                seq = e.read_ref(s_, cell)
                return Tup([e.ref_to(s_, Seq(list(seq.items[pos.concrete():][:k])), False, 'taken'), bv_const(0, 'usize')], 'OwnedIter')
            eng.stub(r'Lines<.*> as (std::iter::)?Iterator>::take$', s_take, 'Lines::take(n)')

            def s_contains(e, s_, a, c, lines=lines, marker=marker):
                ln, pat = deref(e, s_, a[0]), deref(e, s_, a[1])
                if not (isinstance(pat, StrVal) and pat.s == '@generated'):
                    raise Inconclusive('is_generated_file looks for %r' % (pat,))
                for j, l_ in enumerate(lines):
                    if isinstance(ln, StrVal) and ln.e is not None and ln.e.eq(l_.e):
                        return marker[j]
                raise Unsupported('contains on %r' % (ln,))
            eng.stub(r'<impl str>::contains::<', s_contains, 'line.contains("@generated") = symbolic per line; the pattern is checked')
            st = State()
            cfgref, cv = make_config(eng, st, values={'generated_marker_line_search_limit': bv_const(limit, 'usize')})
            text = StrVal(e=z3.Const('file_text', __import__('mirsym.engine', fromlist=['StrSort']).StrSort))
            outs = ctx.check_outcomes(eng.run(igf, [text, Ref(cfgref.key, cfgref.projs, False)], st), 'is_generated_file')
            want = z3.Or(marker[:min(limit, L)]) if min(limit, L) else z3.BoolVal(False)
            for pi, o in enumerate(outs):
                if o.kind != 'ret':
                    ctx.prop('generated/L%d/limit%d/p%d/no-panic' % (L, limit, pi), o.state.pc, z3.BoolVal(True), marker, rp, twin=False)
                    continue
                ctx.prop('generated/L%d/limit%d/p%d/iff-the-marker-is-on-one-of-the-first-limit-lines' % (L, limit, pi), o.state.pc, o.value != want, marker, rp, twin=False)
    eng.stubs = []
    eng.lenient = False
    eng.inline_only = None


def part_generated_whole(ctx, eng, rp, N):
    """is_generated_file over symbolic texts of every length 0..N whose characters are arbitrary ASCII, with the marker "@generated" represented
    by one reserved character (strmodel.py): true iff one of the first `limit` lines (str::lines) contains the marker."""
    import strmodel
    igf = eng.find('is_generated_file', free=True)
    MARK, LF = 1, 10
    nob = 0
    eng.lenient = True
    eng.inline_only = [re.compile(r'is_generated_file'), re.compile(r'src/config/config_type\.rs'), re.compile(r'^Config::')]
    try:
        for n in range(0, N + 1):
            for limit in range(0, 4):
                eng.stubs = []
                M = strmodel.Model(eng, atoms={'@generated': MARK})
                M.install()
                text = strmodel.sym_text(n)
                st = State()
                for c_ in text.items:
                    st.assume(z3.And(z3.UGE(c_.e, 1), z3.ULT(c_.e, 128), c_.e != 13))
                cfgref, cv = make_config(eng, st, values={'generated_marker_line_search_limit': bv_const(limit, 'usize')})
                arg = eng.ref_to(st, text, False, 'original_snippet')
                outs = ctx.check_outcomes(eng.run(igf, [arg, Ref(cfgref.key, cfgref.projs, False)], st), 'is_generated_file(whole)')
                cs = list(text.items)
                mv = [c_.e for c_ in cs]
                for pi, o in enumerate(outs):
                    tag = 'generated-whole/n%d/limit%d/p%d' % (n, limit, pi)
                    if o.kind != 'ret':
                        ctx.prop(tag + '/no-panic', o.state.pc, z3.BoolVal(True), mv, rp, twin=False)
                        continue
                    for (s1, lf) in M.fork_mask(eng, o.state.fork(), cs, lambda ch: ch.e == LF):
                        # line index of every character under this placement of the line feeds
                        line_of, k = [], 0
                        for i in range(n):
                            line_of.append(k)
                            if lf[i]:
                                k += 1
                        want = z3.Or([z3.And(cs[i].e == MARK) for i in range(n) if line_of[i] < limit and not lf[i]] or [z3.BoolVal(False)])
                        nob += 1
                        got = o.value if z3.is_bool(o.value) else (o.value.e != 0)
                        ctx.prop(tag + '/c%d/iff-the-marker-is-on-one-of-the-first-limit-lines' % nob, s1.pc, got != want, mv, rp, twin=False)
    finally:
        eng.stubs = []
        eng.lenient = False
        eng.inline_only = None
    if not nob:
        raise Inconclusive('is_generated_file(whole): nothing explored')


def part_module_gate(ctx, eng, rp):
    K = 2
    nskip = 0
    for stdin in (False, True):
        for k in range(1, K + 1):
            outs, info = projmodel.run_format_project(ctx, eng, k, stdin)
            ctx.paths += len(outs)
            for pi, o in enumerate(outs):
                if o.kind != 'ret':
                    continue
                ev = projmodel.events(o)
                fmts = [e for e in ev if e[0] == 'format']
                tag = 'module-gate/%s/k%d/p%d' % ('stdin' if stdin else 'file', k, pi)
                if not stdin:
                    for f in fmts:
                        nskip += 1
                        ctx.prop(tag + '/a-module-with-the-skip-attribute-is-not-formatted(module %d)' % f[1], o.state.pc, info['skipattr'][f[1]], info['skipattr'], rp, twin=False)
                else:
                    # standard input: the first module with a skip attribute ends the run with the input echoed back; nothing after it is formatted
                    echoed = any(e[0] == 'echo' for e in ev)
                    for f in fmts:
                        nskip += 1
                        ctx.prop(tag + '/stdin:a-module-with-the-skip-attribute-is-echoed-not-formatted(module %d)' % f[1], o.state.pc, info['skipattr'][f[1]], info['skipattr'], rp, twin=False)
                    if echoed:
                        done = [f[1] for f in fmts]
                        nxt = len(done)
                        ctx.prop(tag + '/stdin:echo-only-for-a-skip-attribute', o.state.pc, z3.Not(info['skipattr'][nxt]) if nxt < k else z3.BoolVal(True), info['skipattr'], rp, twin=False)
    if not nskip:
        raise Inconclusive('module gate: no path formats a module')


def part_disable_all(ctx, eng, rp):
    fii = eng.find('format_input_inner', self_ty='Session', file='src/formatting.rs')
    fn = eng.get_fn(fii)
    eng.stubs = []
    eng.lenient = True
    eng.inline_only = [re.compile(r'format_input_inner'), re.compile(r'src/config/config_type\.rs'), re.compile(r'^Config::')]

    def session_closure(e, s_, a, c):
        # rustc_span::create_session_if_not_set_then(edition, f) = f(&globals)
        return e.call_value(s_, a[1], [Opaque('&SessionGlobals', 'globals')], c.dest_ty)
    eng.stub(r'create_session_if_not_set_then::<', session_closure, 'create_session_if_not_set_then(edition, f) = f(globals)')
    eng.stub(r'version_meets_requirement$', lambda e, s_, a, c: e.fresh_bool('version_ok'), 'Config::version_meets_requirement symbolic')
    eng.stub(r'(^|::)format_project::<', lambda e, s_, a, c: (s_.trace.append(('format_project',)), Enum('Result', 0, {0: Tup([Opaque('FormatReport', 'fp')])}))[1], 'format_project observed')
    eng.stub(r'(^|::)echo_back_stdin$', lambda e, s_, a, c: (s_.trace.append(('echo',)), Enum('Result', 0, {0: Tup([Opaque('FormatReport', 'echo')])}))[1], 'echo_back_stdin observed')
    eng.stub(r'FormatReport::new$', lambda e, s_, a, c: Opaque('FormatReport', 'empty'), 'FormatReport::new')
    eng.stub(r'<(config::)?Config as (std::clone::)?Clone>::clone$', lambda e, s_, a, c: deref(e, s_, a[0]), 'Config::clone = the same options')
    nd = 0
    for is_text in (False, True):
        st = State()
        cfgref, cv = make_config(eng, st)
        sfields = [n for n, _ in eng.src.struct_fields('Session', 'src/lib.rs')]
        sess = Opaque('Session', 'sess')
        st.notes[('lazy', sess.ident, sfields.index('config'))] = deref(eng, st, cfgref)
        sref = eng.ref_to(st, sess, True, 'session')
        inp = Enum('Input', 1 if is_text else 0, {1: Tup([StrVal(e=z3.Const('stdin_text', __import__('mirsym.engine', fromlist=['StrSort']).StrSort))]), 0: Tup([Opaque('PathBuf', 'file')])})
        iv = eng.enum_variants('Input')
        if iv != ['File', 'Text']:
            raise Inconclusive('Input variants changed: %r' % (iv,))
        outs = ctx.check_outcomes(eng.run(fii, [sref, inp, eng.fresh_bool('is_macro_def')], st), 'format_input_inner')
        daf = cv['disable_all_formatting']
        for pi, o in enumerate(outs):
            if o.kind != 'ret':
                continue
            tr = [t[0] for t in o.state.trace]
            tag = 'disable_all_formatting/%s/p%d' % ('text' if is_text else 'file', pi)
            if 'format_project' in tr:
                nd += 1
                ctx.prop(tag + '/format_project-is-not-reached-when-formatting-is-disabled', o.state.pc, daf, [daf], rp, twin=False)
            if 'echo' in tr:
                ctx.prop(tag + '/echo-only-when-formatting-is-disabled', o.state.pc, z3.Not(daf), [daf], rp, twin=False)
    if not nd:
        raise Inconclusive('format_input_inner: no path reaches format_project')
    eng.stubs = []
    eng.lenient = False
    eng.inline_only = None


def cli_findings():
    import hashlib
    bins = ensure_bins()
    rf = os.path.join(bins, 'rustfmt')
    d = os.path.join(BUILD, 'scratch', 'c04-%d' % os.getpid())
    shutil.rmtree(d, ignore_errors=True)
    os.makedirs(d)
    found = {}
    bad = 'fn   f( ) { }\n'

    def run(args, src, name='x.rs', stdin=None):
        p = os.path.join(d, name)
        open(p, 'w').write(src)
        r = subprocess.run([rf] + args + ([] if stdin is not None else [name]), input=stdin, capture_output=True, text=True, env=run_env(), timeout=60, cwd=d)
        return r, open(p).read()
    for what, attr, skipped in (('rustfmt::skip', '#[rustfmt::skip]\n', True), ('rustfmt_skip', '#[rustfmt_skip]\n', True), ('cfg_attr(rustfmt, rustfmt::skip)', '#[cfg_attr(rustfmt, rustfmt::skip)]\n', True),
                                ('cfg_attr(rustfmt, rustfmt_skip)', '#[cfg_attr(rustfmt, rustfmt_skip)]\n', True), ('cfg_attr with two attributes', '#[cfg_attr(rustfmt, rustfmt::skip, inline)]\n', True),
                                ('nested cfg_attr', '#[cfg_attr(rustfmt, cfg_attr(rustfmt, rustfmt::skip))]\n', True), ('cfg_attr without a skip', '#[cfg_attr(rustfmt, inline)]\n', False),
                                ('another attribute', '#[inline]\n', False), ('no attribute', '', False)):
        src = attr + bad
        r, now = run(['--emit', 'stdout', '--quiet'], src)
        out = r.stdout
        kept = bad in out
        if kept != skipped:
            found.setdefault(KF_CFG3 if what == 'cfg_attr with two attributes' else 'other', []).append('%s: the item is %s' % (what, 'kept verbatim' if kept else 'reformatted'))
    # generated marker: anywhere in the first generated_marker_line_search_limit (default 5) lines
    for line_no, skipped in ((1, True), (5, True), (6, False)):
        src = '// header\n' * (line_no - 1) + '// @generated\n' + bad
        r, now = run(['--config', 'format_generated_files=false'], src)
        if (now == src) != skipped:
            found.setdefault('other', []).append('@generated on line %d with format_generated_files=false: the file is %s' % (line_no, 'left alone' if now == src else 'rewritten'))
    # whole-file opt-outs
    r, now = run([], '#![rustfmt::skip]\n' + bad)
    if now != '#![rustfmt::skip]\n' + bad:
        found.setdefault('other', []).append('a file with an inner skip attribute was rewritten')
    r = subprocess.run([rf], input='#![rustfmt::skip]\n' + bad, capture_output=True, text=True, env=run_env(), timeout=60, cwd=d)
    if r.stdout != '#![rustfmt::skip]\n' + bad:
        found.setdefault('other', []).append('standard input with an inner skip attribute is not echoed back: %r' % r.stdout[:40])
    r, now = run(['--config', 'disable_all_formatting=true'], bad)
    if now != bad:
        found.setdefault('other', []).append('disable_all_formatting=true rewrote the file')
    r = subprocess.run([rf, '--config', 'disable_all_formatting=true'], input=bad, capture_output=True, text=True, env=run_env(), timeout=60, cwd=d)
    if r.stdout != bad:
        found.setdefault('other', []).append('disable_all_formatting=true on standard input does not echo the input: %r' % r.stdout[:40])
    r, now = run(['--check', '--config', 'disable_all_formatting=true'], bad)
    if r.returncode != 0:
        found.setdefault('other', []).append('--check with disable_all_formatting=true exits %d' % r.returncode)
    shutil.rmtree(d, ignore_errors=True)
    return found


def make_replay(ctx):
    def replay(model, r):
        f = cli_findings()
        key = r.ob.meta.get('key')
        if key:
            return {'reproduced': key in f, 'detail': f.get(key, [])[:3]}
        other = {k: v for k, v in f.items() if k not in ctx.open_keys}
        return {'reproduced': bool(other), 'detail': {k: v[:3] for k, v in other.items()}}
    return replay


if __name__ == '__main__':
    main_wrapper('C04', build, level='other')
