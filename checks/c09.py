"""C09 (first half) — style editions 2015, 2018 and 2021 are indistinguishable at every decision point of the crate.

Every place where the lib's MIR can tell style editions apart is collected from the dump: comparison calls on StyleEdition,
switchInt on a StyleEdition discriminant, and the per-option style_edition_default functions. For each, the solver decides that
the outcome is the same for all members of {2015, 2018, 2021}. Identity with the pinned release is outside this technique."""
from common import *
from mirsym.mirparse import block_parsed

CLASS = (0, 1, 2)     # Edition2015, Edition2018, Edition2021
CONFIG_PLUMBING = re.compile(r'^src/config/|config_proc_macro')


def build(ctx):
    ctx.level = 'other'
    eng = ctx.engine('lib', loop_bound=6)
    ctx.bounds = {'style editions': 'the class {2015, 2018, 2021} (symbolic pair)', 'sites': 'every comparison call / discriminant switch on StyleEdition and every style_edition_default in the lib MIR'}
    ctx.outside = ['byte-identity with the pinned release 1.8.0 (needs two builds and the formatter)', 'style editions flowing through types other than StyleEdition (none today: '
                   'grep StyleEdition as IntToInt casts is part of the scan)', 'language-edition (not style-edition) dependent parsing']
    ctx.assumptions = ['rustc_span::edition::Edition::partial_cmp is the derived discriminant order', 'config plumbing (src/config: conversion, printing, parsing of the option itself) legitimately distinguishes editions and is listed, not checked']
    se_v = eng.enum_variants('StyleEdition')
    if se_v[:3] != ['Edition2015', 'Edition2018', 'Edition2021']:
        raise Inconclusive('StyleEdition variants changed: %r' % (se_v,))

    def span_edition_cmp(eng_, st_, args, ci):
        a, b = (deref(eng_, st_, x) for x in args)
        lt = a.discr < b.discr
        d = z3.If(lt, z3.BitVecVal(-1, 64), z3.If(a.discr == b.discr, z3.BitVecVal(0, 64), z3.BitVecVal(1, 64)))
        return Enum('Option', 1, {1: Tup([Enum('Ordering', d, {})])})
    eng.stub(r'rustc_span::edition::Edition as (std::cmp::)?PartialOrd>::partial_cmp$|^rustc_span::edition::Edition::partial_cmp$|Edition as PartialOrd>::partial_cmp$', span_edition_cmp,
             'rustc_span Edition::partial_cmp = derived discriminant order')
    pcmp = eng.find('partial_cmp', self_ty='StyleEdition', file='src/config/options.rs', trait='PartialOrd')
    rp = make_replay(ctx)

    def cmp_outcome(op, se_expr, K, const_left=False):
        """z3 Bool: outcome of `se <op> K` (or K <op> se) through the real partial_cmp MIR, as an ite over its paths"""
        st = State()
        for x in (se_expr, K):
            if not isinstance(x, int):
                st.assume(z3.And(x >= 0, x < len(se_v)))
        a = Enum('StyleEdition', se_expr, {})
        b = Enum('StyleEdition', K, {})
        ra, rb = eng.ref_to(st, a), eng.ref_to(st, b)
        if const_left:
            ra, rb = rb, ra
        outs = eng.run(pcmp, [ra, rb], st)
        res = z3.BoolVal(False)
        for o in outs:
            if o.kind != 'ret':
                raise Inconclusive('partial_cmp does not return: %r' % (o.info,))
            pcl = [c for c in o.state.pc[(2 if not isinstance(K, int) else 1):]]
            pc = z3.And(pcl) if pcl else z3.BoolVal(True)
            v = o.value
            ordd = v.payloads[1].items[0].discr if 1 in v.payloads else z3.BitVecVal(0, 64)
            is_some = v.discr == 1
            r = {'lt': z3.And(is_some, ordd == -1), 'le': z3.And(is_some, ordd != 1), 'gt': z3.And(is_some, ordd == 1), 'ge': z3.And(is_some, ordd != -1),
                 'eq': z3.And(is_some, ordd == 0), 'ne': z3.Not(z3.And(is_some, ordd == 0))}[op]
            res = z3.If(pc, r, res)
        return res

    s1, s2 = z3.BitVec('se1', 64), z3.BitVec('se2', 64)
    in_class = [z3.Or([s1 == k for k in CLASS]), z3.Or([s2 == k for k in CLASS])]
    sites = 0
    skipped_plumbing = []
    call_re = re.compile(r'StyleEdition as (?:std::cmp::)?(PartialOrd|PartialEq|Ord)>::(lt|le|gt|ge|eq|ne|partial_cmp|cmp)$')
    for r in eng.records:
        mir = eng.mirs[r['mir']]
        s, e = mir.index[r['name']]
        body = mir.lines[s:e]
        if not any('StyleEdition' in ln for ln in body):
            continue
        if not mir.headers[r['name']].startswith('fn '):
            continue
        fn = eng.get_fn(r['name'])
        file_of = r['file'] or guess_file(fn)
        derived = r['file'] is not None and r['trait'] is not None and r['self_ty'] is None      # impl span covers only the trait name: #[derive(..)]
        plumbing = bool(file_of and CONFIG_PLUMBING.search(file_of)) or derived
        for bb, blk in fn.blocks.items():
            if blk.get('cleanup'):
                continue
            try:
                stmts, term = block_parsed(blk)
            except Exception:
                continue
            # (a) comparison calls
            if term[0] == 'call' and term[2][0] == 'path':
                m = call_re.search(term[2][1])
                if m:
                    op = m.group(2)
                    label = '%s bb%d `%s`' % (short(r['name']), bb, src_of(eng, blk))
                    if plumbing:
                        skipped_plumbing.append(label)
                        continue
                    consts = [const_operand(eng, fn, stmts, a) for a in term[3]]
                    sites += 1
                    if op in ('partial_cmp', 'cmp'):
                        ctx.prop('site/%s/raw-ordering-of-style-editions-used' % label, [], z3.BoolVal(True), [], rp, twin=False, meta={'site': label})
                        continue
                    if consts[0] is None and consts[1] is None:
                        # two run-time style editions compared: any pair inside the class must give the same answer
                        t1, t2 = z3.BitVec('se3', 64), z3.BitVec('se4', 64)
                        o1 = cmp_outcome(op, s1, t1)
                        o2 = cmp_outcome(op, s2, t2)
                        ctx.prop('site/%s/two-run-time-editions-compared' % label, in_class + [z3.Or([t1 == k for k in CLASS]), z3.Or([t2 == k for k in CLASS]), (s1 == t1) == (s2 == t2)],
                                 o1 != o2, [s1, s2, t1, t2], rp, meta={'site': label})
                        continue
                    if consts[1] is not None:
                        o1, o2 = cmp_outcome(op, s1, consts[1]), cmp_outcome(op, s2, consts[1])
                        kname = se_v[consts[1]]
                    else:
                        o1, o2 = cmp_outcome(op, s1, consts[0], True), cmp_outcome(op, s2, consts[0], True)
                        kname = se_v[consts[0]]
                    ctx.prop('site/%s/%s-%s-is-the-same-for-2015-2018-2021' % (label, op, kname), in_class, o1 != o2, [s1, s2], rp, meta={'site': label})
            # (b) switch on a StyleEdition discriminant
            if term[0] == 'switch':
                dl = discr_local_of(fn, stmts, term[1])
                if dl is not None and is_style_edition_ty(fn.locals.get(dl[0], '') if not dl[1] else place_ty(dl)):
                    label = '%s bb%d `%s`' % (short(r['name']), bb, src_of(eng, blk))
                    if plumbing:
                        skipped_plumbing.append(label)
                        continue
                    sites += 1
                    tg = dict(term[2])
                    dest = [tg.get(k, term[3]) for k in CLASS]
                    ctx.prop('site/%s/match-on-style-edition-does-not-separate-2015-2018-2021' % label, [], z3.BoolVal(len(set(dest)) != 1), [], rp, twin=False,
                             meta={'site': label, 'targets': dest})
    ctx.notes.append('%d decision sites outside config plumbing; %d sites in config plumbing listed, not checked' % (sites, len(skipped_plumbing)))
    ctx.samples.append({'config_plumbing_sites_not_checked': skipped_plumbing[:40]})
    if sites < 20:
        raise Inconclusive('only %d style-edition decision sites found (expected about 40): the scan is broken' % sites)

    # (c) per-option defaults (the macro-generated impls share one MIR name: every body is taken)
    nd = 0
    eng.lenient = True
    eng.inline_only = [re.compile(r'style_edition_default')]
    seen_bodies = set()
    for r in eng.records:
        if not (r['is_plain'] and r['method'] == 'style_edition_default'):
            continue
        for fn in eng.mirs[r['mir']].get_all(r['name']):
            if len(fn.params) != 1 or not fn.raw.startswith('fn ') or fn.fingerprint in seen_bodies and False:
                continue
            if 'MIR FOR CTFE' in fn.raw:
                continue
            nd += 1
            st = State()
            se = z3.BitVec('se', 64)
            st.assume(z3.Or([se == k for k in CLASS]))
            label = '%s#%d->%s' % (short(r['name']), nd, (fn.ret_ty or '').split('::')[-1][:30])
            try:
                outs = eng.exec_fn(st, fn, [Enum('StyleEdition', se, {})])
            except Unsupported as e:
                ctx.notes.append('default not encoded: %s (%s)' % (label, e))
                continue
            ctx.paths += len(outs)
            rets = [o for o in outs if o.kind == 'ret']
            if len(rets) <= 1:
                ctx.prop('default/%s/does-not-branch-inside-the-class' % label, [], z3.BoolVal(False), [], rp, twin=False)
                continue
            for i in range(len(rets)):
                for j in range(i + 1, len(rets)):
                    if canon(rets[i].value) == canon(rets[j].value):
                        continue
                    pi = substitute_se(rets[i].state.pc, se, s1)
                    pj = substitute_se(rets[j].state.pc, se, s2)
                    ctx.prop('default/%s/paths%d-%d/different-defaults-not-both-reachable-inside-the-class' % (label, i, j), in_class, z3.And(pi + pj), [s1, s2], make_replay(ctx, 'default'), twin=False)
    eng.lenient = False
    eng.inline_only = None
    if nd < 50:
        raise Inconclusive('only %d style_edition_default functions found' % nd)
    ctx.notes.append('%d style_edition_default functions' % nd)
    ctx.cover('cover/class-has-three-members', [z3.Distinct(s1, s2)] + in_class)


def deref(eng, st, v):
    while isinstance(v, Ref):
        v = eng.read_ref(st, v)
    return v


def substitute_se(pc, old, new):
    return [z3.substitute(c, (old, new)) for c in pc]


def canon(v):
    s = repr(v)
    return re.sub(r'[!#]\d+', '', s)


def short(name):
    return re.sub(r'<impl at (src/[^:]+):\d+:\d+: \d+:\d+>', r'<\1>', name)[-90:]


def guess_file(fn):
    m = re.search(r'at (src/[a-z_/]+\.rs)', fn.raw[:3000])
    return m.group(1) if m else None


def src_of(eng, blk):
    sp = (blk.get('spans') or [None])[-1]
    if not sp:
        return '?'
    m = re.match(r'(\S+?):(\d+):(\d+): (\d+):(\d+)', sp)
    if not m:
        return sp
    t = eng.src.span_text(m.group(1), int(m.group(2)), int(m.group(3)), int(m.group(4)), int(m.group(5)))
    return '%s: %s' % (m.group(1), ' '.join((t or '').split())[:60])


def is_style_edition_ty(ty):
    ty = ty.strip()
    return bool(re.search(r'(^|::)StyleEdition$', ty)) and not ty.startswith('&') and 'Option' not in ty


def place_ty(pl):
    for p in reversed(pl[1]):
        if p[0] == 'field' and len(p) > 2:
            return p[2]
    return ''


def discr_local_of(fn, stmts, op):
    """switchInt(move _x) where _x = discriminant(P): -> P"""
    if op[0] not in ('copy', 'move') or op[1][1]:
        return None
    x = op[1][0]
    for stt in reversed(stmts):
        if stt[0] == 'assign' and stt[1] == (x, ()) and stt[2][0] == 'discr':
            pl = stt[2][1]
            # strip a leading deref: discriminant((*_3)) where _3: &StyleEdition
            if pl[1] and pl[1][-1][0] == 'deref' and len(pl[1]) == 1:
                ty = fn.locals.get(pl[0], '')
                if re.search(r'(^|::)StyleEdition$', ty.replace('&', '').strip()):
                    return (pl[0], ())
                return None
            return pl
    return None


def const_operand(eng, fn, stmts, op):
    """the StyleEdition constant an argument operand refers to (index), or None if it is a run-time value"""
    if op[0] == 'const':
        txt = op[1]
    elif op[0] in ('copy', 'move') and not op[1][1]:
        x = op[1][0]
        txt = None
        for stt in reversed(stmts):
            if stt[0] == 'assign' and stt[1] == (x, ()):
                rv = stt[2]
                if rv[0] == 'use' and rv[1][0] == 'const':
                    txt = rv[1][1]
                elif rv[0] == 'ref' and not rv[2][1]:
                    # &_y where _y = StyleEdition::EditionN in this block
                    y = rv[2][0]
                    for s2 in reversed(stmts):
                        if s2[0] == 'assign' and s2[1] == (y, ()) and s2[2][0] == 'aggregate' and s2[2][1] == 'adt':
                            vi = eng.variant_index('StyleEdition', s2[2][2].split('::')[-1])
                            return vi
                    return None
                break
        if txt is None:
            return None
    else:
        return None
    if 'promoted[' in txt:
        st = State()
        try:
            v = eng.eval_const(st, fn, txt)
        except Unsupported:
            return None
        v = deref(eng, st, v)
        if isinstance(v, Enum) and v.name == 'StyleEdition':
            return v.concrete()
        return None
    vi = eng.variant_index('StyleEdition', txt.split('::')[-1])
    return vi


# ----------------------------------------------------------------------------- native: the three editions on a corpus

def corpus_findings(what=None, limit=None):
    bins = ensure_bins()
    rf = os.path.join(bins, 'rustfmt')
    import concurrent.futures as cf
    files = []
    for root in ('tests/source', 'tests/target', 'src'):
        for dp, dn, fns in os.walk(os.path.join(REPO, root)):
            for f in sorted(fns):
                if f.endswith('.rs'):
                    files.append(os.path.join(dp, f))
    extra = os.path.join(BUILD, 'scratch', 'c09-%d' % os.getpid())
    os.makedirs(extra, exist_ok=True)
    crafted = {'raw_ident_imports.rs': 'use a::{r#zeta, alpha, r#beta, Gamma};\nuse r#zz::x;\nuse aa::y;\n',
               'bounds.rs': "pub trait PrettyPrinter<'tcx>: Printer<'tcx, Error = fmt::Error, Path = Self, Region = Self, Type = Self, DynExistential = Self, Const = Self> {}\n"}
    for n, t in crafted.items():
        p = os.path.join(extra, n)
        open(p, 'w').write(t)
        files.append(p)
    if limit:
        files = files[:limit]
    env = run_env()

    def one(p):
        outs = []
        for se in ('2015', '2018', '2021'):
            r = subprocess.run([rf, '--emit', 'stdout', '--quiet', '--style-edition', se, '--config', 'error_on_line_overflow=false', p], capture_output=True, env=env, timeout=120)
            outs.append((r.returncode, r.stdout))
        if len(set(outs)) != 1:
            return p
        return None
    findings = []
    with cf.ThreadPoolExecutor(max_workers=14) as ex:
        for res in ex.map(one, files):
            if res:
                findings.append('style editions 2015/2018/2021 format %s differently' % os.path.relpath(res, REPO))
    # option defaults
    cfgs = []
    for se in ('2015', '2018', '2021'):
        r = subprocess.run([rf, '--style-edition', se, '--print-config', 'default', os.path.join(extra, 'cfg-%s.toml' % se)], capture_output=True, text=True, env=env, timeout=60, cwd=extra)
        try:
            txt = open(os.path.join(extra, 'cfg-%s.toml' % se)).read()
        except OSError:
            txt = r.stdout
        cfgs.append(re.sub(r'^(style_edition|edition|version) = .*$', '', txt, flags=re.M))
    if len(set(cfgs)) != 1:
        findings.append('option defaults differ between style editions 2015/2018/2021')
    shutil.rmtree(extra, ignore_errors=True)
    return findings


def make_replay(ctx, what=None):
    cache = {}

    def replay(model, r):
        if 'f' not in cache:
            cache['f'] = corpus_findings()
        f = cache['f']
        return {'reproduced': bool(f), 'detail': f[:5], 'site': r.ob.meta.get('site')}
    return replay


if __name__ == '__main__':
    main_wrapper('C09', build, level='other')
