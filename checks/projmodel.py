"""Shared harness for the module-level gate of formatting.rs::format_project (used by C04, C05, C13).

The real MIR of format_project, should_skip_module and the closures between them is executed under-constrained; everything that parses,
resolves, formats or prints is environment:
  ParseSess::new            Ok(psess) | Err
  Parser::parse_crate       Ok(krate) | Err(ParserError)                                   trace ('parse', ok)
  ModResolver::visit_crate  Ok(map of k (FileName::Real(path_i), module_i), i < k) | Err   trace ('resolve', ok); module 0 is the root (path_0 = main file)
  contains_skip(attrs_i)    skipattr[i]      ParseSess::ignore_file(path_i) ignored[i]      is_generated_file(src_i) generated[i]   (symbolic)
  FormatContext::format_file(path_i, module_i) Ok | Err                                     trace ('format', i, ok)
  echo_back_stdin                                                                           trace ('echo',)
  FormatReport::add_parsing_error                                                           trace ('parsing_error',)
Config is a symbolic Config object read through the real getters (skip_children, format_generated_files)."""
from common import *
from mirsym.config import make_config
from mirsym.intrinsics import NONE

FM = 'src/formatting.rs'


def run_format_project(ctx, eng, k, stdin):
    name = eng.find('format_project', free=True)
    eng.stubs = []
    eng.lenient = True
    eng.unsupported_as_outcome = False
    eng.inline_only = [re.compile(r'^format_project$|format_project::'), re.compile(r'^should_skip_module$'), re.compile(r'FormatContext::<.*>::ignore_file$|FormatContext.*ignore_file$'),
                       re.compile(r'src/config/config_type\.rs'), re.compile(r'^Config::')]
    # small helpers of the same file that the gate is split into (e.g. a helper around the generated-marker test) belong to it
    old_pred = eng.inline_pred
    eng.inline_pred = lambda e, nm, callee: e.fn_file(nm) == FM and len(e.get_fn(nm).blocks) <= 30 and not re.search(r'format_file|echo_back_stdin|format_input_inner|format_lines|handle_formatted_file', nm)
    st = State()
    cfgref, cv = make_config(eng, st)
    skipattr = [z3.Bool('module%d.has_skip_attribute' % i) for i in range(k)]
    ignored = [z3.Bool('module%d.file_matches_ignore' % i) for i in range(k)]
    generated = [z3.Bool('module%d.file_is_generated' % i) for i in range(k)]
    main_ignored = z3.Bool('main_file_matches_ignore')
    paths = [Opaque('PathBuf', 'path%d' % i) for i in range(k)]
    main_name = Enum('FileName', 1, {}) if stdin else Enum('FileName', 0, {0: Tup([Opaque('PathBuf', 'path0')])})
    mods = [Opaque('Module', 'module%d' % i) for i in range(k)]

    def fname_of(v):
        while isinstance(v, Ref):
            v = eng.read_ref(cur_state[0], v)
        return v
    cur_state = [st]

    def fn_eq(e, s_, a, c):
        cur_state[0] = s_
        x, y = fname_of(a[0]), fname_of(a[1])
        if not (isinstance(x, Enum) and isinstance(y, Enum)):
            raise Unsupported('FileName comparison %r %r' % (x, y))
        if x.concrete() != y.concrete():
            r = False
        elif x.concrete() == 1:
            r = True
        else:
            r = fname_of(x.payloads[0].items[0]).ident == fname_of(y.payloads[0].items[0]).ident
        return z3.BoolVal(r if c.func.endswith('::eq') else not r)
    eng.stub(r'^<&?(file_lines::)?FileName as (std::cmp::)?PartialEq(<.*>)?>::(eq|ne)$', fn_eq, 'FileName == on harness names (Stdin, Real(path_i))')
    eng.stub(r'^Input::file_name$', lambda e, s_, a, c: main_name, 'Input::file_name = Stdin or Real(path_0)')

    def fork2(tag, okv, errv):
        def f(e, s_, a, c):
            s2 = s_.fork()
            s_.trace.append((tag, True))
            s2.trace.append((tag, False))
            return [(s_, 'ret', Enum('Result', 0, {0: Tup([okv(e, s_, a)])})), (s2, 'ret', Enum('Result', 1, {1: Tup([errv])}))]
        return f
    eng.stub(r'ParseSess::new$', fork2('psess', lambda e, s_, a: Opaque('ParseSess', 'psess'), Opaque('ErrorKind', 'psess')), 'ParseSess::new = Ok | Err')
    eng.stub(r'Parser::<.*>::parse_crate$|Parser::parse_crate$', fork2('parse', lambda e, s_, a: Opaque('Crate', 'krate'), Opaque('ParserError', 'perr')), 'Parser::parse_crate = Ok(krate) | Err')
    eng.stub(r'<(parse::parser::)?ParserError as (std::cmp::)?PartialEq>::(eq|ne)$', lambda e, s_, a, c: e.fresh_bool('parser_error_is_panic'), 'ParserError comparison: symbolic')

    def visit_crate(e, s_, a, c):
        s2 = s_.fork()
        s_.trace.append(('resolve', True))
        s2.trace.append(('resolve', False))
        ents = [Tup([Enum('FileName', 0, {0: Tup([paths[i]])}), mods[i]]) for i in range(k)]
        return [(s_, 'ret', Enum('Result', 0, {0: Tup([Tup([Seq(ents)], 'EntryMap')])})), (s2, 'ret', Enum('Result', 1, {1: Tup([Opaque('ModuleResolutionError', 'merr')])}))]
    eng.stub(r'ModResolver::<.*>::visit_crate$', visit_crate, 'ModResolver::visit_crate = Ok(k modules, module 0 = the root) | Err')
    eng.stub(r'ModResolver::<.*>::new$', lambda e, s_, a, c: (s_.trace.append(('resolver_new', a[2])), Opaque('ModResolver', 'mr'))[1], 'ModResolver::new(.., recursive): the flag is observed')

    def map_into_iter(e, s_, a, c):
        m = a[0]
        while isinstance(m, Ref):
            m = e.read_ref(s_, m)
        cell = e.ref_to(s_, m.items[0], True, 'owned')
        return Tup([cell, bv_const(0, 'usize')], 'OwnedIter')
    eng.stub(r'^<BTreeMap<.*> as (std::iter::)?IntoIterator>::into_iter$', map_into_iter, 'BTreeMap::into_iter over the k modules')
    def owned_next(e, s_, a, c):
        it = e.read_ref(s_, a[0])
        cell, pos = it.items
        seq = e.read_ref(s_, cell)
        p_ = pos.concrete()
        if p_ >= len(seq.items):
            return Enum('Option', 0, {})
        e.write_ref(s_, a[0], Tup([cell, bv_const(p_ + 1, 'usize')], 'OwnedIter'))
        return Enum('Option', 1, {1: Tup([seq.items[p_]])})
    eng.stub(r'btree_map::IntoIter<.*> as (std::iter::)?Iterator>::next$', owned_next, 'btree_map::IntoIter::next over the k modules (when the code loops instead of filtering)')
    eng.stub(r'btree_map::IntoIter<.*> as (std::iter::)?Iterator>::filter::<', lambda e, s_, a, c: Tup([a[0], a[1]], 'Filter'), 'Iterator::filter (lazy; the real closure decides)')

    def mod_index(e, s_, v):
        while isinstance(v, Ref):
            v = e.read_ref(s_, v)
        if isinstance(v, Opaque) and str(v.ident).startswith('module'):
            return int(str(v.ident)[6:])
        if isinstance(v, Opaque) and str(v.ident).startswith('attrs'):
            return int(str(v.ident)[5:])
        if isinstance(v, Opaque) and str(v.ident).startswith('path'):
            return int(str(v.ident)[4:])
        if isinstance(v, Enum) and v.name == 'FileName' and v.concrete() == 0:
            return mod_index(e, s_, v.payloads[0].items[0])
        return None
    eng.stub(r'Module::<.*>::attrs$|Module::attrs$', lambda e, s_, a, c: Opaque('attrs', 'attrs%d' % mod_index(e, s_, a[0])), 'Module::attrs = the attribute list of module i')

    def contains_skip(e, s_, a, c):
        i = mod_index(e, s_, a[0])
        if i is None:
            raise Unsupported('contains_skip on %r' % (a[0],))
        s_.trace.append(('skipcheck', i))
        return skipattr[i]
    eng.stub(r'(^|::)contains_skip$', contains_skip, 'contains_skip(attrs_i) = symbolic per module')

    def ignore_file(e, s_, a, c):
        nm = a[1]
        while isinstance(nm, Ref):
            nm = e.read_ref(s_, nm)
        if isinstance(nm, Enum) and nm.name == 'FileName' and nm.concrete() == 1:
            return z3.BoolVal(False)       # the ignore set matches real paths only; standard input is never ignored
        i = mod_index(e, s_, a[1])
        if i is None:
            raise Unsupported('ignore_file on %r' % (a[1],))
        cur = [t for t in s_.trace if t[0] == 'resolve']
        if not cur:
            return main_ignored        # the early test on the main file, before anything is parsed
        return ignored[i]
    eng.stub(r'ParseSess::ignore_file$', ignore_file, 'ParseSess::ignore_file(path_i) = symbolic per file')

    def is_generated(e, s_, a, c):
        last = [t[1] for t in s_.trace if t[0] == 'skipcheck']
        if not last:
            raise Unsupported('is_generated_file before any module was looked at')
        return generated[last[-1]]
    eng.stub(r'(^|::)is_generated_file$', is_generated, 'is_generated_file(text of module i) = symbolic per module')
    eng.stub(r'span_to_file_contents$', lambda e, s_, a, c: Opaque('Arc<SourceFile>', 'sf'), 'span_to_file_contents')
    eng.stub(r'Option::<.*>::expect$', lambda e, s_, a, c: Opaque('src', 'src'), 'source text present')

    def format_file(e, s_, a, c):
        i = mod_index(e, s_, a[1])
        j = mod_index(e, s_, a[2])
        s2 = s_.fork()
        s_.trace.append(('format', i, j, True))
        s2.trace.append(('format', i, j, False))
        return [(s_, 'ret', Enum('Result', 0, {0: Tup([UNIT])})), (s2, 'ret', Enum('Result', 1, {1: Tup([Opaque('ErrorKind', 'ferr')])}))]
    eng.stub(r'FormatContext::<.*>::format_file$', format_file, 'FormatContext::format_file(path_i, module_i) = Ok | Err, observed')
    eng.stub(r'(^|::)echo_back_stdin$', lambda e, s_, a, c: (s_.trace.append(('echo',)), Enum('Result', 0, {0: Tup([Opaque('FormatReport', 'echo')])}))[1], 'echo_back_stdin observed')
    eng.stub(r'FormatReport::add_parsing_error$', lambda e, s_, a, c: (s_.trace.append(('parsing_error',)), UNIT)[1], 'FormatReport::add_parsing_error observed')
    eng.stub(r'FormatReport::new$', lambda e, s_, a, c: Opaque('FormatReport', 'report%d' % next(e.counter)), 'FormatReport::new')
    eng.stub(r'should_emit_verbose::<', lambda e, s_, a, c: UNIT, 'verbose printing ignored')
    fn = eng.get_fn(name)
    cfg_shared = Ref(cfgref.key, cfgref.projs, False)       # format_project takes &Config: nothing it calls may change the options
    args = [Opaque('Input', 'input'), cfg_shared, eng.fresh_of_type(st, fn.params[2][1], 'handler'), eng.fresh_bool('is_macro_def')]
    eng.block_budget = 400000
    try:
        outs = eng.run(name, args, st)
    finally:
        eng.block_budget = None
        eng.stubs = []
        eng.lenient = False
        eng.inline_only = None
        eng.inline_pred = old_pred
    for o in outs:
        if o.kind == 'unwind':
            raise Inconclusive('unwinding assertion in format_project: %s' % (o.info,))
    return outs, dict(cv=cv, skipattr=skipattr, ignored=ignored, generated=generated, main_ignored=main_ignored)


def events(o):
    return [t for t in o.state.trace if t[0] in ('psess', 'parse', 'resolve', 'format', 'echo', 'parsing_error', 'resolver_new')]


def external_variant_indices(eng, fn_name):
    """{variant name: discriminant value} for enums of other crates, read off a function that matches on them: `_d = discriminant(P);
    switchInt(move _d) -> [v: bbK, ...]` where bbK is reached for exactly one value and downcasts the same place, `(P as Variant)`."""
    mir = eng.mirs[eng.by_name[fn_name]['mir']]
    s0, e0 = mir.index[fn_name]
    blocks, cur = {}, None
    for ln in mir.lines[s0:e0]:
        m = re.match(r'^\s*bb(\d+)(?: \(cleanup\))?: \{', ln)
        if m:
            cur = int(m.group(1))
            blocks[cur] = []
        elif cur is not None:
            blocks[cur].append(ln)
    out, clash = {}, set()
    for bb, lines in blocks.items():
        discr_of = {}
        for ln in lines:
            md = re.match(r'^\s*(_\d+) = discriminant\((.+?)\);', ln)
            if md:
                discr_of[md.group(1)] = md.group(2).strip()
            m = re.search(r'switchInt\((?:move|copy) (_\d+)\) -> \[(.*?)\]', ln)
            if not m or m.group(1) not in discr_of:
                continue
            place = discr_of[m.group(1)]
            tg = re.findall(r'(\d+): bb(\d+)', m.group(2))
            count = {}
            for v, b in tg:
                count[b] = count.get(b, 0) + 1
            for v, b in tg:
                if count[b] != 1:
                    continue
                for l2 in blocks.get(int(b), [])[:8]:
                    m2 = re.search(r'\(' + re.escape(place) + r' as ([A-Z]\w+)\)', l2)
                    if m2:
                        nm = m2.group(1)
                        if nm in out and out[nm] != int(v):
                            clash.add(nm)
                        out.setdefault(nm, int(v))
                        break
    for nm in clash:
        out.pop(nm, None)
    return out
