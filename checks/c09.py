"""C09 (first half) — style editions 2015, 2018 and 2021 are indistinguishable at every decision point of the crate.

Every place where the lib's MIR can tell style editions apart is collected from the dump: comparison calls on StyleEdition,
switchInt on a StyleEdition discriminant, and the per-option style_edition_default functions. For each, the solver decides that
the outcome is the same for all members of {2015, 2018, 2021}.

Second half (identity with the pinned release), three frozen kernels only: (d) Config::default_with_style_edition for a symbolic released style
edition against the table the pinned release printed (reference/c09_release_defaults.json), (e) WidthHeuristics::scaled against the release's
computation written independently in IEEE binary32 for max_width 20..=10000, (f) which comparator compare_items consults per released style
edition.  Everything else about identity with the release is outside this technique."""
from common import *
from mirsym.mirparse import block_parsed

CLASS = (0, 1, 2)     # Edition2015, Edition2018, Edition2021
CONFIG_PLUMBING = re.compile(r'^src/config/|config_proc_macro')


def build(ctx):
    ctx.level = 'other'
    eng = ctx.engine('lib', loop_bound=6)
    ctx.bounds = {'style editions': 'the class {2015, 2018, 2021} (symbolic pair)', 'sites': 'every comparison call / discriminant switch on StyleEdition and every style_edition_default in the lib MIR'}
    ctx.outside = ['byte-identity with the pinned release 1.8.0 beyond the three frozen kernels (option defaults per released style edition, the scaled width heuristics, the comparator choice of compare_items): the rest needs two builds and the whole formatter', 'style editions flowing through types other than StyleEdition (none today: '
                   'grep StyleEdition as IntToInt casts is part of the scan)', 'language-edition (not style-edition) dependent parsing']
    ctx.assumptions = ['rustc_span::edition::Edition::partial_cmp is the derived discriminant order', 'config plumbing (src/config: conversion, printing, parsing of the option itself) legitimately distinguishes editions and is listed, not checked']
    se_v = eng.enum_variants('StyleEdition')
    if se_v[:3] != ['Edition2015', 'Edition2018', 'Edition2021']:
        raise Inconclusive('StyleEdition variants changed: %r' % (se_v,))

    def span_edition_cmp(eng_, st_, args, ci):
        a, b = (deref(eng_, st_, x) for x in args)
        lt = a.discr < b.discr
        d = z3.If(lt, z3.BitVecVal(-1, 64), z3.If(a.discr == b.discr, z3.BitVecVal(0, 64), z3.BitVecVal(1, 64)))
        return Enum('Option', 1, {1: Tup([Enum('Ordering', d, {})])})
    eng.stub(r'rustc_span::edition::Edition as (std::cmp::)?PartialOrd>::partial_cmp$|^rustc_span::edition::Edition::partial_cmp$|Edition as PartialOrd>::partial_cmp$', span_edition_cmp,
             'rustc_span Edition::partial_cmp = derived discriminant order')
    pcmp = eng.find('partial_cmp', self_ty='StyleEdition', file='src/config/options.rs', trait='PartialOrd')
    rp = make_replay(ctx)

    def cmp_outcome(op, se_expr, K, const_left=False):
        """z3 Bool: outcome of `se <op> K` (or K <op> se) through the real partial_cmp MIR, as an ite over its paths"""
        st = State()
        for x in (se_expr, K):
            if not isinstance(x, int):
                st.assume(z3.And(x >= 0, x < len(se_v)))
        a = Enum('StyleEdition', se_expr, {})
        b = Enum('StyleEdition', K, {})
        ra, rb = eng.ref_to(st, a), eng.ref_to(st, b)
        if const_left:
            ra, rb = rb, ra
        outs = eng.run(pcmp, [ra, rb], st)
        res = z3.BoolVal(False)
        for o in outs:
            if o.kind != 'ret':
                raise Inconclusive('partial_cmp does not return: %r' % (o.info,))
            pcl = [c for c in o.state.pc[(2 if not isinstance(K, int) else 1):]]
            pc = z3.And(pcl) if pcl else z3.BoolVal(True)
            v = o.value
            ordd = v.payloads[1].items[0].discr if 1 in v.payloads else z3.BitVecVal(0, 64)
            is_some = v.discr == 1
            r = {'lt': z3.And(is_some, ordd == -1), 'le': z3.And(is_some, ordd != 1), 'gt': z3.And(is_some, ordd == 1), 'ge': z3.And(is_some, ordd != -1),
                 'eq': z3.And(is_some, ordd == 0), 'ne': z3.Not(z3.And(is_some, ordd == 0))}[op]
            res = z3.If(pc, r, res)
        return res

    s1, s2 = z3.BitVec('se1', 64), z3.BitVec('se2', 64)
    in_class = [z3.Or([s1 == k for k in CLASS]), z3.Or([s2 == k for k in CLASS])]
    sites = 0
    skipped_plumbing = []
    call_re = re.compile(r'StyleEdition as (?:std::cmp::)?(PartialOrd|PartialEq|Ord)>::(lt|le|gt|ge|eq|ne|partial_cmp|cmp)$')
    for r in eng.records:
        mir = eng.mirs[r['mir']]
        s, e = mir.index[r['name']]
        body = mir.lines[s:e]
        if not any('StyleEdition' in ln for ln in body):
            continue
        if not mir.headers[r['name']].startswith('fn '):
            continue
        fn = eng.get_fn(r['name'])
        file_of = r['file'] or guess_file(fn)
        derived = r['file'] is not None and r['trait'] is not None and r['self_ty'] is None      # impl span covers only the trait name: #[derive(..)]
        plumbing = bool(file_of and CONFIG_PLUMBING.search(file_of)) or derived
        for bb, blk in fn.blocks.items():
            if blk.get('cleanup'):
                continue
            try:
                stmts, term = block_parsed(blk)
            except Exception:
                continue
            # (a) comparison calls
            if term[0] == 'call' and term[2][0] == 'path':
                m = call_re.search(term[2][1])
                if m:
                    op = m.group(2)
                    label = '%s bb%d `%s`' % (short(r['name']), bb, src_of(eng, blk))
                    if plumbing:
                        skipped_plumbing.append(label)
                        continue
                    consts = [const_operand(eng, fn, stmts, a) for a in term[3]]
                    sites += 1
                    if op in ('partial_cmp', 'cmp'):
                        ctx.prop('site/%s/raw-ordering-of-style-editions-used' % label, [], z3.BoolVal(True), [], rp, twin=False, meta={'site': label})
                        continue
                    if consts[0] is None and consts[1] is None:
                        # two run-time style editions compared: any pair inside the class must give the same answer
                        t1, t2 = z3.BitVec('se3', 64), z3.BitVec('se4', 64)
                        o1 = cmp_outcome(op, s1, t1)
                        o2 = cmp_outcome(op, s2, t2)
                        ctx.prop('site/%s/two-run-time-editions-compared' % label, in_class + [z3.Or([t1 == k for k in CLASS]), z3.Or([t2 == k for k in CLASS]), (s1 == t1) == (s2 == t2)],
                                 o1 != o2, [s1, s2, t1, t2], rp, meta={'site': label})
                        continue
                    if consts[1] is not None:
                        o1, o2 = cmp_outcome(op, s1, consts[1]), cmp_outcome(op, s2, consts[1])
                        kname = se_v[consts[1]]
                    else:
                        o1, o2 = cmp_outcome(op, s1, consts[0], True), cmp_outcome(op, s2, consts[0], True)
                        kname = se_v[consts[0]]
                    ctx.prop('site/%s/%s-%s-is-the-same-for-2015-2018-2021' % (label, op, kname), in_class, o1 != o2, [s1, s2], rp, meta={'site': label})
            # (b) switch on a StyleEdition discriminant
            if term[0] == 'switch':
                dl = discr_local_of(fn, stmts, term[1])
                if dl is not None and is_style_edition_ty(fn.locals.get(dl[0], '') if not dl[1] else place_ty(dl)):
                    label = '%s bb%d `%s`' % (short(r['name']), bb, src_of(eng, blk))
                    if plumbing:
                        skipped_plumbing.append(label)
                        continue
                    sites += 1
                    tg = dict(term[2])
                    dest = [tg.get(k, term[3]) for k in CLASS]
                    ctx.prop('site/%s/match-on-style-edition-does-not-separate-2015-2018-2021' % label, [], z3.BoolVal(len(set(dest)) != 1), [], rp, twin=False,
                             meta={'site': label, 'targets': dest})
    ctx.notes.append('%d decision sites outside config plumbing; %d sites in config plumbing listed, not checked' % (sites, len(skipped_plumbing)))
    ctx.samples.append({'config_plumbing_sites_not_checked': skipped_plumbing[:40]})
    if sites < 20:
        raise Inconclusive('only %d style-edition decision sites found (expected about 40): the scan is broken' % sites)

    # (c) per-option defaults (the macro-generated impls share one MIR name: every body is taken)
    nd = 0
    eng.lenient = True
    eng.inline_only = [re.compile(r'style_edition_default')]
    seen_bodies = set()
    for r in eng.records:
        if not (r['is_plain'] and r['method'] == 'style_edition_default'):
            continue
        for fn in eng.mirs[r['mir']].get_all(r['name']):
            if len(fn.params) != 1 or not fn.raw.startswith('fn ') or fn.fingerprint in seen_bodies and False:
                continue
            if 'MIR FOR CTFE' in fn.raw:
                continue
            nd += 1
            st = State()
            se = z3.BitVec('se', 64)
            st.assume(z3.Or([se == k for k in CLASS]))
            label = '%s#%d->%s' % (short(r['name']), nd, (fn.ret_ty or '').split('::')[-1][:30])
            try:
                outs = eng.exec_fn(st, fn, [Enum('StyleEdition', se, {})])
            except Unsupported as e:
                ctx.notes.append('default not encoded: %s (%s)' % (label, e))
                continue
            ctx.paths += len(outs)
            rets = [o for o in outs if o.kind == 'ret']
            if len(rets) <= 1:
                ctx.prop('default/%s/does-not-branch-inside-the-class' % label, [], z3.BoolVal(False), [], rp, twin=False)
                continue
            for i in range(len(rets)):
                for j in range(i + 1, len(rets)):
                    if canon(rets[i].value) == canon(rets[j].value):
                        continue
                    pi = substitute_se(rets[i].state.pc, se, s1)
                    pj = substitute_se(rets[j].state.pc, se, s2)
                    ctx.prop('default/%s/paths%d-%d/different-defaults-not-both-reachable-inside-the-class' % (label, i, j), in_class, z3.And(pi + pj), [s1, s2], make_replay(ctx, 'default'), twin=False)
    eng.lenient = False
    eng.inline_only = None
    if nd < 50:
        raise Inconclusive('only %d style_edition_default functions found' % nd)
    ctx.notes.append('%d style_edition_default functions' % nd)
    ctx.cover('cover/class-has-three-members', [z3.Distinct(s1, s2)] + in_class)
    part_release_defaults(ctx, eng)
    part_release_widths(ctx, eng)
    part_release_ordering(ctx, eng)


def deref(eng, st, v):
    while isinstance(v, Ref):
        v = eng.read_ref(st, v)
    return v


def substitute_se(pc, old, new):
    return [z3.substitute(c, (old, new)) for c in pc]


def canon(v):
    s = repr(v)
    return re.sub(r'[!#]\d+', '', s)


def short(name):
    return re.sub(r'<impl at (src/[^:]+):\d+:\d+: \d+:\d+>', r'<\1>', name)[-90:]


def guess_file(fn):
    m = re.search(r'at (src/[a-z_/]+\.rs)', fn.raw[:3000])
    return m.group(1) if m else None


def src_of(eng, blk):
    sp = (blk.get('spans') or [None])[-1]
    if not sp:
        return '?'
    m = re.match(r'(\S+?):(\d+):(\d+): (\d+):(\d+)', sp)
    if not m:
        return sp
    t = eng.src.span_text(m.group(1), int(m.group(2)), int(m.group(3)), int(m.group(4)), int(m.group(5)))
    return '%s: %s' % (m.group(1), ' '.join((t or '').split())[:60])


def is_style_edition_ty(ty):
    ty = ty.strip()
    return bool(re.search(r'(^|::)StyleEdition$', ty)) and not ty.startswith('&') and 'Option' not in ty


def place_ty(pl):
    for p in reversed(pl[1]):
        if p[0] == 'field' and len(p) > 2:
            return p[2]
    return ''


def discr_local_of(fn, stmts, op):
    """switchInt(move _x) where _x = discriminant(P): -> P"""
    if op[0] not in ('copy', 'move') or op[1][1]:
        return None
    x = op[1][0]
    for stt in reversed(stmts):
        if stt[0] == 'assign' and stt[1] == (x, ()) and stt[2][0] == 'discr':
            pl = stt[2][1]
            # strip a leading deref: discriminant((*_3)) where _3: &StyleEdition
            if pl[1] and pl[1][-1][0] == 'deref' and len(pl[1]) == 1:
                ty = fn.locals.get(pl[0], '')
                if re.search(r'(^|::)StyleEdition$', ty.replace('&', '').strip()):
                    return (pl[0], ())
                return None
            return pl
    return None


def const_operand(eng, fn, stmts, op):
    """the StyleEdition constant an argument operand refers to (index), or None if it is a run-time value"""
    if op[0] == 'const':
        txt = op[1]
    elif op[0] in ('copy', 'move') and not op[1][1]:
        x = op[1][0]
        txt = None
        for stt in reversed(stmts):
            if stt[0] == 'assign' and stt[1] == (x, ()):
                rv = stt[2]
                if rv[0] == 'use' and rv[1][0] == 'const':
                    txt = rv[1][1]
                elif rv[0] == 'ref' and not rv[2][1]:
                    # &_y where _y = StyleEdition::EditionN in this block
                    y = rv[2][0]
                    for s2 in reversed(stmts):
                        if s2[0] == 'assign' and s2[1] == (y, ()) and s2[2][0] == 'aggregate' and s2[2][1] == 'adt':
                            vi = eng.variant_index('StyleEdition', s2[2][2].split('::')[-1])
                            return vi
                    return None
                break
        if txt is None:
            return None
    else:
        return None
    if 'promoted[' in txt:
        st = State()
        try:
            v = eng.eval_const(st, fn, txt)
        except Unsupported:
            return None
        v = deref(eng, st, v)
        if isinstance(v, Enum) and v.name == 'StyleEdition':
            return v.concrete()
        return None
    vi = eng.variant_index('StyleEdition', txt.split('::')[-1])
    return vi


# ----------------------------------------------------------------------------- (d) option defaults of every released style edition = the pinned release
REFERENCE = os.path.join(VERIF, 'reference', 'c09_release_defaults.json')
RELEASED = ['2015', '2018', '2021', '2024']


def declared_defaults(eng):
    """[(unit struct, declared config type)] in source order of the config_option_with_style_edition_default! invocations (src/config/options.rs):
    the macro-generated impls share one MIR name, their bodies are printed in definition order."""
    txt = open(os.path.join(REPO, 'src/config/options.rs')).read()
    txt = re.sub(r'//[^\n]*', '', txt)
    return re.findall(r'(?m)^\s*([A-Z]\w*),\s*([A-Za-z][\w:<>]*),\s*(Edition\d+\s*=>|_\s*=>)', txt)


def part_release_defaults(ctx, eng):
    """Config::default_with_style_edition(se) executed for a symbolic released style edition; each option's value is compared with the value the
    pinned release printed for that edition (frozen in /verif/reference by tools/c09_freeze.py)."""
    ref = json.load(open(REFERENCE))
    frozen = ref['defaults']
    se_v = eng.enum_variants('StyleEdition')
    rel_idx = {e: se_v.index('Edition' + e) for e in RELEASED}
    decl = declared_defaults(eng)
    groups = []          # one group of bodies per macro arm (the arms are distinct impl spans, hence distinct MIR names)
    for r in eng.records:
        if not (r['is_plain'] and r['method'] == 'style_edition_default'):
            continue
        g = [fn for fn in eng.mirs[r['mir']].get_all(r['name']) if len(fn.params) == 1 and fn.raw.startswith('fn ') and 'MIR FOR CTFE' not in fn.raw]
        if g:
            groups.append(g)
    arms = {}
    for nm, ty, arm in decl:
        arms.setdefault('gated' if arm.startswith('Edition') else 'plain', []).append((nm, ty))
    by_ty = {}
    used = set()
    for arm, lst in arms.items():
        match = [gi for gi, g in enumerate(groups) if gi not in used and len(g) == len(lst)
                 and all((fn.ret_ty or '').split('::')[-1].strip() == ty.split('::')[-1].strip() for (nm, ty), fn in zip(lst, g))]
        if len(match) != 1:
            raise Inconclusive('release defaults: the %d %s declarations of src/config/options.rs do not line up with one group of style_edition_default bodies (groups: %s)'
                               % (len(lst), arm, [len(g) for g in groups]))
        used.add(match[0])
        for (nm, ty), fn in zip(lst, groups[match[0]]):
            by_ty[nm] = fn
    if len(used) != len(groups):
        raise Inconclusive('release defaults: %d groups of style_edition_default bodies, %d matched' % (len(groups), len(used)))
    old = (eng.lenient, eng.inline_only, list(eng.stubs))
    eng.lenient = True
    eng.inline_only = [re.compile(r'default_with_style_edition$'), re.compile(r'WidthHeuristics::scaled$|^scaled$')]

    def dispatch(e, s_, a, c):
        m = re.match(r'^<(?:[\w:]*::)?(\w+) as (?:[\w:]*::)?StyleEditionDefault>::style_edition_default$', c.func)
        if not m or m.group(1) not in by_ty:
            raise Unsupported('style_edition_default of %s' % c.func)
        res = []
        for o in e.exec_fn(s_, by_ty[m.group(1)], list(a)):
            res.append((o.state, 'ret', o.value) if o.kind == 'ret' else (o.state, o.kind, o.info))
        return res
    eng.stub(r'as (?:[\w:]*::)?StyleEditionDefault>::style_edition_default$', dispatch, '<X as StyleEditionDefault>::style_edition_default -> the body declared for X (source order)')
    eng.stub(r'Cell::<bool>::new$', lambda e, s_, a, c: a[0], 'Cell::new')
    from mirsym.config import config_layout
    lay = config_layout(eng)
    ctor = [r['name'] for r in eng.records if r['method'] == 'default_with_style_edition']
    if len(ctor) != 1:
        raise Inconclusive('Config::default_with_style_edition not found')
    se = z3.BitVec('style_edition', 64)
    st = State()
    st.assume(z3.Or([se == i for i in rel_idx.values()]))
    try:
        outs = ctx.check_outcomes(eng.run(ctor[0], [Enum('StyleEdition', se, {})], st), 'default_with_style_edition')
    finally:
        eng.lenient, eng.inline_only, eng.stubs = old
    rp = make_defaults_replay(ctx)
    compared, skipped = 0, []
    for name in sorted(lay):
        if name not in frozen or name in ('style_edition', 'required_version'):
            skipped.append(name)
            continue
        idx = lay[name][0]
        vio = []
        ok = True
        for o in outs:
            if o.kind != 'ret':
                ctx.prop('release-defaults/no-panic', o.state.pc, z3.BoolVal(True), [se], rp, twin=False)
                continue
            v = o.value.items[idx].items[2]
            per = []
            for e_, i in rel_idx.items():
                want = frozen[name][e_]
                if isinstance(v, BV) and isinstance(want, int) and not isinstance(want, bool):
                    per.append(z3.And(se == i, v.e != want))
                elif z3.is_bool(v) and isinstance(want, bool):
                    per.append(z3.And(se == i, v != z3.BoolVal(want)))
                elif isinstance(v, Enum) and isinstance(want, str):
                    vs = eng.enum_variants(v.name) or []
                    cand = [k for k, x in enumerate(vs) if x == want or x == 'Edition' + want]
                    if len(cand) != 1:
                        raise Inconclusive('release defaults: %s = %r is not a variant of %s' % (name, want, v.name))
                    per.append(z3.And(se == i, v.discr != cand[0]))
                else:
                    ok = False
            if ok:
                vio.append(z3.And(z3.And(o.state.pc) if o.state.pc else z3.BoolVal(True), z3.Or(per)))
        if not ok:
            skipped.append(name)
            continue
        compared += 1
        ctx.prop('release-defaults/%s/every-released-style-edition-has-the-default-of-the-pinned-release' % name, [], z3.Or(vio), [se], rp, twin=False)
    if compared < 60:
        raise Inconclusive('release defaults: only %d options compared' % compared)
    ctx.notes.append('release defaults: %d options x %d released style editions compared with the frozen table of %s; not compared (structured or build-dependent values): %s'
                     % (compared, len(RELEASED), ref['commit'][:7], ', '.join(skipped)))


def make_defaults_replay(ctx):
    def replay(model, r):
        ref = json.load(open(REFERENCE))['defaults']
        bins = ensure_bins()
        d = os.path.join(BUILD, 'scratch', 'c09d-%d' % os.getpid())
        shutil.rmtree(d, ignore_errors=True)
        os.makedirs(d)
        found = []
        for e_ in RELEASED:
            pr = subprocess.run([os.path.join(bins, 'rustfmt'), '--style-edition', e_, '--print-config', 'current', d], capture_output=True, text=True, env=run_env(), cwd=d, timeout=60)
            for ln in pr.stdout.splitlines():
                k, _, v = ln.partition(' = ')
                if k in ref and k != 'required_version' and e_ in ref[k]:
                    try:
                        got = json.loads(v)
                    except ValueError:
                        got = v
                    if got != ref[k][e_]:
                        found.append('style edition %s: %s defaults to %s, the pinned release has %s' % (e_, k, v, json.dumps(ref[k][e_])))
        shutil.rmtree(d, ignore_errors=True)
        return {'reproduced': bool(found), 'detail': found[:6]}
    return replay


# ----------------------------------------------------------------------------- (e) the scaled width heuristics = the pinned release's computation
RELEASE_WIDTHS = {'fn_call_width': 60, 'attr_fn_like_width': 70, 'struct_lit_width': 18, 'struct_variant_width': 35, 'array_width': 60, 'chain_width': 60,
                  'single_line_if_else_max_width': 50, 'single_line_let_else_max_width': 50}


def part_release_widths(ctx, eng):
    """WidthHeuristics::scaled(max_width) for every max_width in 20..=10000 against the release's computation, written independently in IEEE
    binary32: ratio = max_width > 100 ? roundTiesAway(max_width / 100 * 10) / 10 : 1, width = trunc(roundTiesAway(base * ratio))."""
    sc = eng.find('scaled', self_ty='WidthHeuristics', file='src/config/options.rs')
    wf = [n for n, _ in eng.src.struct_fields('WidthHeuristics', 'src/config/options.rs')]
    mw = z3.BitVec('max_width', 64)
    F = z3.Float32()
    rne = z3.RNE()
    f = lambda x: z3.FPVal(float(x), F)
    q = z3.fpDiv(rne, z3.fpUnsignedToFP(rne, mw, F), f(100))
    ratio = z3.If(z3.UGT(mw, 100), z3.fpDiv(rne, z3.fpRoundToIntegral(z3.RNA(), z3.fpMul(rne, q, f(10))), f(10)), f(1))
    outs = ctx.check_outcomes(eng.run(sc, [BV(mw, 'usize')], State()), 'scaled')
    rp = make_widths_replay(ctx)
    hi = 10000
    for fi_, fname in enumerate(wf):
        if fname not in RELEASE_WIDTHS:
            ctx.notes.append('release widths: WidthHeuristics.%s does not exist in the pinned release: nothing to compare it with' % fname)
            continue
        want = z3.fpToUBV(z3.RTZ(), z3.fpRoundToIntegral(z3.RNA(), z3.fpMul(rne, f(RELEASE_WIDTHS[fname]), ratio)), z3.BitVecSort(64))
        vio = []
        for o in outs:
            if o.kind != 'ret':
                ctx.prop('release-widths/no-panic', o.state.pc + [z3.UGE(mw, 20), z3.ULE(mw, hi)], z3.BoolVal(True), [mw], rp, twin=False)
                continue
            vio.append(z3.And(z3.And(o.state.pc) if o.state.pc else z3.BoolVal(True), o.value.items[fi_].e != want))
        ctx.prop('release-widths/%s/scaled-equals-the-computation-of-the-pinned-release' % fname, [z3.UGE(mw, 20), z3.ULE(mw, hi)], z3.Or(vio), [mw], rp, twin=False)


def make_widths_replay(ctx):
    def replay(model, r):
        import numpy as np
        bins = ensure_bins()
        d = os.path.join(BUILD, 'scratch', 'c09e-%d' % os.getpid())
        shutil.rmtree(d, ignore_errors=True)
        os.makedirs(d)
        mws = [v for k, v in (model or {}).items() if k == 'max_width' and isinstance(v, int)] + [101, 104, 105, 115, 125, 149, 151, 175, 199, 1005]
        found = []
        for m_ in mws[:8]:
            f32 = np.float32
            ratio = f32(np.floor(f32(m_) / f32(100) * f32(10) + f32(0.5))) / f32(10) if m_ > 100 else f32(1)
            pr = subprocess.run([os.path.join(bins, 'rustfmt'), '--config', 'max_width=%d' % m_, '--print-config', 'current', d], capture_output=True, text=True, env=run_env(), cwd=d, timeout=60)
            got = dict(ln.split(' = ', 1) for ln in pr.stdout.splitlines() if ' = ' in ln)
            for k, base in RELEASE_WIDTHS.items():
                want = int(np.floor(f32(base) * ratio + f32(0.5)))
                if k in got and int(got[k]) != want:
                    found.append('max_width=%d: %s = %s, the pinned release computes %d' % (m_, k, got[k], want))
        shutil.rmtree(d, ignore_errors=True)
        return {'reproduced': bool(found), 'detail': found[:6]}
    return replay


# ----------------------------------------------------------------------------- (f) ordering of modules and extern crates per released style edition
ORDERING_INPUTS = {
    'mods': 'mod x10;\nmod x9;\nmod x2;\nmod X1;\nmod x_a;\nmod x01;\nmod x1;\n',
    'extern_crates': 'extern crate c10;\nextern crate c9;\nextern crate c2;\nextern crate C1;\nextern crate c01;\n',
    'extern_crate_aliases': 'extern crate foo as x10;\nextern crate foo as x9;\nextern crate foo as x2;\nextern crate foo;\nextern crate foo as x01;\n',
    'extern_crate_names_and_aliases': 'extern crate b10 as m;\nextern crate b9 as n;\nextern crate b9 as k10;\nextern crate b9 as k9;\nextern crate b9;\n',
}
ORDERING_REFERENCE = os.path.join(VERIF, 'reference', 'c09_release_ordering.json')


def part_release_ordering(ctx, eng):
    """reorder.rs::compare_items, executed under-constrained over two arbitrary items: the pinned release compares names as plain strings up to
    style edition 2021 and with version_sort from 2024.  The two comparators are environment (their own properties are C11's); which one a
    path consults is observed, the style edition is symbolic over the released ones."""
    name = eng.find('compare_items', free=True)
    se_v = eng.enum_variants('StyleEdition')
    se = z3.BitVec('style_edition', 64)
    old = (eng.lenient, eng.inline_only, list(eng.stubs), eng.inline_pred)
    eng.lenient = True
    eng.stubs = []
    eng.inline_only = [re.compile(r'^compare_items$|^compare_items::')]
    home = eng.fn_file(name)

    def small_helper(e, nm, callee):
        # helpers of the same file that only choose between the comparators (a refactoring may move the edition test into one)
        try:
            return e.fn_file(nm) == home and len(e.get_fn(nm).blocks) <= 14 and not re.search(r'version_sort', nm)
        except Exception:
            return False
    eng.inline_pred = small_helper

    def ordering(tag):
        def f(e, s_, a, c):
            s_.trace.append((tag,))
            d = z3.BitVec(e.fresh_name(tag + '.result'), 64)
            s_.assume(z3.Or(d == -1, d == 0, d == 1))
            return Enum('Ordering', d, {})
        return f
    eng.stub(r'(^|::)version_sort$', ordering('version_sort'), 'version_sort(a, b) = an arbitrary Ordering, observed')
    eng.stub(r'^<str as (std::cmp::)?Ord>::cmp$|^core::str::<impl (std::cmp::)?Ord for str>::cmp$|impl Ord for str>::cmp$', ordering('str_cmp'), '<str as Ord>::cmp = an arbitrary Ordering, observed')
    eng.stub(r'Config::style_edition$', lambda e, s_, a, c: Enum('StyleEdition', se, {}), 'config.style_edition() = symbolic')
    pcmp = eng.find('partial_cmp', self_ty='StyleEdition', file='src/config/options.rs', trait='PartialOrd')

    def span_edition_cmp(eng_, st_, args, ci):
        a, b = (deref(eng_, st_, x) for x in args)
        d = z3.If(a.discr < b.discr, z3.BitVecVal(-1, 64), z3.If(a.discr == b.discr, z3.BitVecVal(0, 64), z3.BitVecVal(1, 64)))
        return Enum('Option', 1, {1: Tup([Enum('Ordering', d, {})])})
    eng.stub(r'rustc_span::edition::Edition as (std::cmp::)?PartialOrd>::partial_cmp$|^rustc_span::edition::Edition::partial_cmp$|Edition as PartialOrd>::partial_cmp$', span_edition_cmp,
             'rustc_span Edition::partial_cmp = derived discriminant order')

    def se_compare(e, s_, a, c):
        # lt / le / gt / ge on StyleEdition are the provided methods of PartialOrd over the crate's own partial_cmp, whose MIR is executed
        op = re.search(r'::(lt|le|gt|ge)$', c.func).group(1)
        old_inl = e.inline_only
        e.inline_only = None
        try:
            res = []
            for o in e.exec_fn(s_, e.get_fn(pcmp), [a[0], a[1]]):
                if o.kind != 'ret':
                    res.append((o.state, o.kind, o.info))
                    continue
                v = o.value
                ordd = v.payloads[1].items[0].discr if 1 in v.payloads else z3.BitVecVal(0, 64)
                some_ = v.discr == 1
                r_ = {'lt': z3.And(some_, ordd == -1), 'le': z3.And(some_, ordd != 1), 'gt': z3.And(some_, ordd == 1), 'ge': z3.And(some_, ordd != -1)}[op]
                res.append((o.state, 'ret', r_))
            return res
        finally:
            e.inline_only = old_inl
    eng.stub(r'StyleEdition as (std::cmp::)?PartialOrd>::(lt|le|gt|ge)$', se_compare, 'StyleEdition <, <=, >, >= through the real partial_cmp MIR')
    rp = make_ordering_replay(ctx)
    try:
        fn = eng.get_fn(name)
        st = State()
        rel = [se_v.index('Edition' + e) for e in RELEASED]
        st.assume(z3.Or([se == i for i in rel]))
        args = [eng.fresh_of_type(st, ty, 'arg.%s' % pn) for pn, ty in fn.params]
        outs = ctx.check_outcomes(eng.run(name, args, st), 'compare_items', allow_panic=True)
    finally:
        eng.lenient, eng.inline_only, eng.stubs, eng.inline_pred = old
    old_style = z3.Or([se == se_v.index('Edition' + e) for e in ('2015', '2018', '2021')])
    n_cmp = n_vs = 0
    for pi, o in enumerate(outs):
        if o.kind != 'ret':
            continue
        used = {t[0] for t in o.state.trace if t[0] in ('version_sort', 'str_cmp')}
        if 'version_sort' in used:
            n_vs += 1
            ctx.prop('release-ordering/compare_items/p%d/version_sort-is-not-consulted-up-to-style-edition-2021' % pi, o.state.pc, old_style, [se], rp, twin=False)
        if 'str_cmp' in used:
            n_cmp += 1
            ctx.prop('release-ordering/compare_items/p%d/plain-string-order-is-not-consulted-from-style-edition-2024' % pi, o.state.pc, z3.Not(old_style), [se], rp, twin=False)
    if not n_cmp or not n_vs:
        raise Inconclusive('release ordering: compare_items consults str::cmp on %d and version_sort on %d paths (expected both): the harness no longer matches the code' % (n_cmp, n_vs))
    ctx.notes.append('release ordering: compare_items, %d paths; %d consult <str as Ord>::cmp, %d consult version_sort' % (len(outs), n_cmp, n_vs))


def make_ordering_replay(ctx):
    def replay(model, r):
        ref = json.load(open(ORDERING_REFERENCE))
        bins = ensure_bins()
        d = os.path.join(BUILD, 'scratch', 'c09f-%d' % os.getpid())
        shutil.rmtree(d, ignore_errors=True)
        os.makedirs(d)
        found = []
        for nm, src in ref['inputs'].items():
            p_ = os.path.join(d, nm + '.rs')
            open(p_, 'w').write(src)
            for e_ in RELEASED:
                pr = subprocess.run([os.path.join(bins, 'rustfmt'), '--emit', 'stdout', '--quiet', '--config', 'skip_children=true', '--style-edition', e_, p_], capture_output=True, text=True, env=run_env(), cwd=d, timeout=60)
                if pr.stdout != ref['outputs'][nm][e_]:
                    found.append('style edition %s, input %s: output differs from what the pinned release (%s) prints: %r' % (e_, nm, ref['commit'][:7], pr.stdout[:160]))
        shutil.rmtree(d, ignore_errors=True)
        return {'reproduced': bool(found), 'detail': found[:4]}
    return replay


# ----------------------------------------------------------------------------- native: the three editions on a corpus

def corpus_findings(what=None, limit=None):
    bins = ensure_bins()
    rf = os.path.join(bins, 'rustfmt')
    import concurrent.futures as cf
    files = []
    for root in ('tests/source', 'tests/target', 'src'):
        for dp, dn, fns in os.walk(os.path.join(REPO, root)):
            for f in sorted(fns):
                if f.endswith('.rs'):
                    files.append(os.path.join(dp, f))
    extra = os.path.join(BUILD, 'scratch', 'c09-%d' % os.getpid())
    os.makedirs(extra, exist_ok=True)
    crafted = {'raw_ident_imports.rs': 'use a::{r#zeta, alpha, r#beta, Gamma};\nuse r#zz::x;\nuse aa::y;\n',
               'bounds.rs': "pub trait PrettyPrinter<'tcx>: Printer<'tcx, Error = fmt::Error, Path = Self, Region = Self, Type = Self, DynExistential = Self, Const = Self> {}\n"}
    for n, t in crafted.items():
        p = os.path.join(extra, n)
        open(p, 'w').write(t)
        files.append(p)
    if limit:
        files = files[:limit]
    env = run_env()

    def one(p):
        outs = []
        for se in ('2015', '2018', '2021'):
            r = subprocess.run([rf, '--emit', 'stdout', '--quiet', '--style-edition', se, '--config', 'error_on_line_overflow=false', p], capture_output=True, env=env, timeout=120)
            outs.append((r.returncode, r.stdout))
        if len(set(outs)) != 1:
            return p
        return None
    findings = []
    with cf.ThreadPoolExecutor(max_workers=14) as ex:
        for res in ex.map(one, files):
            if res:
                findings.append('style editions 2015/2018/2021 format %s differently' % os.path.relpath(res, REPO))
    # option defaults
    cfgs = []
    for se in ('2015', '2018', '2021'):
        r = subprocess.run([rf, '--style-edition', se, '--print-config', 'default', os.path.join(extra, 'cfg-%s.toml' % se)], capture_output=True, text=True, env=env, timeout=60, cwd=extra)
        try:
            txt = open(os.path.join(extra, 'cfg-%s.toml' % se)).read()
        except OSError:
            txt = r.stdout
        cfgs.append(re.sub(r'^(style_edition|edition|version) = .*$', '', txt, flags=re.M))
    if len(set(cfgs)) != 1:
        findings.append('option defaults differ between style editions 2015/2018/2021')
    shutil.rmtree(extra, ignore_errors=True)
    return findings


def make_replay(ctx, what=None):
    cache = {}

    def replay(model, r):
        if 'f' not in cache:
            cache['f'] = corpus_findings()
        f = cache['f']
        return {'reproduced': bool(f), 'detail': f[:5], 'site': r.ob.meta.get('site')}
    return replay


if __name__ == '__main__':
    main_wrapper('C09', build, level='other')
