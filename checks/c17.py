"""C17 — file_lines range algebra: Range::{is_empty,contains,intersects,adjacent_to,merge},
normalize_ranges, FileLines::{contains_line,contains_range,file_range_matches} ≡ set semantics."""
from common import *

F = 'src/config/file_lines.rs'
LIM = 1 << 32


def bvu(name):
    return BV(z3.BitVec(name, 64), 'usize')


def rng(name):
    return Tup([bvu(name + '.lo'), bvu(name + '.hi')], 'Range')


def lo(r):
    return r.items[0].e


def hi(r):
    return r.items[1].e


def inset(r, l):
    return z3.And(z3.ULE(lo(r), l), z3.ULE(l, hi(r)))


def nonempty(r):
    return z3.ULE(lo(r), hi(r))


def in_union(rs, l):
    return z3.Or([inset(r, l) for r in rs]) if rs else z3.BoolVal(False)


def bounded(rs):
    out = []
    for r in rs:
        out += [z3.ULT(lo(r), LIM), z3.ULT(hi(r), LIM)]
    return out


def stdin_name():
    return Enum('FileName', 1, {})   # FileName::Stdin


def py_in(rs, l):
    return any(a <= l <= b for (a, b) in rs)


def py_subset(rs, p, q):
    """[p,q] ⊆ ⋃ rs by walking: repeatedly jump past the furthest interval covering the cursor"""
    cur = p
    while cur <= q:
        best = None
        for (a, b) in rs:
            if a <= cur <= b and (best is None or b > best):
                best = b
        if best is None:
            return False
        cur = best + 1
    return True


def build(ctx):
    eng = ctx.engine('lib', loop_bound=12)
    K = 3 if ctx.tier == 'quick' else 4
    ctx.bounds = {'ranges_per_file': K, 'line_numbers': '< 2^32 (usize is 64-bit; SourceMap positions are u32)', 'loop_unwind': 12,
                  'files': 'one file name (FileName::Stdin) plus the absent-file and select-all cases'}
    ctx.outside = ['guards other than the five entry guards checked here (block tail, reorder groups, missed-span writer)', 'byte-for-byte copying of unselected items',
                   'path canonicalisation (FileName::Real)', 'hi = usize::MAX (hi + 1 overflows in adjacent_to; line numbers are u32 in practice)',
                   'JSON parsing of --file-lines']
    ctx.assumptions = ['line numbers < 2^32', 'HashMap<FileName, Vec<Range>> is observed through values_mut/get only (entry-list summary)',
                       'slice::sort = a sorting network over the derived Ord::cmp MIR of Range']
    if os.environ.get('C17_DEV') == 'guard':
        guard_sites(ctx, eng)
        return line_range_conversion(ctx, eng)
    rp = ctx.replayer()
    names = {m: eng.find(m, self_ty='Range', file=F) for m in ('is_empty', 'contains', 'intersects', 'adjacent_to', 'merge')}
    a, b = rng('a'), rng('b')
    l = z3.BitVec('l', 64)
    mv = [lo(a), hi(a), lo(b), hi(b), l]
    pre = bounded([a, b]) + [z3.ULT(l, LIM)]
    small2 = [z3.ULT(x, 40) for x in mv]

    def replay_range_ops(model, r):
        A = (model.get('a.lo', 0), model.get('a.hi', 0))
        B = (model.get('b.lo', 0), model.get('b.hi', 0))
        res = rp.call({'op': 'range_ops', 'a': A, 'b': B})
        bad = []
        ne_a, ne_b = A[0] <= A[1], B[0] <= B[1]
        inter = ne_a and ne_b and max(A[0], B[0]) <= min(A[1], B[1])
        subset = (not ne_b) or (ne_a and A[0] <= B[0] and B[1] <= A[1])
        sa = sb = None
        if 'panic' in res:
            return {'reproduced': True, 'detail': 'panic: ' + res['panic'], 'input': [A, B]}
        if res['is_empty'] != (A[0] > A[1]):
            bad.append('is_empty')
        if res['intersects'] != inter:
            bad.append('intersects=%s but sets %s' % (res['intersects'], 'meet' if inter else 'are disjoint'))
        if res['contains'] != subset:
            bad.append('contains=%s but subset=%s' % (res['contains'], subset))
        if res['merge'] is not None:
            lo_, hi_ = res['merge']
            # union of two intervals equals [lo_,hi_] ?
            pts = [A[0], A[1], B[0], B[1], lo_, hi_, lo_ - 1 if lo_ else 0, hi_ + 1, A[1] + 1, B[1] + 1]
            for x in pts:
                in_u = (ne_a and A[0] <= x <= A[1]) or (ne_b and B[0] <= x <= B[1])
                if in_u != (lo_ <= x <= hi_):
                    bad.append('merge %r is not the union at line %d' % (res['merge'], x))
                    break
        elif ne_a and ne_b and not (A[1] + 1 < B[0] or B[1] + 1 < A[0]):
            bad.append('merge is None although the union is an interval')
        if sa is not None and sb is not None:
            if res['intersects'] != bool(sa & sb):
                bad.append('intersects')
            if res['contains'] != (sb <= sa):
                bad.append('contains')
            if res['merge'] is not None:
                m = set(range(res['merge'][0], res['merge'][1] + 1))
                if m != (sa | sb):
                    bad.append('merge-union')
            else:
                u = sorted(sa | sb)
                if sa and sb and u and u[-1] - u[0] + 1 == len(u):
                    bad.append('merge-none-for-interval')
        return {'reproduced': bool(bad), 'detail': bad, 'input': [A, B], 'native': res}

    # ---- Range primitives
    for o in ctx.check_outcomes(eng.run(names['is_empty'], [a], State()), 'is_empty'):
        ctx.prop('is_empty/iff-lo>hi', o.state.pc + pre, o.value != z3.UGT(lo(a), hi(a)), mv, replay_range_ops, hint=small2)
    for i, o in enumerate(ctx.check_outcomes(eng.run(names['intersects'], [a, b], State()), 'intersects')):
        w = z3.If(z3.ULT(lo(a), lo(b)), lo(b), lo(a))
        ctx.prop('intersects/p%d/true=>common-line' % i, o.state.pc + pre, z3.And(o.value, z3.Not(z3.And(inset(a, w), inset(b, w)))), mv, replay_range_ops, hint=small2)
        ctx.prop('intersects/p%d/common-line=>true' % i, o.state.pc + pre, z3.And(z3.Not(o.value), inset(a, l), inset(b, l)), mv, replay_range_ops, hint=small2)
    for i, o in enumerate(ctx.check_outcomes(eng.run(names['contains'], [a, b], State()), 'contains')):
        ctx.prop('contains/p%d/true=>subset' % i, o.state.pc + pre, z3.And(o.value, inset(b, l), z3.Not(inset(a, l))), mv, replay_range_ops, hint=small2)
        ctx.prop('contains/p%d/false=>witness-outside' % i, o.state.pc + pre,
                 z3.And(z3.Not(o.value), z3.Not(z3.And(nonempty(b), z3.Or(z3.Not(inset(a, lo(b))), z3.Not(inset(a, hi(b))))))), mv, replay_range_ops, hint=small2)
    st = State()
    outs = ctx.check_outcomes(eng.run(names['merge'], [a, b], st), 'merge')
    for i, o in enumerate(outs):
        if o.kind == 'panic':
            # hi + 1 overflow: excluded by the < 2^32 bound; must be unreachable inside it
            ctx.prop('merge/p%d/no-overflow-inside-bound' % i, o.state.pc + pre, z3.BoolVal(True), mv, replay_range_ops, twin=False, hint=small2)
            continue
        v = o.value
        is_some = v.discr == 1
        if 1 in v.payloads:
            c = v.payloads[1].items[0]
            ctx.prop('merge/p%d/some=>union' % i, o.state.pc + pre, z3.And(is_some, inset(c, l) != z3.Or(inset(a, l), inset(b, l))), mv, replay_range_ops, hint=small2)
        gap = z3.Or(z3.ULT(hi(a) + 1, lo(b)), z3.ULT(hi(b) + 1, lo(a)))
        ctx.prop('merge/p%d/none=>not-an-interval' % i, o.state.pc + pre, z3.And(z3.Not(is_some), nonempty(a), nonempty(b), z3.Not(gap)), mv, replay_range_ops, hint=small2)
    for i, o in enumerate(ctx.check_outcomes(eng.run(names['adjacent_to'], [a, b], State()), 'adjacent_to')):
        if o.kind != 'ret':
            continue
        adj = z3.And(nonempty(a), nonempty(b), z3.Or(hi(a) + 1 == lo(b), hi(b) + 1 == lo(a)))
        ctx.prop('adjacent_to/p%d/iff-touching' % i, o.state.pc + pre, o.value != adj, mv, replay_range_ops, hint=small2)

    # ---- normalize_ranges + FileLines predicates, composed on the real MIR
    norm = eng.find('normalize_ranges', free=True)
    cl = eng.find('contains_line', self_ty='FileLines', file=F)
    cr = eng.find('contains_range', self_ty='FileLines', file=F)
    p, q = z3.BitVec('p', 64), z3.BitVec('q', 64)

    def replay_fl(model, r):
        k = r.ob.meta['k']
        rs = [(model.get('r%d.lo' % i, 0), model.get('r%d.hi' % i, 0)) for i in range(k)]
        L, P, Q = model.get('l', 0), model.get('p', 0), model.get('q', 0)
        res = rp.call({'op': 'fl_query', 'ranges': rs, 'line': L, 'lo': P, 'hi': Q})
        if 'panic' in res:
            return {'reproduced': True, 'detail': 'panic: ' + res['panic'], 'ranges': rs}
        bad = []
        if res['contains_line'] != py_in(rs, L):
            bad.append('contains_line(%d)' % L)
        if P <= Q:
            sub = py_subset(rs, P, Q)
            if res['contains_range'] != sub:
                bad.append('contains_range(%d,%d)=%s but subset=%s' % (P, Q, res['contains_range'], sub))
        nres = rp.call({'op': 'normalize', 'ranges': rs})
        if 'out' in nres and py_in([tuple(x) for x in nres['out']], L) != py_in(rs, L):
            bad.append('normalize changes membership of line %d' % L)
        return {'reproduced': bool(bad), 'detail': bad, 'ranges': rs, 'line': L, 'probe': [P, Q], 'native': res, 'normalized': nres.get('out')}

    for k in range(0, K + 1):
        rs = [rng('r%d' % i) for i in range(k)]
        mvk = [x for r in rs for x in (lo(r), hi(r))] + [l, p, q]
        prek = bounded(rs) + [z3.ULT(l, LIM), z3.ULT(p, LIM), z3.ULT(q, LIM)]
        small = [z3.ULT(x, 40) for x in mvk]
        st = State()
        hm = Tup([Seq([Tup([stdin_name(), Seq(rs)])])], 'HashMap')
        href = eng.ref_to(st, hm, True, 'map')
        t = time.time()
        outs = ctx.check_outcomes(eng.run(norm, [href], st), 'normalize_ranges k=%d' % k)
        log('[C17] normalize_ranges k=%d: %d paths in %.1fs' % (k, len(outs), time.time() - t))
        for i, o in enumerate(outs):
            if o.kind == 'panic':
                ctx.prop('normalize/k%d/p%d/no-panic-inside-bound' % (k, i), o.state.pc + prek, z3.BoolVal(True), mvk, replay_fl, meta={'k': k}, twin=False, hint=small)
                continue
            outv = eng.read_ref(o.state, href).items[0].items[0].items[1]
            ctx.prop('normalize/k%d/p%d/same-line-set' % (k, i), o.state.pc + prek, in_union(outv.items, l) != in_union(rs, l), mvk, replay_fl, meta={'k': k}, hint=small)
            # compose with the predicates on the normalised map: FileLines(Some(map))
            s1 = o.state
            fl = Tup([Enum('Option', 1, {1: Tup([eng.read_ref(s1, href)])})], 'FileLines')
            flref = eng.ref_to(s1, fl, False, 'fl')
            fname = eng.ref_to(s1, stdin_name(), False, 'fname')
            s2 = s1.fork()
            for j, o2 in enumerate(ctx.check_outcomes(eng.run(cl, [flref, fname, BV(l, 'usize')], s2), 'contains_line')):
                ctx.prop('contains_line/k%d/p%d.%d/iff-in-union' % (k, i, j), o2.state.pc + prek, o2.value != in_union(rs, l), mvk, replay_fl, meta={'k': k}, hint=small)
            s3 = s1.fork()
            for j, o3 in enumerate(ctx.check_outcomes(eng.run(cr, [flref, fname, BV(p, 'usize'), BV(q, 'usize')], s3), 'contains_range')):
                ple = z3.ULE(p, q)
                ctx.prop('contains_range/k%d/p%d.%d/true=>subset' % (k, i, j), o3.state.pc + prek,
                         z3.And(ple, o3.value, z3.ULE(p, l), z3.ULE(l, q), z3.Not(in_union(rs, l))), mvk, replay_fl, meta={'k': k}, hint=small)
                # [p,q] ⊆ ⋃ rs  ⇔  p covered ∧ every hi_i+1 inside [p,q] is covered (first uncovered point argument)
                covered = z3.And([in_union(rs, p)] + [z3.Implies(z3.And(z3.ULE(p, hi(r) + 1), z3.ULE(hi(r) + 1, q)), in_union(rs, hi(r) + 1)) for r in rs])
                ctx.prop('contains_range/k%d/p%d.%d/subset=>true' % (k, i, j), o3.state.pc + prek,
                         z3.And(ple, z3.Not(o3.value), covered), mvk, replay_fl, meta={'k': k}, hint=small)

    # ---- empty selection / select-all / absent file
    st = State()
    fl_empty = eng.ref_to(st, Tup([Enum('Option', 1, {1: Tup([Tup([Seq([])], 'HashMap')])})], 'FileLines'))
    fname = eng.ref_to(st, stdin_name())
    for o in ctx.check_outcomes(eng.run(cl, [fl_empty, fname, BV(l, 'usize')], st), 'contains_line(empty)'):
        ctx.prop('empty-selection/selects-nothing', o.state.pc, o.value, [l], None)
    st = State()
    fl_all = eng.ref_to(st, Tup([Enum('Option', 0, {})], 'FileLines'))
    fname = eng.ref_to(st, stdin_name())
    for o in ctx.check_outcomes(eng.run(cl, [fl_all, fname, BV(l, 'usize')], st), 'contains_line(all)'):
        ctx.prop('no-selection/selects-everything', o.state.pc, z3.Not(o.value), [l], None)
    # a file that is not in the map is not selected
    st = State()
    r0 = rng('r0')
    other = Enum('FileName', 0, {0: Tup([Opaque('PathBuf', 'other')])})
    hm = Tup([Seq([Tup([other, Seq([r0])])])], 'HashMap')
    fl_o = eng.ref_to(st, Tup([Enum('Option', 1, {1: Tup([hm])})], 'FileLines'))
    fname = eng.ref_to(st, stdin_name())
    for o in ctx.check_outcomes(eng.run(cl, [fl_o, fname, BV(l, 'usize')], st), 'contains_line(other file)'):
        ctx.prop('file-not-named/not-selected', o.state.pc, o.value, [l], None)

    # ---- vacuity covers: interesting regions
    rs = [rng('r%d' % i) for i in range(3)]
    ctx.cover('cover/inverted-between-adjacent', bounded(rs) + [z3.UGT(lo(rs[1]), hi(rs[1])), hi(rs[0]) + 1 == lo(rs[2]), nonempty(rs[0]), nonempty(rs[2]),
                                                               z3.ULT(lo(rs[0]), lo(rs[1])), z3.ULT(lo(rs[1]), lo(rs[2]))])

    guard_sites(ctx, eng)
    line_range_conversion(ctx, eng)
    validate(ctx, eng, names, norm, cl, cr)


# ----------------------------------------------------------------------------- guards at the entry of the visitors / rewriters
# For an item, associated item, macro call, expression or `let` whose span does not intersect the selection (the predicates are
# stubbed: is_all() = false, intersects() = false), the function must do nothing but copy the span (visitor: push_rewrite(span,
# None)) or refuse (rewriter: Err(SkipFormatting)). The first call to anything else ends the path as a violation candidate.

GUARDED = [
    dict(method='visit_item', self_ty='FmtVisitor', file='src/visitor.rs', kind='visitor'),
    dict(method='visit_assoc_item', self_ty='FmtVisitor', file='src/visitor.rs', kind='visitor'),
    dict(method='visit_mac', self_ty='FmtVisitor', file='src/visitor.rs', kind='visitor'),
    # statements: format_stmt's own guard, or else the guards of Local::rewrite_result and format_expr that it reaches (both inlined);
    # format_stmt is a function of its arguments into Result<String>, and any Err makes visit_stmt copy the span (push_rewrite(span, None))
    dict(method='format_stmt', free=True, kind='rewriter', inline=[r'stmt\.rs.*format_stmt|^format_stmt$', r'items\.rs.*rewrite_result|Local.*rewrite_result', r'format_expr$']),
]
ALLOWED_BEFORE = re.compile(r'file_lines|FileLines::|lookup_line_range|[Ss]pan|tracing|LevelFilter|DefaultCallsite|Interest|__is_enabled|FieldSet|ValueSet|Metadata|Event::|fmt::|Arguments::|'
                            r'Deref>::deref|as Clone>::clone|Config::|config_type')


def guard_sites(ctx, eng):
    rp_cli = make_cli_replay(ctx)
    rp_sel = make_cli_replay(ctx, selected=True)

    def push_rewrite(eng_, st_, args, ci):
        st_.trace.append(('push_rewrite', args[2] if len(args) > 2 else None))
        return UNIT

    def other(eng_, st_, args, ci):
        callee = ci.func
        if ALLOWED_BEFORE.search(callee) or any(rx.search(callee) for rx, _, _ in eng_.intrinsics) or 'closure@' in callee:
            return NotImplemented              # summaries / the lenient fallback (uninterpreted value) handle these
        return [(st_, 'cut', {'callee': callee})]

    def p_local(eng_, st_, args, ci):
        inner = eng_.find('rewrite_result', self_ty='Local', file='src/items.rs', trait='Rewrite')
        local = eng_.fresh_of_type(st_, '&rustc_ast::Local', 'local')
        return eng_._inline(st_, eng_.get_fn(inner), [local, args[1], args[2]])

    skip_idx = eng.variant_index('RewriteError', 'SkipFormatting')
    if skip_idx is None:
        raise Inconclusive('RewriteError::SkipFormatting not found')
    # (is_all, intersects, expected): a selection that misses the node -> skip; one that meets it, or no selection -> process
    VALUATIONS = [('outside', False, False), ('intersecting', False, True), ('no-selection', True, None)]
    for g in GUARDED:
      for vname, v_all, v_int in VALUATIONS:
        skip_expected = vname == 'outside'
        eng.stubs = []
        eng.lenient = True
        eng.unsupported_as_outcome = True
        composite = g['kind'] == 'rewriter' and skip_expected
        eng.inline_only = [re.compile(r'src/config/config_type\.rs')] + [re.compile(x) for x in (g.get('inline', []) if composite else g.get('inline', [])[:1])]
        eng.stub(r'FileLines::is_all$', lambda e, s_, a, c, v=v_all: z3.BoolVal(v), 'guard harness: is_all() = false (a selection is given) / true (none)')
        eng.stub(r'FileLines::intersects$', lambda e, s_, a, c, v=v_int: (z3.BoolVal(v) if v is not None else e.fresh_bool('intersects')),
                 'guard harness: intersects() = false (no span of the node meets the selection) / true / unconstrained when is_all()')
        eng.stub(r'^__is_enabled$|tracing::Level as PartialOrd<LevelFilter>>::le$', lambda e, s_, a, c: z3.BoolVal(False), 'tracing disabled')
        if composite:
            eng.stub(r'^<P<rustc_ast::Local> as Rewrite>::rewrite_result$', p_local,
                     'P<Local>::rewrite_result (blanket impl + default method: Local::rewrite(..).unknown_error()) = Local::rewrite_result with Ok kept and every Err kept an Err')
        else:
            eng.stub(r'FmtVisitor::<.*>::push_rewrite$', push_rewrite, 'FmtVisitor::push_rewrite observed')
            eng.stub(r'.', other, 'guard harness: the first call that is not a config/span/selection query ends the path ("the node is being processed")')
        try:
            if g.get('free'):
                name = eng.find(g['method'], free=True)
            else:
                name = eng.find(g['method'], self_ty=g['self_ty'], file=g['file'], trait=g.get('trait'))
        except KeyError as e:
            raise Inconclusive('guarded function not found: %s' % e)
        fn = eng.get_fn(name)
        st = State()
        args = [eng.fresh_of_type(st, ty, 'a%d' % i) for i, (_, ty) in enumerate(fn.params)]
        label = 'guard/%s/%s' % (g['method'], vname)
        rp = rp_cli if skip_expected else rp_sel
        eng.block_budget = 20000
        try:
            outs = eng.run(name, args, st)
        except Budget:
            # with the guards in place the exploration ends within a few dozen blocks; running out of budget means the walk got past them
            ctx.prop('%s/exploration-past-the-guard-exceeds-the-block-budget' % label, [], z3.BoolVal(True), [], rp, twin=False)
            continue
        finally:
            eng.block_budget = None
        ctx.paths += len(outs)
        nret = ncut = 0
        for pi, o in enumerate(outs):
            if o.kind in ('cut', 'unsupported', 'unwind'):
                ncut += 1
                if not skip_expected:
                    continue                       # the node is being processed: what is wanted here
                what = short_callee(o.info.get('callee', '?')) if o.kind == 'cut' else 'code past the guard: %s' % str(o.info)[:80]
                ctx.prop('%s/p%d/unselected-node-is-not-processed(reaches %s)' % (label, pi, what), o.state.pc, z3.BoolVal(True), [], rp, twin=False)
            elif o.kind == 'ret':
                nret += 1
                if g['kind'] == 'visitor':
                    pr = [t for t in o.state.trace if t[0] == 'push_rewrite']
                    copied = len(pr) == 1 and isinstance(pr[0][1], Enum) and pr[0][1].concrete() == 0
                    if skip_expected:
                        ctx.prop('%s/p%d/unselected-node-is-copied-verbatim' % (label, pi), o.state.pc, z3.BoolVal(not copied), [], rp, twin=False)
                    else:
                        ctx.prop('%s/p%d/selected-node-is-not-skipped' % (label, pi), o.state.pc, z3.BoolVal(True), [], rp, twin=False)
                else:
                    v = o.value
                    if skip_expected:
                        if isinstance(v, Enum) and v.concrete() is not None:
                            bad = z3.BoolVal(v.concrete() != 1)
                        elif isinstance(v, Enum):
                            bad = v.discr != 1
                        else:
                            bad = z3.BoolVal(True)
                        ctx.prop('%s/p%d/unselected-statement-is-refused(Err)' % (label, pi), o.state.pc, bad, [], rp, twin=False)
                    else:
                        # Err(Unknown) for macro/item/empty statements and a failed sub_width are legitimate; Err(SkipFormatting) is the guard
                        e = v.payloads.get(1) if isinstance(v, Enum) else None
                        e = e.items[0] if e is not None else None
                        if isinstance(v, Enum) and v.concrete() == 1 and isinstance(e, Enum) and e.concrete() is not None:
                            bad = z3.BoolVal(e.concrete() == skip_idx)
                        elif isinstance(v, Enum) and v.concrete() == 1 and not isinstance(e, Enum):
                            bad = z3.BoolVal(False)      # an error value of another type converted by `?` (ExceedsMaxWidthError)
                        elif isinstance(v, Enum) and isinstance(e, Enum):
                            bad = z3.And(v.discr == 1, e.discr == skip_idx)
                        else:
                            bad = z3.BoolVal(True)
                        ctx.prop('%s/p%d/selected-statement-is-not-refused-as-out-of-range' % (label, pi), o.state.pc, bad, [], rp, twin=False)
            elif o.kind == 'panic':
                if g['method'] == 'visit_assoc_item' and 'unreachable' in str(o.info.get('msg', '')) + str(o.info.get('kind', '')):
                    continue                       # documented precondition: visitor_kind is AssocTraitItem or AssocImplItem
                if g['kind'] == 'rewriter':
                    continue                       # panics are C16's subject; here only the returned verdict matters
                ctx.prop('%s/p%d/no-panic' % (label, pi), o.state.pc, z3.BoolVal(True), [], rp, twin=False)
        if skip_expected and nret == 0:
            ctx.inconclusive.append('%s: no path returns with the node outside the selection' % label)
        if not skip_expected and ncut == 0:
            ctx.inconclusive.append('%s: no path goes on to process the node' % label)
    eng.stubs = []
    eng.lenient = False
    eng.unsupported_as_outcome = False
    eng.inline_only = None


# ----------------------------------------------------------------------------- spans -> 1-based inclusive line ranges
def line_range_conversion(ctx, eng):
    """ParseSess::lookup_line_range (real MIR): SourceMap::lookup_line gives 0-based lines l_lo, l_hi (symbolic). For a span whose text
    does not start with a newline (every item, statement, expression span) the range is exactly [l_lo + 1, l_hi + 1]; for a span that
    starts with a newline both ends move by one more line (the code's documented adjustment: observed, only its shape is checked)."""
    name = eng.find('lookup_line_range', self_ty='ParseSess', file='src/parse/session.rs', trait='LineRangeUtils')
    eng.stubs = []
    eng.lenient = True
    eng.inline_only = [re.compile(r'lookup_line_range$')]
    l_lo, l_hi = z3.BitVec('line0_lo', 64), z3.BitVec('line0_hi', 64)
    swn = z3.Bool('span_starts_with_newline')
    calls = {'n': 0}

    def lookup_line(e, s_, a, c):
        k = len([t for t in s_.trace if t[0] == 'lookup_line'])
        s_.trace.append(('lookup_line', a[1]))
        ln = l_lo if k == 0 else l_hi
        return Enum('Result', 0, {0: Tup([Tup([Opaque('Arc<SourceFile>', 'sf'), BV(ln, 'usize')], 'SourceFileAndLine')])})
    eng.stub(r'SourceMap::lookup_line$', lookup_line, 'SourceMap::lookup_line(pos) = Ok(SourceFileAndLine { sf, line }) with the 0-based line symbolic (first call: span.lo, second: span.hi)')
    eng.stub(r'starts_with_newline$', lambda e, s_, a, c: swn, 'utils::starts_with_newline(snippet) = symbolic')
    eng.stub(r'Span>::(lo|hi)$', lambda e, s_, a, c: Tup([Opaque('pos', c.func.rsplit('::', 1)[1])], 'BytePos'), 'Span::lo / Span::hi = named positions')
    st = State()
    st.assume(z3.And(z3.ULT(l_lo, LIM), z3.ULT(l_hi, LIM), z3.ULE(l_lo, l_hi)))
    fn = eng.get_fn(name)
    args = [eng.fresh_of_type(st, fn.params[0][1], 'psess'), Opaque('Span', 'span')]
    outs = ctx.check_outcomes(eng.run(name, args, st), 'lookup_line_range')
    lr = [n for n, _ in eng.src.struct_fields('LineRange', 'src/source_map.rs')]
    nret = 0
    for pi, o in enumerate(outs):
        label = 'line-range/p%d' % pi
        if o.kind != 'ret':
            ctx.prop(label + '/no-panic', o.state.pc, z3.BoolVal(True), [l_lo, l_hi, swn], None, twin=False)
            continue
        nret += 1
        order = [t[1] for t in o.state.trace if t[0] == 'lookup_line']
        okorder = len(order) == 2 and isinstance(order[0], Tup) and order[0].items[0].ident == 'lo' and order[1].items[0].ident == 'hi'
        ctx.prop(label + '/looks-up-span.lo-then-span.hi', o.state.pc, z3.BoolVal(not okorder), [], None, twin=False)
        v = o.value
        lo_v, hi_v = v.items[lr.index('lo')].e, v.items[lr.index('hi')].e
        if eng.feasible(o.state, z3.Not(swn)):
            ctx.prop(label + '/item-spans:1-based-inclusive-lines', o.state.pc + [z3.Not(swn)], z3.Or(lo_v != l_lo + 1, hi_v != l_hi + 1), [l_lo, l_hi, lo_v, hi_v], replay_line_range)
        if eng.feasible(o.state, swn):
            ctx.prop(label + '/spans-starting-with-a-newline:both-ends-one-line-later', o.state.pc + [swn], z3.Or(lo_v != l_lo + 2, hi_v != l_hi + 2), [l_lo, l_hi, lo_v, hi_v], replay_line_range)
    if not nret:
        raise Inconclusive('lookup_line_range has no returning path')
    eng.stubs = []
    eng.lenient = False
    eng.inline_only = None


def replay_line_range(model, r):
    """one-line items at every line of a small file: selecting exactly line k formats exactly item k"""
    bins = ensure_bins()
    rf = os.path.join(bins, 'rustfmt')
    n = 6
    src = ''.join('fn   f%d( ) { }\n' % i for i in range(1, n + 1))
    findings = []
    for k in range(1, n + 1):
        pr = subprocess.run([rf, '--emit', 'stdout', '--quiet', '--unstable-features', '--file-lines', '[{"file":"stdin","range":[%d,%d]}]' % (k, k)],
                            input=src, capture_output=True, text=True, env=run_env(), timeout=60)
        out = pr.stdout.split('\n')
        want = ['fn f%d() {}' % i if i == k else 'fn   f%d( ) { }' % i for i in range(1, n + 1)] + ['']
        if out != want:
            changed = [i + 1 for i in range(min(len(out), n)) if out[i] != src.split('\n')[i]]
            findings.append('selection [%d,%d]: lines changed %r' % (k, k, changed))
    # the same in an out-of-line module file (its text does not start at position 0 of the source map), with items of different lengths
    d = os.path.join(BUILD, 'scratch', 'c17l-%d' % os.getpid())
    # (line lengths and the length of the root file are swept: a position computed against the wrong origin lands on some byte of the module file)
    for root_pad, name_len in [(rp_, nl) for rp_ in range(0, 5) for nl in range(1, 5)]:
        widths = (root_pad, name_len)
        shutil.rmtree(d, ignore_errors=True)
        os.makedirs(d)
        lines = ['fn %s( ) {}' % (chr(ord('a') + i) * name_len) for i in range(3)]
        msrc = '\n'.join(lines) + '\n'
        open(os.path.join(d, 'lib.rs'), 'w').write('mod foo;%s\n' % ((' //' + 'x' * (root_pad - 3)) if root_pad >= 3 else ' ' * 0))
        for k in range(1, len(lines) + 1):
            open(os.path.join(d, 'foo.rs'), 'w').write(msrc)
            pr = subprocess.run([rf, '--unstable-features', '--file-lines', '[{"file":"%s","range":[%d,%d]}]' % (os.path.join(d, 'foo.rs'), k, k), 'lib.rs'],
                                capture_output=True, text=True, env=run_env(), timeout=60, cwd=d)
            got = open(os.path.join(d, 'foo.rs')).read().split('\n')
            want = [ln.replace('( )', '()') if i + 1 == k else ln for i, ln in enumerate(lines)] + ['']
            if got != want:
                changed = [i + 1 for i in range(min(len(got), len(lines))) if got[i] != lines[i]]
                findings.append('module file, selection [%d,%d], item lengths %r: lines changed %r' % (k, k, widths, changed))
    shutil.rmtree(d, ignore_errors=True)
    return {'reproduced': bool(findings), 'detail': findings[:4]}


def short_callee(c):
    return re.sub(r'<[^<>]*>', '', c)[-50:]


# (source, selected line): the selected line lies inside the enclosing item, so the enclosing guards let the walk in; every other
# line is mis-spaced and must come back byte for byte. Selected lines format to a single line, so line numbers are stable.
FL_CASES = [
    ('fn main() {\n    let a = 1;\n    let   b = 2;\n    unreachable ! (   );\n    todo ! [  ];\n    let   v   =   1 ;\n    call( 1 ,2 ) ;\n    fn   inner( ) { }\n    let   w ;\n    let   u : u8 ;\n    w=1 ;\n    loop  { break ; }\n}\n', 3, '    let b = 2;'),
    ('struct S;\nimpl S {\n    fn   sel( & self ) { }\n    fn   other( & self ) { }\n    const   C : u8   =  1 ;\n    mac ! (  a  );\n}\n', 3, '    fn sel(&self) {}'),
    ('trait T {\n    fn   sel( & self ) ;\n    fn   other( & self ) ;\n    type   A ;\n}\n', 2, '    fn sel(&self);'),
    ('mod m {\n    fn   sel( ) { }\n    fn   other( ) { }\n    struct   Q ;\n    mac ! {  a  }\n}\n', 2, '    fn sel() {}'),
    ('// only this line is selected\nfn   item_one( ) { let   a=1 ; }\nimpl   S { fn   assoc( & self ) { } }\ntrait   T { fn   decl( & self ) ; }\nmac ! (  a  );\n', 1, '// only this line is selected'),
]


def make_cli_replay(ctx, selected=False):
    def run(rf, src, flags):
        pr = subprocess.run([rf, '--emit', 'stdout', '--quiet'] + flags, input=src, capture_output=True, text=True, env=run_env(), timeout=60)
        if pr.returncode != 0 or not pr.stdout:
            raise Inconclusive('guard replay: rustfmt %s failed: %s' % (flags, pr.stderr[:200]))
        return pr.stdout

    def replay(model, r):
        bins = ensure_bins()
        rf = os.path.join(bins, 'rustfmt')
        findings = []
        for src, sel, want in FL_CASES:
            out = run(rf, src, ['--unstable-features', '--file-lines', '[{"file":"stdin","range":[%d,%d]}]' % (sel, sel)])
            a, b = src.split('\n'), out.split('\n')
            if not selected:
                if len(a) != len(b):
                    findings.append('selection [%d,%d] of %r: line count changed %d -> %d' % (sel, sel, src[:30], len(a), len(b)))
                    continue
                bad = [(i + 1, a[i], b[i]) for i in range(len(a)) if i + 1 != sel and a[i] != b[i]]
                if bad:
                    findings.append('selection [%d,%d]: unselected lines changed: %r' % (sel, sel, bad[:4]))
            else:
                # code that intersects the selection is formatted as without the restriction
                if len(b) <= sel - 1 or b[sel - 1] != want:
                    findings.append('selection [%d,%d]: the selected line came back as %r, not %r' % (sel, sel, b[sel - 1] if len(b) >= sel else None, want))
                n = len(a)
                whole = run(rf, src, ['--unstable-features', '--file-lines', '[{"file":"stdin","range":[1,%d]}]' % n])
                free = run(rf, src, [])
                if whole != free:
                    findings.append('selection [1,%d] (everything) differs from the unrestricted output of %r' % (n, src[:30]))
        return {'reproduced': bool(findings), 'detail': findings}
    return replay


def to_py(v):
    if z3.is_bool(v):
        s = z3.simplify(v)
        assert z3.is_true(s) or z3.is_false(s), s
        return z3.is_true(s)
    if isinstance(v, BV):
        c = v.concrete()
        assert c is not None
        return c
    if isinstance(v, Enum):
        c = v.concrete()
        if v.name == 'Option':
            return None if c == 0 else to_py(v.payloads[1].items[0])
        return c
    if isinstance(v, Tup):
        return [to_py(x) for x in v.items]
    if isinstance(v, Seq):
        return [to_py(x) for x in v.items]
    raise Inconclusive('to_py %r' % (v,))


def crng(a, b):
    return Tup([bv_const(a, 'usize'), bv_const(b, 'usize')], 'Range')


def validate(ctx, eng, names, norm, cl, cr):
    """§4.3: the encoding and the real code agree on concrete vectors (unit-test vectors + seeded random)."""
    rp = ctx.replayer()
    n = 60 if ctx.tier == 'quick' else 400
    vecs = [((1, 2), (1, 2)), ((1, 2), (2, 3)), ((1, 3), (2, 2)), ((1, 2), (3, 4)), ((2, 1), (1, 2)), ((1, 1), (2, 2)), ((3, 4), (1, 2)), ((1, 9), (5, 3))]
    for _ in range(n):
        vecs.append(((ctx.rng.randint(0, 12), ctx.rng.randint(0, 12)), (ctx.rng.randint(0, 12), ctx.rng.randint(0, 12))))
    bad = 0
    for (A, B) in vecs:
        real = rp.call({'op': 'range_ops', 'a': A, 'b': B})
        enc = {}
        for m in ('contains', 'intersects', 'adjacent_to', 'merge'):
            outs = eng.run(names[m], [crng(*A), crng(*B)], State())
            assert len(outs) == 1 and outs[0].kind == 'ret', (m, A, B, outs)
            enc[m] = to_py(outs[0].value)
        outs = eng.run(names['is_empty'], [crng(*A)], State())
        enc['is_empty'] = to_py(outs[0].value)
        for m in enc:
            if enc[m] != real[m]:
                bad += 1
                ctx.validation_detail.append({'kernel': m, 'input': [A, B], 'encoding': enc[m], 'real': real[m]})
        ctx.validated += 1
    for _ in range(n):
        k = ctx.rng.randint(0, 4)
        rs = [(ctx.rng.randint(0, 10), ctx.rng.randint(0, 10)) for _ in range(k)]
        L, P, Q = ctx.rng.randint(0, 11), ctx.rng.randint(0, 11), ctx.rng.randint(0, 11)
        real_n = rp.call({'op': 'normalize', 'ranges': rs})['out']
        real_q = rp.call({'op': 'fl_query', 'ranges': rs, 'line': L, 'lo': P, 'hi': Q})
        st = State()
        href = eng.ref_to(st, Tup([Seq([Tup([stdin_name(), Seq([crng(*r) for r in rs])])])], 'HashMap'), True)
        outs = eng.run(norm, [href], st)
        assert len(outs) == 1 and outs[0].kind == 'ret', outs
        s1 = outs[0].state
        enc_n = to_py(eng.read_ref(s1, href).items[0].items[0].items[1])
        flref = eng.ref_to(s1, Tup([Enum('Option', 1, {1: Tup([eng.read_ref(s1, href)])})], 'FileLines'))
        fname = eng.ref_to(s1, stdin_name())
        o1 = eng.run(cl, [flref, fname, bv_const(L, 'usize')], s1.fork())
        o2 = eng.run(cr, [flref, fname, bv_const(P, 'usize'), bv_const(Q, 'usize')], s1.fork())
        enc_q = {'contains_line': to_py(o1[0].value), 'contains_range': to_py(o2[0].value)}
        if enc_n != [list(x) for x in real_n] or enc_q != real_q:
            bad += 1
            ctx.validation_detail.append({'kernel': 'normalize+query', 'input': [rs, L, P, Q], 'encoding': [enc_n, enc_q], 'real': [real_n, real_q]})
        ctx.validated += 1
    if bad:
        raise Inconclusive('translator validation: %d disagreements between the encoding and the real code: %r' % (bad, ctx.validation_detail[:3]))
    ctx.validation_detail.append({'vectors': ctx.validated, 'disagreements': 0})


if __name__ == '__main__':
    main_wrapper('C17', build)
