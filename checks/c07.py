"""C07 — line-width and trailing-whitespace diagnostics are exact.

Inductive step over the real MIR of FormatLines::{new,char,new_line,push_err,should_report_error,is_skipped_line}:
from an arbitrary scanner state that satisfies the representation invariant (scanner fields = ghost spec
quantities of the current line), one `char` or one `new_line` event with arbitrary arguments is executed; the
solver decides that exactly the records the written-down specification demands are pushed and that the
invariant is re-established. One step from an arbitrary state covers texts of any length."""
from common import *
from mirsym.config import make_config, config_layout
from mirsym.intrinsics import is_whitespace_expr

LIM = 1 << 32
FM = 'src/formatting.rs'

KINDS = ['Normal', 'StartComment', 'InComment', 'EndComment', 'StartStringCommented', 'EndStringCommented', 'InStringCommented', 'StartString', 'EndString', 'InString']
# what the character-level classifier (CharClasses) can emit; checked syntactically against its MIR below
CHAR_LEVEL_KINDS = {'Normal', 'StartComment', 'InComment', 'EndComment', 'InStringCommented', 'InString'}
SPEC_STRING = {'InString'}
SPEC_COMMENT = {'StartComment', 'InComment', 'EndComment', 'InStringCommented'}


def build(ctx):
    eng = ctx.engine('lib', loop_bound=6)
    NR = 2 if ctx.tier == 'quick' else 3
    ctx.bounds = {'text length': 'unbounded (inductive step from an arbitrary scanner state under the invariant)',
                  'skipped ranges': '<= %d' % NR, 'max_width': '0 .. 2^32 (symbolic)', 'tab_spaces': '1..=8', 'line numbers / widths': '< 2^32',
                  'characters': 'every Unicode scalar value except \\n and \\r (routed / dropped by iterate)',
                  'kinds': 'the six FullCodeCharKind values the character-level classifier constructs'}
    ctx.outside = ['the callers of push_skipped_with_span (which spans are passed)', 'that CharClasses assigns the right kinds (C03)',
                   'the Display text of the report', 'the file-lines predicate itself (C17): here an uninterpreted predicate sel(line)']
    ctx.assumptions = ['config.file_lines().contains_line(name, n) = uninterpreted predicate sel(n)',
                       'a "comment line" is a line whose terminating newline is classified as comment; a line "contains a string literal" if one of its characters is classified InString',
                       'width of a line = sum over its characters of (tab ? tab_spaces : 1)']
    vs = eng.enum_variants('FullCodeCharKind')
    if vs != KINDS:
        raise Inconclusive('FullCodeCharKind variants changed: %r' % (vs,))
    ek = eng.enum_variants('ErrorKind')
    LO, TW = ek.index('LineOverflow'), ek.index('TrailingWhitespace')
    kidx = {k: i for i, k in enumerate(KINDS)}

    # -- syntactic side condition: kinds constructed by CharClasses::next
    cc = [r for r in eng.records if r['method'] == 'next' and r['file'] == 'src/comment.rs' and r['trait'] == 'Iterator']
    built = set()
    for r in cc:
        fp = eng._first_param_ty(r) or ''
        if 'CharClasses' not in fp:
            continue
        mir = eng.mirs[r['mir']]
        s, e = mir.index[r['name']]
        built |= set(re.findall(r'FullCodeCharKind::([A-Za-z]+)', '\n'.join(mir.lines[s:e])))
    if not built:
        raise Inconclusive('CharClasses::next not found')
    if not built <= CHAR_LEVEL_KINDS:
        raise Inconclusive('CharClasses::next now constructs kinds outside the encoded set: %r' % (built - CHAR_LEVEL_KINDS,))
    ctx.notes.append('CharClasses::next constructs exactly %s' % sorted(built))

    sel = z3.Function('sel', z3.BitVecSort(64), z3.BoolSort())

    def contains_line_stub(eng_, st, args, ci):
        return sel(args[2].e)
    eng.stub(r'(^|::)FileLines::contains_line$', contains_line_stub, 'FileLines::contains_line(name, n) = uninterpreted predicate sel(n) (its correctness is C17)')

    names = {m: eng.find(m, self_ty='FormatLines', file=FM) for m in ('new', 'new_line', 'char', 'push_err', 'should_report_error', 'is_skipped_line')}
    fi = {n: eng.src.field_index('FormatLines', n, FM) for n in ('name', 'skipped_range', 'last_was_space', 'line_len', 'cur_line', 'newline_count', 'errors',
                                                                 'line_buffer', 'current_line_contains_string_literal', 'format_line', 'config')}
    ef = {n: eng.src.field_index('FormattingError', n, FM) for n in ('line', 'kind', 'is_comment', 'is_string', 'line_buffer')}

    def mk_state():
        st = State()
        cfgref, cv = make_config(eng, st)
        mw, ts = cv['max_width'].e, cv['tab_spaces'].e
        eou, eol = cv['error_on_unformatted'], cv['error_on_line_overflow']
        st.assume(z3.ULT(mw, LIM))
        st.assume(z3.And(z3.UGE(ts, 1), z3.ULE(ts, 8)))
        ranges = [Tup([BV(z3.BitVec('sk%d.lo' % i, 64), 'usize'), BV(z3.BitVec('sk%d.hi' % i, 64), 'usize')]) for i in range(NR)]
        skref = eng.ref_to(st, Seq(ranges), False, 'skipped')
        nameref = eng.ref_to(st, Enum('FileName', 1, {}), False, 'fname')
        W = z3.BitVec('W', 64)
        L = z3.BitVec('L', 64)
        NC = z3.BitVec('NC', 64)
        B = z3.Bool('B')
        S = z3.Bool('S')
        st.assume(z3.ULT(W, LIM))
        st.assume(z3.And(z3.UGE(L, 1), z3.ULT(L, LIM)))
        st.assume(z3.ULT(NC, LIM))
        st.assume(z3.Implies(B, z3.UGE(W, 1)))
        fields = [None] * len(fi)
        fields[fi['name']] = nameref
        fields[fi['skipped_range']] = skref
        fields[fi['last_was_space']] = B
        fields[fi['line_len']] = BV(W, 'usize')
        fields[fi['cur_line']] = BV(L, 'usize')
        fields[fi['newline_count']] = BV(NC, 'usize')
        fields[fi['errors']] = Seq([])
        fields[fi['line_buffer']] = Seq([])
        fields[fi['current_line_contains_string_literal']] = S
        fields[fi['format_line']] = sel(L)          # invariant: format_line = sel(cur_line)
        fields[fi['config']] = cfgref
        selL, selL1 = z3.Bool('sel_L'), z3.Bool('sel_L1')
        st.assume(selL == sel(L))
        st.assume(selL1 == sel(L + 1))
        selfref = eng.ref_to(st, Tup(fields, 'FormatLines'), True, 'self')
        g = dict(selL=selL, selL1=selL1, W=W, L=L, NC=NC, B=B, S=S, mw=mw, ts=ts, eou=eou, eol=eol, ranges=ranges, selfref=selfref, cfgref=cfgref)
        return st, g

    def kind_val(st, base):
        d = z3.BitVec(base, 64)
        st.assume(z3.Or([d == kidx[k] for k in sorted(CHAR_LEVEL_KINDS)]))
        return Enum('FullCodeCharKind', d, {}), d

    def in_kinds(d, names_):
        return z3.Or([d == kidx[k] for k in names_])

    rp = ctx.replayer()

    # ------------------------------------------------------------ step: char(c, kind)
    st, g = mk_state()
    c = BV(z3.BitVec('c', 32), 'char')
    st.assume(z3.And(z3.ULE(c.e, 0x10FFFF), z3.Or(z3.ULT(c.e, 0xD800), z3.UGT(c.e, 0xDFFF)), c.e != 10, c.e != 13))
    kv, kd = kind_val(st, 'kind')
    mv = [g['W'], g['L'], g['NC'], g['B'], g['S'], g['mw'], g['ts'], c.e, kd, g['selL'], g['selL1']]
    outs = ctx.check_outcomes(eng.run(names['char'], [g['selfref'], c, kv], st), 'char')
    for i, o in enumerate(outs):
        if o.kind == 'panic':
            ctx.prop('char/p%d/no-panic' % i, o.state.pc, z3.BoolVal(True), mv, make_replay(ctx, rp, 'char'), twin=False)
            continue
        f = eng.read_ref(o.state, g['selfref']).items
        Wn = g['W'] + z3.If(c.e == 9, g['ts'], z3.BitVecVal(1, 64))
        post = z3.And(f[fi['line_len']].e == Wn,
                      f[fi['last_was_space']] == is_whitespace_expr(c.e),
                      f[fi['current_line_contains_string_literal']] == z3.Or(g['S'], in_kinds(kd, SPEC_STRING)),
                      f[fi['cur_line']].e == g['L'],
                      f[fi['format_line']] == sel(g['L']),
                      f[fi['newline_count']].e == 0,
                      z3.Implies(is_whitespace_expr(c.e), z3.UGE(Wn, 1)))
        ctx.prop('char/p%d/state-tracks-width-blank-string' % i, o.state.pc, z3.Not(post), mv, make_replay(ctx, rp, 'char'))
        ctx.prop('char/p%d/records-nothing' % i, o.state.pc, z3.BoolVal(len(f[fi['errors']].items) != 0), mv, make_replay(ctx, rp, 'char'), twin=False)

    # ------------------------------------------------------------ step: new_line(kind)
    st, g = mk_state()
    kv, kd = kind_val(st, 'kind')
    W, L, B, S, mw, eou, eol = g['W'], g['L'], g['B'], g['S'], g['mw'], g['eou'], g['eol']
    mv = [W, L, g['NC'], B, S, mw, g['ts'], kd, eou, eol, g['selL'], g['selL1']] + [x.e for r in g['ranges'] for x in r.items]
    skipped = z3.Or([z3.And(z3.ULE(r.items[0].e, L), z3.ULE(L, r.items[1].e)) for r in g['ranges']])
    eligible = z3.And(sel(L), z3.Not(skipped))
    is_c = in_kinds(kd, SPEC_COMMENT)
    exempt = z3.And(z3.Not(eou), z3.Or(is_c, S))
    wide = z3.UGT(W, mw)
    outs = ctx.check_outcomes(eng.run(names['new_line'], [g['selfref'], kv], st), 'new_line')
    log('[C07] new_line: %d paths' % len(outs))
    for i, o in enumerate(outs):
        if o.kind == 'panic':
            ctx.prop('new_line/p%d/no-panic' % i, o.state.pc, z3.BoolVal(True), mv, make_replay(ctx, rp, 'new_line'), twin=False)
            continue
        f = eng.read_ref(o.state, g['selfref']).items
        recs = f[fi['errors']].items
        pc = o.state.pc
        rp_fn = make_replay(ctx, rp, 'new_line')
        hint = [z3.ULT(x, 60) for x in mv if z3.is_bv(x)]
        n_lo = sum(1 for r in recs if r.items[ef['kind']].concrete() == LO)
        n_tw = sum(1 for r in recs if r.items[ef['kind']].concrete() == TW)
        if any(r.items[ef['kind']].concrete() is None for r in recs):
            raise Inconclusive('record with symbolic kind')
        # 1. completeness
        ctx.prop('new_line/p%d/complete:reportable-line-is-reported' % i, pc,
                 z3.And(eligible, z3.Not(exempt), z3.Or(B, z3.And(wide, eol)), z3.BoolVal(len(recs) == 0)), mv, rp_fn, hint=hint)
        ctx.prop('new_line/p%d/complete:too-wide-without-trailing-blank-is-reported-as-overflow' % i, pc,
                 z3.And(eligible, z3.Not(exempt), z3.Not(B), wide, eol, z3.BoolVal(n_lo == 0)), mv, rp_fn, hint=hint)
        # 3. unconditional trailing blank
        ctx.prop('new_line/p%d/trailing-blank-on-code-line-reported-under-every-flag' % i, pc,
                 z3.And(eligible, B, z3.Not(z3.Or(is_c, S)), z3.BoolVal(n_tw == 0)), mv, rp_fn, hint=hint)
        # 2. soundness
        ctx.prop('new_line/p%d/sound:at-most-one-record-per-kind-and-no-other-kind' % i, pc,
                 z3.BoolVal(n_lo > 1 or n_tw > 1 or n_lo + n_tw != len(recs)), mv, rp_fn, twin=False, hint=hint)
        for j, r in enumerate(recs):
            kindv = r.items[ef['kind']]
            kc = kindv.concrete()
            ctx.prop('new_line/p%d/rec%d/line-number-is-current-line' % (i, j), pc, r.items[ef['line']].e != L, mv, rp_fn, hint=hint)
            if kc == LO:
                found, mx = kindv.payloads[LO].items
                ok = z3.And(wide, eligible, z3.Not(exempt), eol, mx.e == mw, z3.Or(found.e == W, found.e == W - 1), z3.UGT(found.e, mw))
                ctx.prop('new_line/p%d/rec%d/sound:overflow-record-only-for-too-wide-eligible-line' % (i, j), pc, z3.Not(ok), mv, rp_fn, hint=hint)
            elif kc == TW:
                ok = z3.And(B, eligible, z3.Not(exempt))
                ctx.prop('new_line/p%d/rec%d/sound:trailing-record-only-for-blank-ended-eligible-line' % (i, j), pc, z3.Not(ok), mv, rp_fn, hint=hint)
        # 4. invariant re-established for the next line
        post = z3.And(f[fi['line_len']].e == 0, z3.Not(f[fi['last_was_space']]), z3.Not(f[fi['current_line_contains_string_literal']]),
                      f[fi['cur_line']].e == L + 1, f[fi['format_line']] == sel(L + 1), f[fi['newline_count']].e == g['NC'] + 1)
        ctx.prop('new_line/p%d/invariant-re-established' % i, pc, z3.Not(post), mv, rp_fn, hint=hint)

    # covers: interesting regions are reachable
    ctx.cover('cover/wide-and-skipped', [z3.ULT(W, LIM), wide, skipped, sel(L)])
    ctx.cover('cover/wide-blank-ended-boundary', [W == mw + 1, B, z3.ULT(mw, LIM)])
    ctx.cover('cover/exempt-comment-line', [z3.Not(eou), is_c, wide])

    # ------------------------------------------------------------ base case: FormatLines::new establishes the invariant
    st = State()
    cfgref, cv = make_config(eng, st)
    st.assume(z3.ULT(cv['max_width'].e, LIM))
    skref = eng.ref_to(st, Seq([]), False)
    nameref = eng.ref_to(st, Enum('FileName', 1, {}), False)
    outs = ctx.check_outcomes(eng.run(names['new'], [nameref, skref, cfgref], st), 'new')
    for i, o in enumerate(outs):
        if o.kind == 'panic':
            ctx.prop('new/p%d/no-panic' % i, o.state.pc, z3.BoolVal(True), [], replay_first_line(rp), twin=False)
            continue
        f = o.value.items
        post = z3.And(f[fi['line_len']].e == 0, f[fi['cur_line']].e == 1, z3.Not(f[fi['last_was_space']]), z3.Not(f[fi['current_line_contains_string_literal']]),
                      f[fi['format_line']] == sel(z3.BitVecVal(1, 64)), f[fi['newline_count']].e == 0, z3.BoolVal(len(f[fi['errors']].items) == 0))
        ctx.prop('new/p%d/establishes-invariant' % i, o.state.pc, z3.Not(post), [], replay_first_line(rp))

    # ------------------------------------------------------------ track_errors: both line diagnostics make the run fail (exit status via C06)
    track = eng.find('track_errors', self_ty='FormatReport', file='src/lib.rs')
    for kname, vi in (('TrailingWhitespace', TW), ('LineOverflow', LO)):
        st = State()
        flags = [z3.Bool('flag%d' % j) for j in range(7)]
        re_fields = eng.src.struct_fields('ReportedErrors', FM)
        errs = Tup(flags[:len(re_fields)], 'ReportedErrors')
        internal = Tup([Opaque('FormatErrorMap', 'm'), errs])
        # FormatReport { internal: Rc<RefCell<(FormatErrorMap, ReportedErrors)>>, non_formatted_ranges }
        cell = eng.ref_to(st, Tup([internal], 'RefCell'), True, 'cell')
        report = eng.ref_to(st, Tup([cell, Opaque('Vec', 'nfr')], 'FormatReport'), False, 'report')
        payload = {vi: Tup([bv_const(100, 'usize'), bv_const(80, 'usize')])} if kname == 'LineOverflow' else {}
        rec = [None] * 5
        rec[ef['line']] = bv_const(3, 'usize')
        rec[ef['kind']] = Enum('ErrorKind', vi, payload)
        rec[ef['is_comment']] = z3.BoolVal(False)
        rec[ef['is_string']] = z3.BoolVal(False)
        rec[ef['line_buffer']] = Seq([])
        errsref = eng.ref_to(st, Seq([Tup(rec, 'FormattingError')]), False, 'new_errors')
        outs = ctx.check_outcomes(eng.run(track, [report, errsref], st), 'track_errors')
        op_idx = [n for n, _ in re_fields].index('has_operational_errors')
        for i, o in enumerate(outs):
            if o.kind != 'ret':
                ctx.prop('track_errors/%s/p%d/no-panic' % (kname, i), o.state.pc, z3.BoolVal(True), [], None, twin=False)
                continue
            after = eng.read_ref(o.state, cell).items[0].items[1].items
            ctx.prop('track_errors/%s/p%d/sets-operational-error' % (kname, i), o.state.pc, z3.Not(after[op_idx]), flags, replay_exit_status)

    skipped_range_recording(ctx)
    validate(ctx, eng, names, fi, ef, rp, kidx, LO, TW, sel)


# ----------------------------------------------------------------------------- how skipped_range is filled
# format_lines scans the *emitted* text, so a recorded range has to be in output line numbers. The source geometry is an
# uninterpreted function line_of(pos); the output side is the visitor's own counter (line_number = newlines emitted so far).

VIS = 'src/visitor.rs'
KF_MACRO = 'C07/skipped_range/macro-fallback-records-source-lines'


def skipped_range_recording(ctx):
    eng = ctx.engine(('lib',), loop_bound=6)
    LIM = z3.BitVecVal(1 << 32, 64)
    line_of = z3.Function('line_of', z3.BitVecSort(32), z3.BitVecSort(64))
    posmemo = {}

    def pos_of(v, which):
        key = (str(getattr(v, 'ident', id(v))), which)
        if key not in posmemo:
            posmemo[key] = z3.BitVec('pos.%s.%s' % key, 32)
        return posmemo[key]

    def span_end(eng_, st, args, ci):
        return Tup([BV(pos_of(args[0], ci.func.rsplit('::', 1)[1]), 'u32')], 'BytePos')

    def line_of_stub(eng_, st, args, ci):
        p_ = args[1]
        if not (isinstance(p_, Tup) and p_.items and isinstance(p_.items[0], BV)):
            raise Inconclusive('line_of_byte_pos called with a position the harness did not name: %r' % (p_,))
        return BV(line_of(p_.items[0].e), 'usize')

    def pushed_pairs(st):
        return [t[2][1] for t in st.trace if t[0] == 'call' and re.search(r'Vec::<\(usize, usize\)>::push$', t[1])]

    # ---- visitor site: FmtVisitor::push_skipped_with_span
    name = eng.find('push_skipped_with_span', self_ty='FmtVisitor', file=VIS)
    fn = eng.get_fn(name)
    fields = [n for n, _ in eng.src.struct_fields('FmtVisitor', VIS)]
    ln_idx = fields.index('line_number')
    for k in (1, 2) if ctx.tier == 'quick' else (0, 1, 2, 3):
        eng.stubs = []
        eng.lenient = True
        eng.usize_bound = LIM       # line counts and positions are u32-sized in the source map
        eng.inline_only = [re.compile(r'push_skipped_with_span')]
        posmemo.clear()
        st = State()
        vis = eng.fresh_of_type(st, fn.params[0][1], 'self')
        vobj = eng.read_ref(st, vis)
        if not isinstance(vobj, Opaque):
            raise Inconclusive('FmtVisitor harness object is not an under-constrained object')
        L0 = z3.BitVec('L0', 64)           # newlines emitted when the copy of the item begins: it begins on output line L0 + 1
        item, main = Opaque('Span', 'item'), Opaque('Span', 'main')

        def fmwi(eng_, st_, args, ci):
            st_.notes[('lazy', vobj.ident, ln_idx)] = BV(L0, 'usize')
            st_.trace.append(('format_missing_with_indent', args[1]))
            return UNIT

        def pri(eng_, st_, args, ci):
            # the snippet of the span is copied verbatim: it adds (last line - first line) newlines
            cur = st_.notes[('lazy', vobj.ident, ln_idx)]
            sp = args[1]
            st_.notes[('lazy', vobj.ident, ln_idx)] = BV(cur.e + (line_of(pos_of(sp, 'hi')) - line_of(pos_of(sp, 'lo'))), 'usize')
            st_.trace.append(('push_rewrite_inner', sp, args[2]))
            return UNIT
        eng.stub(r'Span>::source_callsite$', lambda e, s_, a, c: a[0], 'Span::source_callsite = identity (no macro expansion in the harness)')
        eng.stub(r'Span>::(lo|hi)$', span_end, 'Span::lo/hi = named symbolic positions')
        eng.stub(r'line_of_byte_pos$', line_of_stub, 'ParseSess::line_of_byte_pos = uninterpreted function line_of(pos) (the source geometry)')
        eng.stub(r'format_missing_with_indent$', fmwi, 'format_missing_with_indent: afterwards line_number = L0 (symbolic), the copy starts on output line L0+1')
        eng.stub(r'push_rewrite_inner$', pri, 'push_rewrite_inner(span, None): verbatim copy, line_number += line_of(span.hi) - line_of(span.lo)')
        attrs_seq = [Opaque('Attribute', 'attr%d' % i) for i in range(k)]
        attrs = eng.ref_to(st, Seq(attrs_seq), False, 'attrs')
        outs = ctx.check_outcomes(eng.run(name, [vis, attrs, item, main], st), 'push_skipped_with_span')
        # the attribute spans the closure read: lazily materialised field objects, found through the memo
        i_lo, i_hi, m_lo = (line_of(pos_of(item, 'lo')), line_of(pos_of(item, 'hi')), line_of(pos_of(main, 'lo')))
        n_ilo, n_ihi, n_mlo = z3.BitVecs('src_line_item_lo src_line_item_hi src_line_main_lo', 64)     # names for the model
        for pi, o in enumerate(outs):
            a_hi = [line_of(v) for (key, v) in posmemo.items() if key[1] == 'hi' and key[0] not in ('item', 'main')]
            geom = [z3.UGE(i_lo, 1), z3.ULE(i_lo, m_lo), z3.ULE(m_lo, i_hi), z3.ULT(i_hi, LIM), z3.ULT(L0, LIM)]
            geom += [z3.And(z3.ULE(i_lo, a), z3.ULE(a, m_lo)) for a in a_hi]
            geom += [n_ilo == i_lo, n_ihi == i_hi, n_mlo == m_lo]
            label = 'skipped-range/visitor/attrs=%d/p%d' % (k, pi)
            if o.kind != 'ret':
                # the two `+ 1` overflow asserts are unreachable under the geometry
                ctx.prop(label + '/no-panic', o.state.pc + geom, z3.BoolVal(True), [], replay_skipped_visitor, twin=False)
                continue
            pp = pushed_pairs(o.state)
            if len(pp) != 1:
                ctx.prop(label + '/exactly-one-range-recorded', o.state.pc + geom, z3.BoolVal(True), [], replay_skipped_visitor, twin=False)
                continue
            lo, hi = pp[0].items[0].e, pp[0].items[1].e
            # the source lines meant: from the line after the last attribute, or the first line of the code if that comes first, to the item's last line
            att_end = z3.BitVecVal(1, 64)
            if a_hi:
                att_end = a_hi[0]
                for a in a_hi[1:]:
                    att_end = z3.If(z3.UGE(a, att_end), a, att_end)
            lo_src = z3.If(z3.ULT(att_end + 1, m_lo), att_end + 1, m_lo)
            lo_src = z3.If(z3.ULT(lo_src, i_lo), i_lo, lo_src)      # never before the copy itself (no attributes: att_end = 1)
            mv = [L0, n_ilo, n_ihi, n_mlo]
            ctx.prop(label + '/start-is-an-output-line', o.state.pc + geom, lo != L0 + 1 + (lo_src - i_lo), mv, replay_skipped_visitor)
            ctx.prop(label + '/end-is-an-output-line', o.state.pc + geom, hi != L0 + 1 + (i_hi - i_lo), mv, replay_skipped_visitor)

    # ---- rewriter site: macros.rs return_macro_parse_failure_fallback
    name = eng.find('return_macro_parse_failure_fallback', free=True)
    fn = eng.get_fn(name)
    eng.stubs = []
    eng.lenient = True
    eng.inline_only = [re.compile(r'return_macro_parse_failure_fallback')]
    eng.stub(r'Span>::(lo|hi)$', span_end, 'Span::lo/hi = named symbolic positions')
    eng.stub(r'line_of_byte_pos$', line_of_stub, 'ParseSess::line_of_byte_pos = uninterpreted function line_of(pos) (the source geometry)')
    st = State()
    args = [eng.fresh_of_type(st, ty, 'a%d' % i) for i, (_, ty) in enumerate(fn.params)]
    mspan = Opaque('Span', 'mac')
    args[3] = mspan
    D = z3.BitVec('D', 64)      # ghost: output line of the macro's first line minus its source line (lines removed / added above it)
    outs = ctx.check_outcomes(eng.run(name, args, st), 'return_macro_parse_failure_fallback')
    m_lo, m_hi = line_of(pos_of(mspan, 'lo')), line_of(pos_of(mspan, 'hi'))
    geom = [z3.UGE(m_lo, 1), z3.ULE(m_lo, m_hi), z3.ULT(m_hi, LIM), z3.UGE(m_lo + D, 1), z3.ULT(m_hi + D, LIM), z3.Or(z3.ULT(D, LIM), z3.UGT(D, -LIM))]
    nrec = 0
    for pi, o in enumerate(outs):
        if o.kind != 'ret':
            continue
        pp = pushed_pairs(o.state)
        if not pp:
            continue            # block-like macros are re-indented, not recorded
        nrec += 1
        lo, hi = pp[0].items[0].e, pp[0].items[1].e
        cls = [(KF_MACRO, D != 0)]
        label = 'skipped-range/macro-fallback/p%d' % pi
        ctx.prop(label + '/range-is-in-output-lines', o.state.pc + geom, z3.Or(lo != m_lo + D, hi != m_hi + D), [D], replay_skipped_macro, classes=cls)
    if nrec == 0:
        ctx.inconclusive.append('skipped-range/macro-fallback: no path records a range')
    eng.usize_bound = None
    eng.stubs = []
    eng.lenient = False
    eng.inline_only = None


LONG = 'x' * 120


def _run_rustfmt(src, extra=()):
    bins = ensure_bins()
    rf = os.path.join(bins, 'rustfmt')
    d = os.path.join(BUILD, 'scratch', 'c07s-%d' % os.getpid())
    shutil.rmtree(d, ignore_errors=True)
    os.makedirs(d)
    open(os.path.join(d, 'empty.toml'), 'w').write('')
    p = os.path.join(d, 'in.rs')
    open(p, 'w').write(src)
    pr = subprocess.run([rf, '--color', 'never', '--config-path', os.path.join(d, 'empty.toml'), '--emit', 'stdout', '--config',
                         'error_on_line_overflow=true,error_on_unformatted=true' + ''.join(',' + e for e in extra), p], capture_output=True, text=True, env=run_env(), timeout=60)
    shutil.rmtree(d, ignore_errors=True)
    out = pr.stdout.split('\n')[2:] if pr.stdout.startswith(p) else pr.stdout.split('\n')
    rep = [int(m.group(1)) for m in re.finditer(r'exceeded maximum width[^\n]*\n\s*-->\s*[^\n]*?:(\d+):\d+:\d+', pr.stderr)]
    return out, sorted(rep), pr.returncode


def _preamble(src_lines, out_lines):
    """source text of `src_lines` lines that rustfmt emits as `out_lines` lines (None if this builder cannot)"""
    if src_lines >= out_lines:
        # leading blank lines vanish; one-line items stay one line
        return '\n' * (src_lines - out_lines) + ''.join('fn p%d() {}\n' % i for i in range(out_lines))
    surplus = out_lines - src_lines
    units = []
    while surplus > 0:
        if surplus == 1 or surplus == 3:
            units.append(('fn q%d() {} fn r%d() {}\n', 1))
            surplus -= 1
        else:
            units.append(('fn q%d() { a(); }\n', 2))
            surplus -= 2
    if len(units) > src_lines:
        return None
    return ''.join(u % ((i,) * u.count('%d')) for i, (u, _) in enumerate(units)) + ''.join('fn p%d() {}\n' % i for i in range(src_lines - len(units)))


def replay_skipped_visitor(model, r):
    """a #[rustfmt::skip] item with a too wide line, placed so that source and output line numbers differ"""
    findings = []
    cases = []
    if model and model.get('src_line_item_lo') is not None and model.get('L0') is not None:
        # the solver's geometry, scaled into what the input builder can produce
        s0, o0 = model['src_line_item_lo'] - 1, model['L0']
        if max(s0, o0) > 30:
            s0, o0 = (12, 2) if s0 > o0 else ((2, 7) if o0 > s0 else (3, 3))
        cases.append((s0, o0))
    cases += [(0, 0), (3, 1), (11, 1), (12, 2), (2, 4), (3, 7)]
    for (s, o) in cases:
        pre = _preamble(s, o)
        if pre is None:
            continue
        # (a) the skipped item's too wide line must not be reported; (b) a too wide line right after it must be
        src = pre + '#[rustfmt::skip]\nfn b() { let v = "%s"; }\nfn c() {\n    let w = "%s";\n}\n' % (LONG, LONG)
        out, rep, rc = _run_rustfmt(src)
        wide = [i + 1 for i, ln in enumerate(out) if len(ln) > 100]
        if len(out) < o + 5 or len(wide) != 2:
            continue            # the builder did not produce the intended layout: no verdict from this case
        want = [wide[1]]
        if rep != want:
            findings.append('source lines before the skipped item: %d, output lines: %d -> too wide lines reported %r, expected %r (line %d is skipped code)' % (s, o, rep, want, wide[0]))
        # (c) a skipped statement with the attribute on its own line, directly followed by a too wide statement that must be reported
        for nattr in (1, 2):
            attrs = '    #[rustfmt::skip]\n' + ('    #[allow(unused)]\n' if nattr == 2 else '')
            src = pre + 'fn b() {\n' + attrs + '    let v = "%s";\n    let w = "%s";\n    let z = 1;\n}\n' % (LONG, LONG)
            out, rep, rc = _run_rustfmt(src)
            wide = [i + 1 for i, ln in enumerate(out) if len(ln) > 100]
            if len(wide) != 2 or wide[1] != wide[0] + 1:
                continue
            if rep != [wide[1]]:
                findings.append('skipped statement under %d attribute lines (%d source / %d output lines above): too wide lines reported %r, expected %r' % (nattr, s, o, rep, [wide[1]]))
    return {'reproduced': bool(findings), 'detail': findings[:6]}


def replay_skipped_macro(model, r):
    findings = []
    for blanks in (0, 10):
        src = 'fn a() {}\n' + '\n' * (1 + blanks) + 'fn b() {\n    foo!(=> %s ;;; =>);\n}\n' % LONG
        out, rep, rc = _run_rustfmt(src, extra=('error_on_unformatted=false',))
        wide = [i + 1 for i, ln in enumerate(out) if len(ln) > 100]
        if len(wide) != 1:
            continue
        if rep:
            findings.append('%d blank lines removed above an unparsable macro call: its too wide line %d is reported %r although the call is left as it was' % (blanks, wide[0], rep))
    return {'reproduced': bool(findings), 'detail': findings}


# ----------------------------------------------------------------------------- native side

def spec_lines(text, events, max_width, tab_spaces, eou, eol, skipped, selected):
    """independent recomputation: which (line, kind) must be reported"""
    must_tw, must_lo = set(), set()
    line = 1
    W = 0
    blank = False
    has_str = False
    for (ch, kind) in events:
        if ch == 13:
            continue
        if ch == 10:
            eligible = selected(line) and not any(a <= line <= b for a, b in skipped)
            is_c = kind in (1, 2, 3, 4, 5, 6)
            exempt = (not eou) and (is_c or has_str)
            if eligible and not exempt:
                if blank:
                    must_tw.add(line)
                w = W - 1 if blank else W
                if w > max_width and eol:
                    must_lo.add(line)
            line += 1
            W = 0
            blank = False
            has_str = False
        else:
            W += tab_spaces if ch == 9 else 1
            blank = chr(ch).isspace()
            has_str = has_str or kind in (9, 7)
    return must_tw, must_lo


def kernel_replay(rp, what, model):
    """exact replay of the solver's model: the real scanner is put into the model's state (hook) and does one step;
    the specification is recomputed here in Python"""
    def g(k, d=0):
        return model.get(k, d)
    def keys(name):
        return [k for k in model if re.search(r'(^|\.)' + name + r'(!\d+)?$', k)]
    mwk, tsk, eouk, eolk = keys('max_width'), keys('tab_spaces'), keys('error_on_unformatted'), keys('error_on_line_overflow')
    if not mwk or not tsk:
        return None
    mw, ts = model[mwk[0]], model[tsk[0]]
    eou = bool(model[eouk[0]]) if eouk else False
    eol = bool(model[eolk[0]]) if eolk else False
    W, L, NC, B, S = g('W'), g('L', 1), g('NC'), bool(g('B', False)), bool(g('S', False))
    if max(W, L, NC, mw) > (1 << 40):
        return None
    selL, selL1 = bool(g('sel_L', True)), bool(g('sel_L1', True))
    ranges = []
    if selL:
        ranges.append([L, L])
    if selL1:
        ranges.append([L + 1, L + 1])
    fl = json.dumps([{'file': 'stdin', 'range': r_} for r_ in ranges])
    skipped = []
    i = 0
    while ('sk%d.lo' % i) in model:
        skipped.append([model['sk%d.lo' % i], model['sk%d.hi' % i]])
        i += 1
    kind = g('kind', 0)
    req = {'op': 'format_lines_step', 'max_width': mw, 'tab_spaces': ts, 'error_on_unformatted': eou, 'error_on_line_overflow': eol, 'file_lines': fl,
           'skipped': skipped, 'state': [B, W, L, NC, S, selL], 'kind': kind}
    if what == 'char':
        req['char'] = g('c', 97)
    res = rp.call(req)
    if 'panic' in res:
        return {'reproduced': True, 'detail': ['panic: ' + res['panic']], 'request': req}
    ns, errs = res['state'], res['errors']
    bad = []
    if what == 'char':
        c = g('c', 97)
        wantW = W + (ts if c == 9 else 1)
        if ns[1] != wantW or ns[0] != chr(c).isspace() or ns[4] != (S or kind == 9) or ns[2] != L or ns[3] != 0 or errs:
            bad.append('char step: state %r errors %r, expected width %d blank %s string %s' % (ns, errs, wantW, chr(c).isspace(), S or kind == 9))
    else:
        is_c = kind in (1, 2, 3, 6)
        eligible = selL and not any(a <= L <= b for a, b in skipped)
        exempt = (not eou) and (is_c or S)
        want_tw = eligible and not exempt and B
        w_eff = W - 1 if B else W
        want_lo = eligible and not exempt and eol and w_eff > mw
        got_tw = [e for e in errs if e[1] == 1]
        got_lo = [e for e in errs if e[1] == 0]
        if bool(got_tw) != want_tw or bool(got_lo) != want_lo or len(errs) != len(got_tw) + len(got_lo) or any(e[0] != L for e in errs):
            bad.append('new_line step: errors %r, expected trailing=%s overflow=%s on line %d' % (errs, want_tw, want_lo, L))
        if ns[1] != 0 or ns[2] != L + 1 or ns[0] or ns[4] or ns[5] != selL1 or ns[3] != NC + 1:
            bad.append('new_line step: state after %r, expected line %d selected=%s' % (ns, L + 1, selL1))
    return {'reproduced': bool(bad), 'detail': bad, 'request': req, 'native': res}


def make_replay(ctx, rp, what):
    def replay(model, r):
        kr = kernel_replay(rp, what, model or {})
        if kr is not None and kr.get('reproduced'):
            return kr
        W = min(model.get('W', 0), 200)
        L = max(2, min(model.get('L', 2), 30))      # line 1 is special-cased by FormatLines::new; use an interior line
        mw = model.get('mw', model.get('cfg.max_width', 20))
        mwk = [k for k in model if re.search(r'max_width(!\d+)?$', k)]
        tsk = [k for k in model if re.search(r'tab_spaces(!\d+)?$', k)]
        mw = model[mwk[0]] if mwk else 20
        ts = model[tsk[0]] if tsk else 4
        mw = min(mw, 200)
        findings = []
        tried = 0
        for eou in (True, False):
            for eol in (True, False):
                for width in sorted({max(0, W), mw, mw + 1, mw + 2, max(0, mw - 1)}):
                    for variant in ('code', 'code-blank', 'code-tab', 'string', 'string-blank', 'linecomment', 'linecomment-blank', 'blockcomment-blank', 'tab-blank'):
                        body = 'a' * width
                        if variant == 'code-blank':
                            body = 'a' * max(0, width - 1) + ' '
                        elif variant == 'code-tab':
                            body = '\t' + 'a' * max(0, width - ts)
                        elif variant == 'tab-blank':
                            body = 'a' * max(0, width - ts) + '\t'
                        elif variant == 'string':
                            body = '"' + 'a' * max(0, width - 2) + '"'
                        elif variant == 'string-blank':
                            body = '"' + 'a' * max(0, width - 3) + '" '
                        elif variant == 'linecomment':
                            body = '//' + 'a' * max(0, width - 2)
                        elif variant == 'linecomment-blank':
                            body = '//' + 'a' * max(0, width - 3) + ' '
                        elif variant == 'blockcomment-blank':
                            body = '/*' + 'a' * max(0, width - 3) + ' \n*/'
                        text = '\n' * (L - 1) + body + '\nx\n'
                        sels = [(L + 1, L + 5), (L, L), (L, L + 1), (max(1, L - 1), max(1, L - 1)), (L + 1, L + 1)]
                        for skipped, fl in [([], None), ([(L, L)], None)] + [([], (a_, b_)) for (a_, b_) in sels]:
                            req = {'op': 'format_lines_scan', 'text': text, 'max_width': mw, 'tab_spaces': ts, 'error_on_unformatted': eou,
                                   'error_on_line_overflow': eol, 'skipped': skipped}
                            if fl:
                                req['file_lines'] = '[{"file":"stdin","range":[%d,%d]}]' % fl
                            res = rp.call(req)
                            tried += 1
                            selected = (lambda n: True) if not fl else (lambda n, a=fl[0], b=fl[1]: a <= n <= b)
                            mtw, mlo = spec_lines(text, res['events'], mw, ts, eou, eol, skipped, selected)
                            got_tw = [e[0] for e in res['errors'] if e[1] == 1]
                            got_lo = [e[0] for e in res['errors'] if e[1] == 0]
                            if sorted(got_tw) != sorted(mtw) or sorted(got_lo) != sorted(mlo):
                                findings.append({'text': text[-80:], 'config': [mw, ts, eou, eol], 'skipped': skipped, 'file_lines': fl,
                                                 'reported': res['errors'], 'expected_trailing': sorted(mtw), 'expected_overflow': sorted(mlo)})
                                if len(findings) >= 3:
                                    return {'reproduced': True, 'detail': findings, 'texts_tried': tried}
        return {'reproduced': bool(findings), 'detail': findings, 'texts_tried': tried}
    return replay


def replay_first_line(rp):
    """the scanner's initial state decides line 1: selected or not, nothing seen yet"""
    def replay(model, r):
        findings = []
        for text, fl, want in (('a \nb\n', (2, 2), []), ('a \nb\n', (1, 1), [1]), ('a\nb \n', (1, 1), []), ('a \nb \n', None, [1, 2])):
            req = {'op': 'format_lines_scan', 'text': text, 'max_width': 100, 'tab_spaces': 4, 'error_on_unformatted': True, 'error_on_line_overflow': True, 'skipped': []}
            if fl:
                req['file_lines'] = '[{"file":"stdin","range":[%d,%d]}]' % fl
            res = rp.call(req)
            got = sorted(e[0] for e in res.get('errors', []) if e[1] == 1)
            if got != want:
                findings.append('text %r selection %r: trailing-blank reports on lines %r, expected %r' % (text, fl, got, want))
        return {'reproduced': bool(findings), 'detail': findings}
    return replay


def replay_exit_status(model, r):
    """a trailing blank / too wide line left in the emitted text must make the run exit 1, whatever else was reported before"""
    bins = ensure_bins()
    rf = os.path.join(bins, 'rustfmt')
    d = os.path.join(BUILD, 'scratch', 'c07x-%d' % os.getpid())
    shutil.rmtree(d, ignore_errors=True)
    os.makedirs(d)
    open(os.path.join(d, 'empty.toml'), 'w').write('')
    long_ = 'a' * 50
    body = 'fn b() {\n    let y = %s(1,   \n        2);\n}\n' % long_
    findings = []
    for name, pre in (('control', ''), ('deprecated-attr-first', '#[rustfmt_skip]\nfn a() {}\n\n'), ('bad-attr-first', '#[rustfmt::unknown]\nfn a() {}\n\n')):
        p = os.path.join(d, name + '.rs')
        open(p, 'w').write(pre + body)
        pr = subprocess.run([rf, '--config-path', os.path.join(d, 'empty.toml'), '--emit', 'stdout', '--config', 'max_width=40', p], capture_output=True, text=True, env=run_env(), timeout=60)
        left = any(ln.endswith(' ') for ln in pr.stdout.split('\n'))
        if left and pr.returncode != 1:
            findings.append('%s: emitted text has a line ending in a blank but the exit status is %d' % (name, pr.returncode))
    shutil.rmtree(d, ignore_errors=True)
    return {'reproduced': bool(findings), 'detail': findings}


def validate(ctx, eng, names, fi, ef, rp, kidx, LO, TW, sel):
    """§4.3: concrete texts through the real scanner (hook) and through the encoding (same MIR, inputs pinned)."""
    texts = ['fn main() { \n  let x = "aaaaaaaaaaaaaaaaaaaaaaaaaaaa"; // cc \n\tx\n}\n', 'a\n\n\n', '', 'x \n', '/* a \n b */ \n', '"s \n t" \n\t\ty  \n']
    alphabet = ['a', ' ', '\t', '"', '\n', '/', '*', ' ', '\r']
    n = 12 if ctx.tier == 'quick' else 80
    for _ in range(n):
        texts.append(''.join(ctx.rng.choice(alphabet) for _ in range(ctx.rng.randint(0, 24))))
    bad = 0
    for t in texts:
        mw, ts = ctx.rng.randint(0, 12), ctx.rng.randint(1, 8)
        eou, eol = ctx.rng.random() < 0.5, ctx.rng.random() < 0.5
        skipped = [(2, 2)] if ctx.rng.random() < 0.3 else []
        real = rp.call({'op': 'format_lines_scan', 'text': t, 'max_width': mw, 'tab_spaces': ts, 'error_on_unformatted': eou,
                        'error_on_line_overflow': eol, 'skipped': skipped})
        st = State()
        cfgref, cv = make_config(eng, st, values={'max_width': bv_const(mw, 'usize'), 'tab_spaces': bv_const(ts, 'usize'),
                                                  'error_on_unformatted': z3.BoolVal(eou), 'error_on_line_overflow': z3.BoolVal(eol)})
        st.assume(z3.ForAll([z3.BitVec('n', 64)], sel(z3.BitVec('n', 64)))) if False else None
        skref = eng.ref_to(st, Seq([Tup([bv_const(a, 'usize'), bv_const(b, 'usize')]) for a, b in skipped]), False)
        nameref = eng.ref_to(st, Enum('FileName', 1, {}), False)
        # sel(n) = true (no --file-lines): temporarily stub it concretely
        stubs_save = list(eng.stubs)
        eng.stubs = [x for x in eng.stubs if 'contains_line' not in x[2]]
        eng.stub(r'(^|::)FileLines::contains_line$', lambda e_, s_, a_, c_: z3.BoolVal(True), 'validation only: contains_line = true')
        try:
            outs = eng.run(names['new'], [nameref, skref, cfgref], st)
            assert len(outs) == 1 and outs[0].kind == 'ret', outs
            selfref = eng.ref_to(outs[0].state, outs[0].value, True)
            cur = outs[0].state
            for (ch, kind) in real['events']:
                if ch == 13:
                    continue
                kv = Enum('FullCodeCharKind', kind, {})
                if ch == 10:
                    o2 = eng.run(names['new_line'], [selfref, kv], cur)
                else:
                    o2 = eng.run(names['char'], [selfref, bv_const(ch, 'char'), kv], cur)
                assert len(o2) == 1 and o2[0].kind == 'ret', (t, ch, kind, o2)
                cur = o2[0].state
            f = eng.read_ref(cur, selfref).items
            enc_err = []
            for r in f[fi['errors']].items:
                kc = r.items[ef['kind']].concrete()
                if kc == LO:
                    a, b = r.items[ef['kind']].payloads[LO].items
                    enc_err.append([r.items[ef['line']].concrete(), 0, a.concrete(), b.concrete(), z3.is_true(z3.simplify(r.items[ef['is_comment']])), z3.is_true(z3.simplify(r.items[ef['is_string']]))])
                else:
                    enc_err.append([r.items[ef['line']].concrete(), 1 if kc == TW else 2, 0, 0, z3.is_true(z3.simplify(r.items[ef['is_comment']])), z3.is_true(z3.simplify(r.items[ef['is_string']]))])
            enc_state = [f[fi['line_len']].concrete(), f[fi['cur_line']].concrete(), f[fi['newline_count']].concrete()]
        finally:
            eng.stubs = stubs_save
        if enc_err != real['errors'] or enc_state != real['state']:
            bad += 1
            ctx.validation_detail.append({'text': t, 'config': [mw, ts, eou, eol, skipped], 'encoding': [enc_err, enc_state], 'real': [real['errors'], real['state']]})
        ctx.validated += 1
    if bad:
        raise Inconclusive('translator validation: %d disagreements: %r' % (bad, ctx.validation_detail[:2]))
    ctx.validation_detail.append({'texts': len(texts), 'disagreements': 0})


if __name__ == '__main__':
    main_wrapper('C07', build)
