"""Symbolic short strings for whole-function runs of small text functions (fallback harnesses of C08 and C04).

A text is a character sequence of concrete length n <= N whose characters are symbolic ASCII values (Seq of BV 'char'); every `str` method used by
the function under test is a stub that forks on the predicates it needs (is this character the separator / white space / ...), so a path fixes
exactly as much of the text as the code looked at.  Indices are character positions = byte offsets (ASCII only: stated bound).  A multi-character
constant pattern the harness declares atomic (e.g. "@generated") is represented by one reserved character.

Supported: len, is_empty, chars, bytes (engine), split(char), lines, matches(char), match_indices(char), find / rfind(char), contains / starts_with /
ends_with(char | constant), trim, trim_start, trim_end, trim_{start,end}_matches(char), strip_{prefix,suffix}(char), slicing by ranges whose bounds are
determined on the path, String::{push_str, capacity, len}, peekable / next / peek / nth / count over the iterators above, ==."""
from common import *
from mirsym.intrinsics import some, NONE

WS = (9, 10, 11, 12, 13, 32)
STR_ITERS = r'(std::str::|core::str::)?(Split|Lines|Matches|MatchIndices|SplitTerminator|SplitInclusive|Chars|Bytes|CharIndices)'


def deref(eng, st, v):
    while isinstance(v, Ref):
        v = eng.read_ref(st, v)
    return v


def sym_text(n, prefix='t'):
    return Seq([BV(z3.BitVec('%s%d' % (prefix, i), 32), 'char') for i in range(n)])


def ascii_facts(seq, reserved=()):
    return [z3.And(z3.UGE(c.e, 1), z3.ULT(c.e, 128)) for c in seq.items]


class Model:
    def __init__(self, eng, atoms=None):
        self.eng = eng
        self.atoms = atoms or {}           # constant pattern -> reserved character code

    # ---- values
    def chars(self, e, s_, v):
        v = deref(e, s_, v)
        if isinstance(v, StrVal) and v.s is not None:
            if v.s in self.atoms:
                return [bv_const(self.atoms[v.s], 'char')]
            return [bv_const(ord(c), 'char') for c in v.s]
        if isinstance(v, Seq):
            return list(v.items)
        if isinstance(v, BV):               # a char pattern
            return [v]
        raise Unsupported('not a symbolic text: %r' % (v,))

    def pat1(self, e, s_, v):
        cs = self.chars(e, s_, v)
        if len(cs) != 1:
            raise Unsupported('pattern of %d characters' % len(cs))
        return cs[0]

    def fork_mask(self, e, s_, cs, pred):
        """all feasible truth assignments of pred over cs: [(state, [bool])]"""
        live = [(s_, [])]
        for c in cs:
            nxt = []
            p = pred(c)
            for (s1, acc) in live:
                t_ok = e.feasible(s1, p)
                f_ok = e.feasible(s1, z3.Not(p))
                if t_ok and f_ok:
                    s2 = s1.fork()
                    s2.assume(z3.Not(p))
                    s1.assume(p)
                    nxt.append((s1, acc + [True]))
                    nxt.append((s2, acc + [False]))
                elif t_ok:
                    nxt.append((s1, acc + [True]))
                elif f_ok:
                    nxt.append((s1, acc + [False]))
            live = nxt
        return live

    def iter_of(self, e, s_, items):
        cell = e.ref_to(s_, Seq(list(items)), True, 'pieces')
        return Tup([cell, bv_const(0, 'usize')], 'OwnedIter')

    # ---- stubs
    def install(self):
        e0 = self.eng
        M = self

        def s_len(e, s_, a, c):
            return bv_const(len(M.chars(e, s_, a[0])), 'usize')
        e0.stub(r'<impl str>::len$|(^|::)String::len$', s_len, 'str::len = number of characters (ASCII)')
        e0.stub(r'<impl str>::is_empty$|(^|::)String::is_empty$', lambda e, s_, a, c: z3.BoolVal(len(M.chars(e, s_, a[0])) == 0), 'str::is_empty')
        def s_capacity(e, s_, a, c):
            v = e.fresh_bv('capacity', 'usize')
            s_.assume(z3.ULT(v.e, 1 << 32))
            return v
        e0.stub(r'(^|::)String::capacity$', s_capacity, 'String::capacity = arbitrary below 2^32')
        e0.stub(r'(^|::)String::as_str$|<impl str>::as_ref$|<(std::string::)?String as (std::ops::)?Deref>::deref$', lambda e, s_, a, c: a[0], 'String -> &str (same text)')

        def s_split(e, s_, a, c):
            cs = M.chars(e, s_, a[0])
            sep = M.pat1(e, s_, a[1])
            res = []
            for (s1, mask) in M.fork_mask(e, s_, cs, lambda ch: ch.e == sep.e):
                pieces, cur = [], []
                for ch, m in zip(cs, mask):
                    if m:
                        pieces.append(Seq(cur))
                        cur = []
                    else:
                        cur.append(ch)
                pieces.append(Seq(cur))
                res.append((s1, 'ret', M.iter_of(e, s1, pieces)))
            return res
        e0.stub(r'<impl str>::split::<char>$|<impl str>::split::<&str>$', s_split, 'str::split(sep): forks on which characters are the separator')

        def s_lines(e, s_, a, c):
            cs = M.chars(e, s_, a[0])
            res = []
            for (s1, mask) in M.fork_mask(e, s_, cs, lambda ch: ch.e == 10):
                raw, cur = [], []
                for ch, m in zip(cs, mask):
                    if m:
                        raw.append(cur)
                        cur = []
                    else:
                        cur.append(ch)
                if cur:
                    raw.append(cur)          # str::lines: no empty last line after a final newline
                # a trailing '\r' of a line that ended in '\n' is stripped: fork on it
                todo = [(s1, [], 0)]
                n_term = sum(mask)
                while todo:
                    (s2, acc, i) = todo.pop()
                    if i == len(raw):
                        res.append((s2, 'ret', M.iter_of(e, s2, [Seq(x) for x in acc])))
                        continue
                    ln = raw[i]
                    terminated = i < n_term
                    if ln and terminated:
                        p = ln[-1].e == 13
                        t_ok, f_ok = e.feasible(s2, p), e.feasible(s2, z3.Not(p))
                        if t_ok and f_ok:
                            s3 = s2.fork()
                            s3.assume(z3.Not(p))
                            s2.assume(p)
                            todo.append((s2, acc + [ln[:-1]], i + 1))
                            todo.append((s3, acc + [ln], i + 1))
                        elif t_ok:
                            todo.append((s2, acc + [ln[:-1]], i + 1))
                        else:
                            todo.append((s2, acc + [ln], i + 1))
                    else:
                        todo.append((s2, acc + [ln], i + 1))
            return res
        e0.stub(r'<impl str>::lines$', s_lines, 'str::lines: forks on the line feeds (and on a carriage return before one)')

        def s_matches(e, s_, a, c):
            cs = M.chars(e, s_, a[0])
            sep = M.pat1(e, s_, a[1])
            res = []
            indices = 'match_indices' in c.func
            for (s1, mask) in M.fork_mask(e, s_, cs, lambda ch: ch.e == sep.e):
                items = []
                for i, (ch, m) in enumerate(zip(cs, mask)):
                    if m:
                        items.append(Tup([bv_const(i, 'usize'), Seq([ch])]) if indices else Seq([ch]))
                res.append((s1, 'ret', M.iter_of(e, s1, items)))
            return res
        e0.stub(r'<impl str>::(matches|match_indices)::<(char|&str)>$', s_matches, 'str::matches / match_indices(pattern of one character)')

        def s_find(e, s_, a, c):
            cs = M.chars(e, s_, a[0])
            sep = M.pat1(e, s_, a[1])
            rev = '::rfind' in c.func
            order = list(range(len(cs)))
            if rev:
                order.reverse()
            res = []
            live = [s_]
            for i in order:
                nxt = []
                p = cs[i].e == sep.e
                for s1 in live:
                    t_ok, f_ok = e.feasible(s1, p), e.feasible(s1, z3.Not(p))
                    if t_ok and f_ok:
                        s2 = s1.fork()
                        s2.assume(z3.Not(p))
                        s1.assume(p)
                        res.append((s1, 'ret', some(bv_const(i, 'usize'))))
                        nxt.append(s2)
                    elif t_ok:
                        res.append((s1, 'ret', some(bv_const(i, 'usize'))))
                    else:
                        nxt.append(s1)
                live = nxt
            for s1 in live:
                res.append((s1, 'ret', NONE))
            return res
        e0.stub(r'<impl str>::(find|rfind)::<(char|&str)>$', s_find, 'str::find / rfind(pattern of one character): forks on the first / last match')

        def s_contains(e, s_, a, c):
            cs = M.chars(e, s_, a[0])
            pat = M.chars(e, s_, a[1])
            k = len(pat)
            if k == 0:
                return z3.BoolVal(True)
            alts = [z3.And([cs[i + j].e == pat[j].e for j in range(k)]) for i in range(0, len(cs) - k + 1)]
            return z3.Or(alts) if alts else z3.BoolVal(False)
        e0.stub(r'<impl str>::contains::<(char|&str|&&str)>$', s_contains, 'str::contains(constant pattern) as a formula over the characters')

        def s_starts(e, s_, a, c):
            cs = M.chars(e, s_, a[0])
            pat = M.chars(e, s_, a[1])
            k = len(pat)
            if k > len(cs):
                return z3.BoolVal(False)
            seg = cs[:k] if 'starts_with' in c.func else cs[len(cs) - k:]
            return z3.And([x.e == y.e for x, y in zip(seg, pat)]) if k else z3.BoolVal(True)
        e0.stub(r'<impl str>::(starts_with|ends_with)::<(char|&str)>$', s_starts, 'str::starts_with / ends_with(constant pattern)')

        def trim_generic(e, s_, cs, pred, front, back):
            """forks on how many characters are trimmed from each end"""
            res = []

            def run(s1, lo, hi, phase):
                # phase 0: trimming the front, 1: trimming the back
                if phase == 0:
                    if not front or lo >= hi:
                        return run(s1, lo, hi, 1)
                    p = pred(cs[lo])
                    t_ok, f_ok = e.feasible(s1, p), e.feasible(s1, z3.Not(p))
                    if t_ok and f_ok:
                        s2 = s1.fork()
                        s2.assume(z3.Not(p))
                        s1.assume(p)
                        run(s1, lo + 1, hi, 0)
                        run(s2, lo, hi, 1)
                    elif t_ok:
                        run(s1, lo + 1, hi, 0)
                    else:
                        run(s1, lo, hi, 1)
                    return
                if not back or lo >= hi:
                    res.append((s1, lo, hi))
                    return
                p = pred(cs[hi - 1])
                t_ok, f_ok = e.feasible(s1, p), e.feasible(s1, z3.Not(p))
                if t_ok and f_ok:
                    s2 = s1.fork()
                    s2.assume(z3.Not(p))
                    s1.assume(p)
                    run(s1, lo, hi - 1, 1)
                    res.append((s2, lo, hi))
                elif t_ok:
                    run(s1, lo, hi - 1, 1)
                else:
                    res.append((s1, lo, hi))
            run(s_, 0, len(cs), 0)
            return res

        def is_ws(ch):
            return z3.Or([ch.e == w for w in WS])

        def s_trim(e, s_, a, c):
            cs = M.chars(e, s_, a[0])
            nm = c.func.rsplit('::', 1)[-1]
            front, back = nm in ('trim', 'trim_start', 'trim_left'), nm in ('trim', 'trim_end', 'trim_right')
            return [(s1, 'ret', Seq(cs[lo:hi])) for (s1, lo, hi) in trim_generic(e, s_, cs, is_ws, front, back)]
        e0.stub(r'<impl str>::(trim|trim_start|trim_end|trim_left|trim_right)$', s_trim, 'str::trim*: forks on how many white-space characters stand at the ends')

        def s_trim_matches(e, s_, a, c):
            cs = M.chars(e, s_, a[0])
            sep = M.pat1(e, s_, a[1])
            front = 'trim_start_matches' in c.func or 'trim_left_matches' in c.func
            return [(s1, 'ret', Seq(cs[lo:hi])) for (s1, lo, hi) in trim_generic(e, s_, cs, lambda ch: ch.e == sep.e, front, not front)]
        e0.stub(r'<impl str>::(trim_start_matches|trim_end_matches|trim_left_matches|trim_right_matches)::<(char|&str)>$', s_trim_matches, 'str::trim_{start,end}_matches(one character)')

        def s_strip(e, s_, a, c):
            cs = M.chars(e, s_, a[0])
            sep = M.pat1(e, s_, a[1])
            pre = 'strip_prefix' in c.func
            if not cs:
                return NONE
            ch = cs[0] if pre else cs[-1]
            rest = Seq(cs[1:] if pre else cs[:-1])
            return Enum('Option', z3.If(ch.e == sep.e, z3.BitVecVal(1, 64), z3.BitVecVal(0, 64)), {1: Tup([rest])})
        e0.stub(r'<impl str>::(strip_prefix|strip_suffix)::<(char|&str)>$', s_strip, 'str::strip_prefix / strip_suffix(one character)')

        def bound(e, s_, bv):
            v = e.concrete_under(s_, bv)
            if v is None:
                raise Unsupported('slice bound not determined on the path: %r' % (bv,))
            return v

        def s_index(e, s_, a, c):
            cs = M.chars(e, s_, a[0])
            r = deref(e, s_, a[1])
            kind = re.search(r'Range\w*', c.func).group(0)
            if kind == 'RangeFull':
                lo, hi = 0, len(cs)
            elif kind == 'RangeTo':
                lo, hi = 0, bound(e, s_, r.items[0])
            elif kind == 'RangeFrom':
                lo, hi = bound(e, s_, r.items[0]), len(cs)
            elif kind == 'Range':
                lo, hi = bound(e, s_, r.items[0]), bound(e, s_, r.items[1])
            else:
                raise Unsupported('slice by %s' % kind)
            if not (0 <= lo <= hi <= len(cs)):
                return [(s_, 'panic', {'msg': 'byte index out of range of the text', 'fn': c.fn.name if c.fn else '?', 'bb': c.bb})]
            return Seq(cs[lo:hi])
        e0.stub(r'^<(str|std::string::String) as (std::ops::)?Index<(std::ops::)?Range\w*(<usize>)?>>::index$', s_index, 'str[a..b]: bounds determined on the path')

        def s_push_str(e, s_, a, c):
            v = e.read_ref(s_, a[0])
            if not isinstance(v, Seq):
                raise Unsupported('push_str on %r' % (v,))
            e.write_ref(s_, a[0], Seq(list(v.items) + M.chars(e, s_, a[1])))
            return UNIT
        e0.stub(r'(^|::)String::push_str$', s_push_str, 'String::push_str')

        def s_to_owned(e, s_, a, c):
            return Seq(M.chars(e, s_, a[0]))
        e0.stub(r'^<str as (std::borrow::)?ToOwned>::to_owned$|^<str as (std::string::)?ToString>::to_string$|^<(std::string::)?String as (std::convert::)?From<&str>>::from$', s_to_owned, 'str -> String (same text)')

        def s_eq(e, s_, a, c):
            x, y = M.chars(e, s_, a[0]), M.chars(e, s_, a[1])
            r = z3.And([p.e == q.e for p, q in zip(x, y)]) if len(x) == len(y) else z3.BoolVal(False)
            if len(x) == len(y) == 0:
                r = z3.BoolVal(True)
            return r if c.func.endswith('::eq') else z3.Not(r)
        e0.stub(r'^<&?&?(str|std::string::String) as (std::cmp::)?PartialEq(<&?&?(str|std::string::String)>)?>::(eq|ne)$', s_eq, 'text equality, character by character')

        # ---- the iterators the stubs above return
        def it_next(e, s_, a, c):
            it = e.read_ref(s_, a[0])
            if isinstance(it, Tup) and it.name == 'PeekOwned':
                inner, buf = it.items
                if isinstance(buf, Enum) and buf.name == 'Peeked':
                    e.write_ref(s_, a[0], Tup([inner, UNIT], 'PeekOwned'))
                    return buf.payloads[0].items[0]
                cell, pos = inner.items
                seq = e.read_ref(s_, cell)
                p = pos.concrete()
                if p >= len(seq.items):
                    return NONE
                e.write_ref(s_, a[0], Tup([Tup([cell, bv_const(p + 1, 'usize')], 'OwnedIter'), UNIT], 'PeekOwned'))
                return some(seq.items[p])
            if not (isinstance(it, Tup) and it.name == 'OwnedIter'):
                return NotImplemented
            cell, pos = it.items
            seq = e.read_ref(s_, cell)
            p = pos.concrete()
            if p >= len(seq.items):
                return NONE
            e.write_ref(s_, a[0], Tup([cell, bv_const(p + 1, 'usize')], 'OwnedIter'))
            return some(seq.items[p])
        e0.stub(r'^<(std::iter::)?(Peekable<)?' + STR_ITERS + r'<.*> as (std::iter::)?Iterator>::next$', it_next, 'next over the pieces of a symbolic text')

        def it_peekable(e, s_, a, c):
            it = deref(e, s_, a[0])
            if not (isinstance(it, Tup) and it.name == 'OwnedIter'):
                return NotImplemented
            return Tup([it, UNIT], 'PeekOwned')
        e0.stub(r'^<' + STR_ITERS + r'<.*> as (std::iter::)?Iterator>::peekable$', it_peekable, 'peekable over the pieces of a symbolic text')

        def it_peek(e, s_, a, c):
            it = e.read_ref(s_, a[0])
            if not (isinstance(it, Tup) and it.name == 'PeekOwned'):
                return NotImplemented
            inner, buf = it.items
            if isinstance(buf, Enum) and buf.name == 'Peeked':
                opt = buf.payloads[0].items[0]
            else:
                cell, pos = inner.items
                seq = e.read_ref(s_, cell)
                p = pos.concrete()
                if p >= len(seq.items):
                    opt = NONE
                else:
                    opt = some(seq.items[p])
                    inner = Tup([cell, bv_const(p + 1, 'usize')], 'OwnedIter')
                e.write_ref(s_, a[0], Tup([inner, Enum('Peeked', 0, {0: Tup([opt])})], 'PeekOwned'))
            if opt.concrete() == 0:
                return NONE
            cellv = e.ref_to(s_, opt.payloads[1].items[0], False, 'peeked')
            return Enum('Option', 1, {1: Tup([cellv])})
        e0.stub(r'(^|::)Peekable::<' + STR_ITERS + r'<.*>>::peek$', it_peek, 'Peekable::peek over the pieces of a symbolic text')

        def it_nth(e, s_, a, c):
            it = e.read_ref(s_, a[0])
            if not (isinstance(it, Tup) and it.name == 'OwnedIter'):
                return NotImplemented
            k = e.concrete_under(s_, a[1])
            if k is None:
                raise Unsupported('nth with an undetermined index')
            cell, pos = it.items
            seq = e.read_ref(s_, cell)
            p = pos.concrete() + k
            if p >= len(seq.items):
                e.write_ref(s_, a[0], Tup([cell, bv_const(len(seq.items), 'usize')], 'OwnedIter'))
                return NONE
            e.write_ref(s_, a[0], Tup([cell, bv_const(p + 1, 'usize')], 'OwnedIter'))
            return some(seq.items[p])
        e0.stub(r'^<' + STR_ITERS + r'<.*> as (std::iter::)?Iterator>::nth$', it_nth, 'nth over the pieces of a symbolic text')

        def it_count(e, s_, a, c):
            it = deref(e, s_, a[0])
            if not (isinstance(it, Tup) and it.name == 'OwnedIter'):
                return NotImplemented
            cell, pos = it.items
            return bv_const(len(e.read_ref(s_, cell).items) - pos.concrete(), 'usize')
        e0.stub(r'^<' + STR_ITERS + r'<.*> as (std::iter::)?Iterator>::count$', it_count, 'count over the pieces of a symbolic text')

        def it_take(e, s_, a, c):
            it = deref(e, s_, a[0])
            if not (isinstance(it, Tup) and it.name == 'OwnedIter'):
                return NotImplemented
            k = e.concrete_under(s_, a[1])
            if k is None:
                raise Unsupported('take with an undetermined count')
            cell, pos = it.items
            seq = e.read_ref(s_, cell)
            return M.iter_of(e, s_, list(seq.items[pos.concrete():][:k]))
        e0.stub(r'^<' + STR_ITERS + r'<.*> as (std::iter::)?Iterator>::(take|skip)$', lambda e, s_, a, c: it_take(e, s_, a, c) if c.func.endswith('take') else it_skip(e, s_, a, c), 'take / skip over the pieces of a symbolic text')

        def it_skip(e, s_, a, c):
            it = deref(e, s_, a[0])
            if not (isinstance(it, Tup) and it.name == 'OwnedIter'):
                return NotImplemented
            k = e.concrete_under(s_, a[1])
            if k is None:
                raise Unsupported('skip with an undetermined count')
            cell, pos = it.items
            seq = e.read_ref(s_, cell)
            return M.iter_of(e, s_, list(seq.items[pos.concrete() + k:]))

        def it_any(e, s_, a, c):
            from mirsym.intrinsics import merged_call_value
            it = deref(e, s_, a[0])
            if not (isinstance(it, Tup) and it.name == 'OwnedIter'):
                return NotImplemented
            cell, pos = it.items
            items = list(e.read_ref(s_, cell).items[pos.concrete():])
            conds = [merged_call_value(e, s_, a[1], [x]) for x in items]
            if '>::any::<' in c.func:
                return z3.Or(conds) if conds else z3.BoolVal(False)
            return z3.And(conds) if conds else z3.BoolVal(True)
        e0.stub(r'^<(std::iter::)?(Take<|Skip<)?' + STR_ITERS + r'<.*> as (std::iter::)?Iterator>::(any|all)::<', it_any, 'any / all over the pieces of a symbolic text (predicate = real MIR)')
