"""C18 — cargo fmt: exit status aggregation over the rustfmt child processes; target identity by path.

Target discovery (cargo metadata, PathBuf walking) is outside this technique."""
from common import *
from mirsym.intrinsics import str_expr

FAILURE_CODES = 'any i32'


def build(ctx):
    ctx.level = 'other'
    eng = ctx.engine('cargo-fmt', loop_bound=8)
    N = 3 if ctx.tier == 'quick' else 4
    ctx.bounds = {'rustfmt invocations (edition groups)': '0..%d' % N, 'child status': 'success flag and Option<i32> code symbolic, std contract success <=> code == Some(0)'}
    ctx.outside = ['cargo metadata itself, get_targets_recursive / get_targets_with_hitlist (path dependencies, -p)', 'the argument vector given to each rustfmt (files, --edition, pass-through args)',
                   'flag parsing (clap)']
    ctx.assumptions = ['ExitStatus::{success, code}: success() <=> code() == Some(0); code() == None means killed by a signal',
                       'Command building / spawn / wait are uninterpreted; each may fail with an io::Error (the function then returns Err)',
                       'PathBuf comparison = equality / a total order on uninterpreted path values']
    eng.lenient = True
    eng.inline_only = [re.compile(r'run_rustfmt')]
    rr = eng.find('run_rustfmt', free=True)
    rp = make_replay(ctx)
    for n in range(0, N + 1):
        st = State()
        succ = [z3.Bool('child%d.success' % i) for i in range(n)]
        code_some = [z3.Bool('child%d.code_is_some' % i) for i in range(n)]
        code = [z3.BitVec('child%d.code' % i, 32) for i in range(n)]
        for i in range(n):
            st.assume(succ[i] == z3.And(code_some[i], code[i] == 0))
        # n targets with n different editions (so the real grouping code makes n groups); whether it is written as inspect().fold()
        # or as a loop over the set with entry().or_default().push() does not matter: the BTreeSet / BTreeMap API is modelled
        ed_variants = eng.enum_variants('Edition') or ['E0', 'E1', 'E2', 'E3']
        if n > len(ed_variants):
            raise Inconclusive('more groups requested than editions exist')
        tfields = [f for f, _ in eng.src.struct_fields('Target', 'src/cargo-fmt/main.rs')]
        tvals = []
        for i in range(n):
            d_ = {'path': Opaque('PathBuf', 'path%d' % i), 'kind': Opaque('String', 'kind%d' % i), 'edition': Enum('Edition', i, {})}
            tvals.append(Tup([d_[f] for f in tfields], 'Target'))
        tset = eng.ref_to(st, Seq(tvals), False, 'targets')
        eng.stubs = []

        def set_iter(eng_, st_, args, ci):
            r = args[0]
            while isinstance(r, Ref) and isinstance(eng_.read_ref(st_, r), Ref):
                r = eng_.read_ref(st_, r)
            seq = eng_.read_ref(st_, r)
            refs = [Ref(r.key, r.projs + (('cindex', j),), False) for j in range(len(seq.items))]
            cell = eng_.ref_to(st_, Seq(refs), True, 'set_iter')
            return Tup([cell, bv_const(0, 'usize')], 'OwnedIter')
        eng.stub(r'BTreeSet::<Target>::iter$|^<&BTreeSet<Target> as (std::iter::)?IntoIterator>::into_iter$', set_iter, 'BTreeSet<Target>::iter = the harness targets in order')
        eng.stub(r'btree_set::Iter<.*> as (std::iter::)?Iterator>::inspect::<', lambda e, s_, a, c: a[0], 'Iterator::inspect (its closure only prints): the same iterator')

        def owned_next(eng_, st_, args, ci):
            it = eng_.read_ref(st_, args[0])
            cell, pos = it.items
            seq = eng_.read_ref(st_, cell)
            p_ = pos.concrete()
            if p_ >= len(seq.items):
                return Enum('Option', 0, {})
            eng_.write_ref(st_, args[0], Tup([cell, bv_const(p_ + 1, 'usize')], 'OwnedIter'))
            return Enum('Option', 1, {1: Tup([seq.items[p_]])})
        eng.stub(r'btree_set::Iter<.*> as (std::iter::)?Iterator>::next$', owned_next, 'btree_set::Iter::next')

        def fold_stub(eng_, st_, args, ci):
            it, acc, f = args
            cell, pos = it.items
            items = list(eng_.read_ref(st_, cell).items)[pos.concrete():]
            live = [(st_, acc)]
            for item in items:
                nxt = []
                for (s1, a1) in live:
                    for (s2, kind, val) in eng_.call_value(s1, f, [a1, item], None):
                        if kind != 'ret':
                            raise Unsupported('fold closure did not return')
                        nxt.append((s2, val))
                live = nxt
            return [(s2, 'ret', v2) for (s2, v2) in live]
        eng.stub(r'as (std::iter::)?Iterator>::fold::<BTreeMap<', fold_stub, 'Iterator::fold over the targets with the real closure')
        eng.stub(r'BTreeMap::<.*>::new$', lambda e, s_, a, c: Tup([Seq([])], 'EntryMap'), 'BTreeMap::new = empty entry list')

        def map_entry(eng_, st_, args, ci):
            return Tup([args[0], args[1]], 'MapEntry')
        eng.stub(r'BTreeMap::<.*>::entry$', map_entry, 'BTreeMap::entry(key)')

        def or_default(eng_, st_, args, ci):
            mref, key = args[0].items
            kd = deref(eng_, st_, key)
            if not (isinstance(kd, Enum) and kd.concrete() is not None):
                raise Unsupported('map key %r' % (kd,))
            m = eng_.read_ref(st_, mref)
            ents = list(m.items[0].items)
            idx = None
            for j, e_ in enumerate(ents):
                if deref(eng_, st_, e_.items[0]).concrete() == kd.concrete():
                    idx = j
            if idx is None:
                ents.append(Tup([key, Seq([])]))
                idx = len(ents) - 1
                eng_.write_ref(st_, mref, Tup([Seq(ents)], 'EntryMap'))
            return Ref(mref.key, mref.projs + (('field', 0), ('cindex', idx), ('field', 1)), True)
        eng.stub(r'btree_map::Entry::<.*>::or_default$|Entry::<.*>::or_insert_with::<|Entry::<.*>::or_insert$', or_default, 'Entry::or_default: the vector stored under that edition (created if absent)')

        def into_iter_stub(eng_, st_, args, ci):
            m = deref(eng_, st_, args[0])
            ents = sorted(m.items[0].items, key=lambda e_: deref(eng_, st_, e_.items[0]).concrete())
            cell = eng_.ref_to(st_, Seq(ents), True, 'owned')
            return Tup([cell, bv_const(0, 'usize')], 'OwnedIter')
        eng.stub(r'^<BTreeMap<.*> as IntoIterator>::into_iter$', into_iter_stub, 'BTreeMap::into_iter: entries in key order')
        eng.stub(r'^<std::collections::btree_map::IntoIter<.*> as Iterator>::next$', owned_next, 'btree_map::IntoIter::next')

        def wait_stub(eng_, st_, args, ci):
            k = len([t for t in st_.trace if t[0] == 'wait'])
            st_.trace.append(('wait', k))
            d = z3.BitVec(eng_.fresh_name('wait%d.io' % k), 64)
            st_.assume(z3.Or(d == 0, d == 1))
            return Enum('Result', d, {0: Tup([Opaque('ExitStatus', k)]), 1: Tup([Opaque('io::Error', 'wait%d' % k)])})
        eng.stub(r'(^|::)Child::wait$', wait_stub, 'Child::wait = Ok(status_k) or Err(io)')

        def success_stub(eng_, st_, args, ci):
            s_ = args[0]
            while isinstance(s_, Ref):
                s_ = eng_.read_ref(st_, s_)
            return succ[s_.ident]
        eng.stub(r'ExitStatus::success$', success_stub, 'ExitStatus::success = symbolic per child')

        def code_stub(eng_, st_, args, ci):
            s_ = args[0]
            while isinstance(s_, Ref):
                s_ = eng_.read_ref(st_, s_)
            k = s_.ident
            return Enum('Option', z3.If(code_some[k], z3.BitVecVal(1, 64), z3.BitVecVal(0, 64)), {1: Tup([BV(code[k], 'i32')])})
        eng.stub(r'ExitStatus::code$', code_stub, 'ExitStatus::code = symbolic per child (None = killed by a signal)')
        targets = tset
        fmt_args = eng.ref_to(st, Seq([]), False)
        verbosity = eng.fresh_of_type(st, 'Verbosity', 'verbosity')
        outs = ctx.check_outcomes(eng.run(rr, [targets, fmt_args, verbosity], st), 'run_rustfmt')
        log('[C18] run_rustfmt with %d groups: %d paths' % (n, len(outs)))
        mv = succ + code_some + code
        for i, o in enumerate(outs):
            if o.kind != 'ret':
                ctx.prop('run_rustfmt/n%d/p%d/no-panic[%s]' % (n, i, str(o.info)[:40]), o.state.pc, z3.BoolVal(True), mv, rp, twin=False)
                continue
            v = o.value
            nwait = len([t for t in o.state.trace if t[0] == 'wait'])
            if 0 in v.payloads:
                ex = v.payloads[0].items[0]
                okret = v.discr == 0
                # Ok(code) is only returned after every group has been run
                ctx.prop('run_rustfmt/n%d/p%d/all-groups-run-before-Ok' % (n, i), o.state.pc + [okret], z3.BoolVal(nwait != n), mv, rp, twin=False)
                some_failed = z3.Or([z3.Not(s_) for s_ in succ]) if n else z3.BoolVal(False)
                cls = [('C18/run_rustfmt/child-killed-by-signal-is-success', z3.And([z3.Or(succ[k], z3.Not(code_some[k])) for k in range(n)]) if n else z3.BoolVal(False))]
                ctx.prop('run_rustfmt/n%d/p%d/exit-nonzero-iff-some-child-failed' % (n, i), o.state.pc + [okret], (ex.e != 0) != some_failed, mv, rp, classes=cls)
    # ---- Target identity: equality and order are by path only (BTreeSet keeps each file once)
    eng.inline_only = [re.compile(r'src/cargo-fmt/main\.rs')]
    eng.stubs = []
    strcmp = z3.Function('path_cmp', str_sort(), str_sort(), z3.BitVecSort(64))

    def path_eq(eng_, st_, args, ci):
        a, b = (deref(eng_, st_, x) for x in args)
        r = str_expr(a) == str_expr(b)
        return r if ci.func.endswith('::eq') else z3.Not(r)
    eng.stub(r'^<PathBuf as PartialEq>::(eq|ne)$', path_eq, 'PathBuf == PathBuf: equality of uninterpreted path values')

    def path_cmp(eng_, st_, args, ci):
        a, b = (deref(eng_, st_, x) for x in args)
        d = strcmp(str_expr(a), str_expr(b))
        st_.assume(z3.Or(d == -1, d == 0, d == 1))
        st_.assume((d == 0) == (str_expr(a) == str_expr(b)))
        return Enum('Ordering', d, {})
    eng.stub(r'^<PathBuf as Ord>::cmp$', path_cmp, 'PathBuf::cmp: a total order on uninterpreted path values (Equal iff equal)')
    tf = [n_ for n_, _ in eng.src.struct_fields('Target', 'src/cargo-fmt/main.rs')]
    for meth, trait in (('eq', 'PartialEq'), ('cmp', 'Ord'), ('partial_cmp', 'PartialOrd')):
        fn = eng.find(meth, self_ty='Target', file='src/cargo-fmt/main.rs', trait=trait)
        st = State()
        pa, pb = eng.fresh_str('a.path'), eng.fresh_str('b.path')

        def mk(p, tag):
            vals = []
            for n_ in tf:
                if n_ == 'path':
                    vals.append(p)
                else:
                    vals.append(Opaque('Target.' + n_, tag + n_))
            return Tup(vals, 'Target')
        ra, rb = eng.ref_to(st, mk(pa, 'a.'), False), eng.ref_to(st, mk(pb, 'b.'), False)
        outs = ctx.check_outcomes(eng.run(fn, [ra, rb], st), 'Target::' + meth)
        for i, o in enumerate(outs):
            if o.kind != 'ret':
                ctx.prop('Target::%s/p%d/no-panic' % (meth, i), o.state.pc, z3.BoolVal(True), [], rp, twin=False)
                continue
            same = pa.e == pb.e
            v = o.value
            if meth == 'eq':
                res_equal = v
            elif meth == 'cmp':
                res_equal = v.discr == 0
            else:
                res_equal = z3.And(v.discr == 1, v.payloads[1].items[0].discr == 0)
            ctx.prop('Target::%s/p%d/identity-is-the-path-alone' % (meth, i), o.state.pc, res_equal != same, [], rp)
    ctx.cover('cover/second-of-three-fails', [z3.BoolVal(True)])
    f = cli_findings()
    ctx.validated += 1
    ctx.validation_detail.append({'cli_findings_on_this_tree': f})

    part_root_only(ctx)
    part_from_target(ctx)
    part_recursive(ctx)


# ======================================================================================= target selection without -p / --all
KF_SUBDIR = 'C18/get_targets_root_only/member-subdirectory-in-a-multi-package-workspace-finds-no-targets'


def part_root_only(ctx):
    """get_targets_root_only over a harness `cargo metadata` result: k packages (1..3) with two targets each; every path value is an
    uninterpreted text, canonicalize succeeds and is the identity (canonical, existing paths). Symbolic: the working directory, its
    `Cargo.toml`, the workspace root, which of them coincide. Specification (completeness for the current package): the package whose
    manifest cargo picks for the working directory (the nearest Cargo.toml at or above it, the symbolic M) gets all its targets."""
    from mirsym.intrinsics import str_expr, NONE
    eng = ctx.engine(('cargo-fmt',), loop_bound=16)
    name = eng.find('get_targets_root_only', free=True)
    rp = make_replay(ctx)
    K = 2 if ctx.tier == 'quick' else 3
    from mirsym.engine import StrSort
    for k in range(1, K + 1):
        eng.stubs = []
        eng.lenient = True
        eng.inline_only = [re.compile(r'get_targets_root_only|^add_targets$')]
        st = State()
        pk = [Opaque('cargo_metadata::Package', 'pkg%d' % i) for i in range(k)]

        def stable_path(e, s_, b, t):
            return StrVal(e=z3.Const('path:' + re.sub(r'!\d+$', '', b), StrSort))
        eng.type_models = [
            (re.compile(r'^(std::vec::)?Vec<(cargo_metadata::)?Package>$'), lambda e, s_, b, t: Seq(pk)),
            (re.compile(r'^(std::vec::)?Vec<cargo_metadata::Target>$'), lambda e, s_, b, t: Seq([Opaque('cargo_metadata::Target', re.sub(r'!\d+$', '', b) + '.t%d' % j) for j in range(2)])),
            (re.compile(r'Utf8PathBuf$'), stable_path),
        ]
        meta = Opaque('cargo_metadata::Metadata', 'meta')
        eng.stub(r'^get_cargo_metadata$', lambda e, s_, a, c: Enum('Result', 0, {0: Tup([meta])}), '`cargo metadata --no-deps` = harness result with k packages of two targets each')

        def pb_from(e, s_, a, c):
            v = deref(e, s_, a[0])
            s_.trace.append(('pathbuf_from', v))
            return v
        eng.stub(r'^<PathBuf as From<&Utf8PathBuf>>::from$', pb_from, 'PathBuf::from(&Utf8PathBuf) = the same path value (observed)')
        eng.stub(r'Path::canonicalize$', lambda e, s_, a, c: Enum('Result', 0, {0: Tup([deref(e, s_, a[0])])}), 'Path::canonicalize = Ok(identity): paths are canonical and exist')
        eng.stub(r'Result::<PathBuf, std::io::Error>::unwrap_or_default$', lambda e, s_, a, c: a[0].payloads[0].items[0], 'unwrap_or_default of that Ok')
        cwd = StrVal(e=z3.Const('cwd', StrSort))
        J = StrVal(e=z3.Const('cwd/Cargo.toml', StrSort))
        eng.stub(r'^current_dir$|env::current_dir$', lambda e, s_, a, c: Enum('Result', 0, {0: Tup([cwd])}), 'env::current_dir = Ok(cwd) (symbolic)')
        eng.stub(r'Path::join::<&str>$', lambda e, s_, a, c: J, 'cwd.join("Cargo.toml") = a path value of its own')
        eng.stub(r'^<PathBuf as PartialEq(<&Path>)?>::eq$', lambda e, s_, a, c: str_expr(deref(e, s_, a[0])) == str_expr(deref(e, s_, a[1])), 'PathBuf == = equality of path values')
        eng.stub(r'<PathBuf as Deref>::deref$', lambda e, s_, a, c: a[0], 'PathBuf deref')

        def from_target(e, s_, a, c):
            t = deref(e, s_, a[0])
            s_.trace.append(('selected', t))
            return Opaque('Target', 'sel')
        eng.stub(r'Target::from_target$', from_target, 'Target::from_target observed')
        eng.stub(r'BTreeSet::<Target>::insert$', lambda e, s_, a, c: z3.BoolVal(True), 'BTreeSet::insert (identity of targets is decided in the Target part)')
        try:
            outs = ctx.check_outcomes(eng.run(name, [NONE, eng.ref_to(st, Opaque('BTreeSet', 'targets'), True)], st), 'get_targets_root_only')
        finally:
            eng.type_models = []
        log('[C18] get_targets_root_only with %d packages: %d paths' % (k, len(outs)))
        declined = eng.stats.get('summaries_declined') or {}
        if any('collect' in k_ or 'filter' in k_ or 'flat_map' in k_ for k_ in declined):
            raise Inconclusive('get_targets_root_only: an iterator summary did not apply (%s)' % list(declined.items())[:2])
        for pi, o in enumerate(outs):
            if o.kind != 'ret':
                ctx.prop('root-only/k=%d/p%d/no-panic' % (k, pi), o.state.pc, z3.BoolVal(True), [], rp, twin=False)
                continue
            if o.value.concrete() != 0:
                continue
            sel = {str(t[1].ident) for t in o.state.trace if t[0] == 'selected' and isinstance(t[1], Opaque)}
            mans = {}
            for t in o.state.trace:
                if t[0] == 'pathbuf_from' and isinstance(t[1], StrVal) and t[1].e is not None:
                    m = re.match(r'path:lzpkg(\d+)\.', str(t[1].e))
                    if m:
                        mans[int(m.group(1))] = t[1].e
            for i in range(k):
                # the manifest of package i: read by the code on this path, or a path value of its own when the code never looked
                mi = mans.get(i, z3.Const('path:pkg%d.manifest(unread)' % i, StrSort))
                others = [mans.get(j, z3.Const('path:pkg%d.manifest(unread)' % j, StrSort)) for j in range(k) if j != i]
                mine = [x for x in sel if x.startswith('lzpkg%d.' % i)]
                all_mine = len(mine) == 2
                # environment: manifests of different packages differ; if cwd/Cargo.toml is a package manifest, cargo picks it (M = it)
                M = mi                                 # case: package i is the current package
                env_ok = [mi != o_ for o_ in others] + [z3.Implies(J.e == o_, z3.BoolVal(False)) for o_ in others]
                cls = [(KF_SUBDIR, z3.And(z3.BoolVal(k > 1), J.e != mi))]
                ctx.prop('root-only/k=%d/p%d/current-package=%d/all-its-targets-are-selected' % (k, pi, i), o.state.pc + env_ok, z3.BoolVal(not all_mine), [], rp, classes=cls, twin=False)
    eng.stubs = []
    eng.lenient = False
    eng.inline_only = None


# ======================================================================================= `--all`: which path dependencies are entered
def part_recursive(ctx):
    """get_targets_recursive over a harness `cargo metadata` result with k packages (1..2), each with one dependency whose `path` is present
    or not (symbolic): every package's targets are added, and a dependency is entered (the function recurses with its manifest) exactly when
    it has a path, was not visited before, its Cargo.toml exists and is not the manifest of one of the packages cargo listed - wherever the
    directory lies.  The recursion itself is environment (Ok | Err)."""
    from mirsym.intrinsics import str_expr, NONE
    from mirsym.engine import StrSort
    eng = ctx.engine(('cargo-fmt',), loop_bound=16)
    name = eng.find('get_targets_recursive', free=True)
    rp = replay_recursive
    K = 1 if ctx.tier == 'quick' else 2
    n_rec = 0
    for k in range(1, K + 1):
        eng.stubs = []
        eng.lenient = True
        eng.inline_only = [re.compile(r'^get_targets_recursive($|::)')]
        st = State()
        pk = [Opaque('cargo_metadata::Package', 'pkg%d' % i) for i in range(k)]
        has_path = [z3.Bool('dep%d.has_path' % i) for i in range(k)]
        visited = [z3.Bool('dep%d.already_visited' % i) for i in range(k)]
        exists = [z3.Bool('dep%d.manifest_exists' % i) for i in range(k)]
        member = [[z3.Bool('dep%d.manifest_is_that_of_package%d' % (i, j)) for j in range(k)] for i in range(k)]
        deps = [Opaque('cargo_metadata::Dependency', 'dep%d' % i) for i in range(k)]

        def idx_of(v, prefix):
            m = re.search(prefix + r'(\d+)', str(getattr(v, 'ident', '')) + str(getattr(v, 'e', '')))
            return int(m.group(1)) if m else None

        def stable_path(e, s_, b, t):
            return StrVal(e=z3.Const('path:' + re.sub(r'!\d+$', '', b), StrSort))
        eng.type_models = [
            (re.compile(r'^(std::vec::)?Vec<(cargo_metadata::)?Package>$'), lambda e, s_, b, t: Seq(pk)),
            (re.compile(r'^(std::vec::)?Vec<cargo_metadata::Target>$'), lambda e, s_, b, t: Opaque('Vec<Target>', re.sub(r'!\d+$', '', b))),
            (re.compile(r'^(std::vec::)?Vec<(cargo_metadata::)?Dependency>$'), lambda e, s_, b, t: Seq([deps[idx_of(Opaque('x', b), 'pkg')]])),
            (re.compile(r'^(std::option::)?Option<([a-z_]+::)*Utf8PathBuf>$'),
             lambda e, s_, b, t: Enum('Option', z3.If(has_path[idx_of(Opaque('x', b), 'dep')], z3.BitVecVal(1, 64), z3.BitVecVal(0, 64)), {1: Tup([StrVal(e=z3.Const('path:' + re.sub(r'!\d+$', '', b), StrSort))])})),
            (re.compile(r'Utf8PathBuf$'), stable_path),
        ]
        meta = Opaque('cargo_metadata::Metadata', 'meta')
        eng.stub(r'^get_cargo_metadata$', lambda e, s_, a, c: Enum('Result', 0, {0: Tup([meta])}), '`cargo metadata` = harness result: k packages with one dependency each')
        eng.stub(r'^add_targets$', lambda e, s_, a, c: (s_.trace.append(('add_targets', idx_of(deref(e, s_, a[0]), 'pkg'))), UNIT)[1], 'add_targets(package.targets) observed')

        def cur_dep(s_):
            xs = [t[1] for t in s_.trace if t[0] == 'dep']
            return xs[-1] if xs else None

        def contains(e, s_, a, c):
            nm = deref(e, s_, a[1])
            i = idx_of(nm, 'dep')
            s_.trace.append(('dep', i))
            return visited[i]
        eng.stub(r'BTreeSet::<(std::string::)?String>::contains::<', contains, 'visited.contains(dependency.name) = symbolic per dependency')
        eng.stub(r'BTreeSet::<(std::string::)?String>::insert$', lambda e, s_, a, c: (s_.trace.append(('mark_visited', cur_dep(s_))), z3.BoolVal(True))[1], 'visited.insert observed')
        eng.stub(r'^<PathBuf as From<&?(camino::)?Utf8PathBuf>>::from$|^<PathBuf as From<.*>>::from$', lambda e, s_, a, c: deref(e, s_, a[0]), 'PathBuf::from(path) = the same path value')
        eng.stub(r'Path(Buf)?::join::<&str>$', lambda e, s_, a, c: Tup([deref(e, s_, a[0])], 'ManifestOf'), 'dir.join("Cargo.toml") = the manifest path of that directory')
        eng.stub(r'(std::path::)?Path::exists$', lambda e, s_, a, c: exists[cur_dep(s_)], 'manifest_path.exists() = symbolic per dependency')

        def man_eq(e, s_, a, c):
            x, y = deref(e, s_, a[0]), deref(e, s_, a[1])
            j = idx_of(x, 'pkg')
            if j is None:
                j = idx_of(y, 'pkg')
            i = cur_dep(s_)
            if i is None or j is None:
                raise Unsupported('manifest comparison %r %r' % (x, y))
            return member[i][j]
        eng.stub(r'Utf8PathBuf as (std::cmp::)?PartialEq<.*>>::eq$', man_eq, 'package.manifest_path == manifest_path: symbolic per (dependency, package)')
        eng.stub(r'<PathBuf as (std::ops::)?Deref>::deref$|PathBuf::as_path$', lambda e, s_, a, c: a[0], 'PathBuf deref')

        def recurse(e, s_, a, c):
            s2 = s_.fork()
            s_.trace.append(('recurse', cur_dep(s_)))
            s2.trace.append(('recurse', cur_dep(s2)))
            return [(s_, 'ret', Enum('Result', 0, {0: Tup([UNIT])})), (s2, 'ret', Enum('Result', 1, {1: Tup([Opaque('io::Error', 'rec')])}))]
        eng.stub(r'^get_targets_recursive$', recurse, 'the recursive call = Ok | Err, observed')
        try:
            outs = ctx.check_outcomes(eng.run(name, [NONE, eng.ref_to(st, Opaque('BTreeSet', 'targets'), True), eng.ref_to(st, Opaque('BTreeSet', 'visited'), True)], st), 'get_targets_recursive')
        finally:
            eng.type_models = []
        mv = has_path + visited + exists + [m_ for row in member for m_ in row]
        for pi, o in enumerate(outs):
            tag = 'recursive/k=%d/p%d' % (k, pi)
            if o.kind != 'ret':
                ctx.prop(tag + '/no-panic', o.state.pc, z3.BoolVal(True), mv, rp, twin=False)
                continue
            if o.value.concrete() != 0:
                continue
            added = [t[1] for t in o.state.trace if t[0] == 'add_targets']
            ctx.prop(tag + '/the-targets-of-every-listed-package-are-added', o.state.pc, z3.BoolVal(sorted(x for x in added if x is not None) != list(range(k))), mv, rp, twin=False)
            rec = [t[1] for t in o.state.trace if t[0] == 'recurse']
            n_rec += len(rec)
            for i in range(k):
                want = z3.And(has_path[i], z3.Not(visited[i]), exists[i], z3.Not(z3.Or(member[i])))
                ctx.prop(tag + '/dependency%d-is-entered-iff-it-has-a-path-is-new-exists-and-is-not-a-listed-package' % i, o.state.pc, z3.BoolVal(i in rec) != want, mv, rp, twin=False)
    eng.stubs = []
    eng.lenient = False
    eng.inline_only = None
    if not n_rec:
        raise Inconclusive('get_targets_recursive: no path with a recursive call explored')


def replay_recursive(model, r):
    """cargo fmt --all with a path dependency that lies inside the workspace root but is excluded from the workspace"""
    bins = ensure_bins()
    cf = os.path.join(bins, 'cargo-fmt')
    d = os.path.join(BUILD, 'scratch', 'c18r-%d' % os.getpid())
    shutil.rmtree(d, ignore_errors=True)
    os.makedirs(os.path.join(d, 'src'))
    os.makedirs(os.path.join(d, 'vendor', 'dep', 'src'))
    os.makedirs(os.path.join(d, 'member', 'src'))
    open(os.path.join(d, 'Cargo.toml'), 'w').write('[package]\nname = "root"\nversion = "0.1.0"\nedition = "2021"\n[dependencies]\ndep = { path = "vendor/dep" }\n[workspace]\nmembers = ["member"]\nexclude = ["vendor/dep"]\n')
    open(os.path.join(d, 'src', 'lib.rs'), 'w').write('pub fn r() {}\n')
    open(os.path.join(d, 'vendor', 'dep', 'Cargo.toml'), 'w').write('[package]\nname = "dep"\nversion = "0.1.0"\nedition = "2018"\n')
    open(os.path.join(d, 'vendor', 'dep', 'src', 'lib.rs'), 'w').write('pub fn d() {}\n')
    open(os.path.join(d, 'member', 'Cargo.toml'), 'w').write('[package]\nname = "member"\nversion = "0.1.0"\nedition = "2021"\n')
    open(os.path.join(d, 'member', 'src', 'lib.rs'), 'w').write('pub fn m() {}\n')
    logp = os.path.join(d, 'calls.log')
    standin = os.path.join(d, 'standin.sh')
    open(standin, 'w').write('#!/bin/bash\nprintf "%%s\\n" "$@" >> %s\nexit 0\n' % logp)
    os.chmod(standin, 0o755)
    env = run_env()
    env['RUSTFMT'] = standin
    env['CARGO_NET_OFFLINE'] = 'true'
    pr = subprocess.run([cf, '--all'], capture_output=True, text=True, env=env, timeout=120, cwd=d)
    calls = open(logp).read() if os.path.exists(logp) else ''
    found = []
    if pr.returncode != 0 and 'metadata' in pr.stderr:
        shutil.rmtree(d, ignore_errors=True)
        return {'reproduced': False, 'detail': ['cargo metadata not usable here: %s' % pr.stderr[:160]]}
    for want in ('src/lib.rs', 'vendor/dep/src/lib.rs', 'member/src/lib.rs'):
        if os.path.join(d, want) not in calls and want not in calls:
            found.append('cargo fmt --all does not pass %s to rustfmt (exit %d)' % (want, pr.returncode))
    shutil.rmtree(d, ignore_errors=True)
    return {'reproduced': bool(found), 'detail': found}


# ======================================================================================= the identity of a target is its canonical path
def part_from_target(ctx):
    """Target::from_target: the path kept for a target is fs::canonicalize(src_path) whenever that succeeds (else the path as given),
    so two spellings of one file (a/../shared/x.rs, shared/x.rs) are one element of the BTreeSet; kind and edition are copied."""
    from mirsym.engine import StrSort
    eng = ctx.engine(('cargo-fmt',), loop_bound=16)
    name = eng.find('from_target', self_ty='Target', file='src/cargo-fmt/main.rs')
    rp = make_replay(ctx)
    eng.stubs = []
    eng.lenient = True
    eng.inline_only = [re.compile(r'from_target$')]
    raw = StrVal(e=z3.Const('src_path', StrSort))
    canon = StrVal(e=z3.Const('canonical(src_path)', StrSort))
    can_ok = z3.Bool('canonicalize.ok')
    eng.type_models = [(re.compile(r'Utf8PathBuf$'), lambda e, s_, b, t: raw)]
    eng.stub(r'^<PathBuf as From<&Utf8PathBuf>>::from$', lambda e, s_, a, c: deref(e, s_, a[0]), 'PathBuf::from(&Utf8PathBuf) = the same path value')
    eng.stub(r'(^|::)canonicalize::<', lambda e, s_, a, c: Enum('Result', z3.If(can_ok, z3.BitVecVal(0, 64), z3.BitVecVal(1, 64)), {0: Tup([canon]), 1: Tup([Opaque('io::Error', 'c')])}),
             'fs::canonicalize(p) = Ok(canonical(p)) | Err, symbolic')
    eng.stub(r'Path::is_absolute$|Path::is_relative$|Path::has_root$', lambda e, s_, a, c: e.fresh_bool('path_predicate'), 'syntactic path predicates: symbolic')
    st = State()
    tgt = eng.ref_to(st, Opaque('cargo_metadata::Target', 'tgt'), False, 'target')
    try:
        outs = ctx.check_outcomes(eng.run(name, [tgt], st), 'Target::from_target')
    finally:
        eng.type_models = []
    tf = [n for n, _ in eng.src.struct_fields('Target', 'src/cargo-fmt/main.rs')]
    nret = 0
    for pi, o in enumerate(outs):
        if o.kind != 'ret':
            continue            # kind[0] on an empty kind list panics: cargo metadata always gives at least one kind (environment)
        nret += 1
        pth = deref(eng, o.state, o.value.items[tf.index('path')])
        if not (isinstance(pth, StrVal) and pth.e is not None):
            ctx.prop('from_target/p%d/path-is-a-path-value' % pi, o.state.pc, z3.BoolVal(True), [can_ok], rp, twin=False)
            continue
        ctx.prop('from_target/p%d/keeps-the-canonical-path-when-there-is-one' % pi, o.state.pc, z3.And(can_ok, pth.e != canon.e), [can_ok], rp)
        ctx.prop('from_target/p%d/keeps-the-given-path-otherwise' % pi, o.state.pc, z3.And(z3.Not(can_ok), pth.e != raw.e), [can_ok], rp, twin=False)
    if not nret:
        raise Inconclusive('Target::from_target has no returning path')
    eng.stubs = []
    eng.lenient = False
    eng.inline_only = None


def str_sort():
    from mirsym.engine import StrSort
    return StrSort


def deref(eng, st, v):
    while isinstance(v, Ref):
        v = eng.read_ref(st, v)
    return v


# ----------------------------------------------------------------------------- native: real cargo-fmt with a stand-in $RUSTFMT

def cli_findings():
    bins = ensure_bins()
    cf = os.path.join(bins, 'cargo-fmt')
    d = os.path.join(BUILD, 'scratch', 'c18-%d' % os.getpid())
    shutil.rmtree(d, ignore_errors=True)
    os.makedirs(d)
    found = {}
    # workspace: three packages with editions 2015/2018/2021; two packages of different editions share a file
    open(os.path.join(d, 'Cargo.toml'), 'w').write('[workspace]\nmembers = ["a", "b", "c"]\nresolver = "2"\n')
    for name, ed in (('a', '2015'), ('b', '2018'), ('c', '2021')):
        os.makedirs(os.path.join(d, name, 'src'))
        extra = ''
        if name in ('b', 'c'):
            extra = '\n[[bin]]\nname = "shared_%s"\npath = "../shared/gen.rs"\n' % name
        open(os.path.join(d, name, 'Cargo.toml'), 'w').write('[package]\nname = "%s"\nversion = "0.1.0"\nedition = "%s"\n%s' % (name, ed, extra))
        open(os.path.join(d, name, 'src', 'lib.rs'), 'w').write('pub fn f() {}\n')
    os.makedirs(os.path.join(d, 'shared'))
    open(os.path.join(d, 'shared', 'gen.rs'), 'w').write('fn main() {}\n')
    log_path = os.path.join(d, 'calls.log')
    standin = os.path.join(d, 'standin.sh')
    open(standin, 'w').write('#!/bin/bash\necho "$@" >> %s\ned=""\nprev=""\nfor a in "$@"; do if [ "$prev" = "--edition" ]; then ed=$a; fi; prev=$a; done\n'
                             'case "$ed" in\n  $FAIL_ED) if [ "$FAIL_HOW" = "kill" ]; then kill -9 $$; else exit $FAIL_HOW; fi;;\nesac\nexit 0\n' % log_path)
    os.chmod(standin, 0o755)

    def run(fail_ed, fail_how, args=('--all',)):
        if os.path.exists(log_path):
            os.remove(log_path)
        env = run_env()
        env.update({'RUSTFMT': standin, 'FAIL_ED': fail_ed, 'FAIL_HOW': str(fail_how), 'CARGO_NET_OFFLINE': 'true'})
        r = subprocess.run([cf] + list(args), capture_output=True, text=True, env=env, timeout=120, cwd=d)
        calls = open(log_path).read().strip().split('\n') if os.path.exists(log_path) else []
        return r, calls
    r, calls = run('none', 0)
    if r.returncode != 0:
        found.setdefault('other', []).append('all children succeed but cargo-fmt exits %d: %s' % (r.returncode, r.stderr[-200:]))
    allargs = ' '.join(calls).split()
    if allargs.count(os.path.join(d, 'shared', 'gen.rs')) != 1:
        found.setdefault('other', []).append('shared/gen.rs passed %d times to rustfmt' % allargs.count(os.path.join(d, 'shared', 'gen.rs')))
    for ed in ('2015', '2018', '2021'):
        for how in (1, 3, 101):
            r, calls = run(ed, how)
            if r.returncode == 0:
                found.setdefault('other', []).append('rustfmt for edition %s exits %d but cargo-fmt exits 0' % (ed, how))
        r, calls = run(ed, 'kill')
        if r.returncode == 0:
            found.setdefault('C18/run_rustfmt/child-killed-by-signal-is-success', []).append('rustfmt for edition %s killed by SIGKILL but cargo-fmt exits 0' % ed)
    # target selection from different working directories (no -p / --all)
    single = os.path.join(d, 'single')
    os.makedirs(os.path.join(single, 'src', 'bin'))
    open(os.path.join(single, 'Cargo.toml'), 'w').write('[package]\nname = "single"\nversion = "0.1.0"\nedition = "2021"\n[workspace]\n')
    open(os.path.join(single, 'src', 'lib.rs'), 'w').write('pub fn f() {}\n')
    open(os.path.join(single, 'src', 'bin', 'tool.rs'), 'w').write('fn main() {}\n')

    def run_in(cwd):
        if os.path.exists(log_path):
            os.remove(log_path)
        env = run_env()
        env.update({'RUSTFMT': standin, 'FAIL_ED': 'none', 'FAIL_HOW': '0', 'CARGO_NET_OFFLINE': 'true'})
        r = subprocess.run([cf], capture_output=True, text=True, env=env, timeout=120, cwd=cwd)
        calls = open(log_path).read().split() if os.path.exists(log_path) else []
        return r, sorted(c for c in calls if c.endswith('.rs'))
    want = sorted([os.path.join(single, 'src', 'lib.rs'), os.path.join(single, 'src', 'bin', 'tool.rs')])
    for sub in ('.', 'src', os.path.join('src', 'bin')):
        r, files = run_in(os.path.join(single, sub))
        if r.returncode != 0 or files != want:
            found.setdefault('other', []).append('single package, cwd=%s: exit %d, files %r, expected %r' % (sub, r.returncode, [os.path.relpath(f, single) for f in files], [os.path.relpath(f, single) for f in want]))
    want_a = [os.path.join(d, 'a', 'src', 'lib.rs')]
    r, files = run_in(os.path.join(d, 'a'))
    if r.returncode != 0 or files != want_a:
        found.setdefault('other', []).append('workspace member a, cwd=a: exit %d, files %r' % (r.returncode, files))
    r, files = run_in(os.path.join(d, 'a', 'src'))
    if r.returncode != 0 or files != want_a:
        found.setdefault('C18/get_targets_root_only/member-subdirectory-in-a-multi-package-workspace-finds-no-targets', []).append(
            'workspace of three members, cwd=a/src: exit %d (%s), files passed to rustfmt %r, expected a/src/lib.rs' % (r.returncode, r.stderr.strip().split('\n')[0][:60], files))
    shutil.rmtree(d, ignore_errors=True)
    return found


def make_replay(ctx):
    cache = {}

    def replay(model, r):
        if 'f' not in cache:
            cache['f'] = cli_findings()
        f = cache['f']
        key = r.ob.meta.get('key')
        if key:
            return {'reproduced': key in f, 'detail': f.get(key, [])[:3]}
        other = {k: v for k, v in f.items() if k not in ctx.open_keys}
        return {'reproduced': bool(other), 'detail': {k: v[:3] for k, v in other.items()}}
    return replay


if __name__ == '__main__':
    main_wrapper('C18', build, level='other')
