#!/usr/bin/env python3-vt
"""Freeze the option defaults of the pinned release per released style edition into /verif/reference/c09_release_defaults.json.
Run ONCE against the audited tree (never by a check): the file is the frozen reference C09 compares the working tree against."""
import json, os, subprocess, sys, tempfile
sys.path.insert(0, '/verif/checks'); sys.path.insert(0, '/verif')
from common import ensure_bins, run_env, REPO
bins = ensure_bins()
d = tempfile.mkdtemp()
out = {'commit': subprocess.run(['git', '-C', REPO, 'rev-parse', 'HEAD'], capture_output=True, text=True).stdout.strip(), 'released_style_editions': ['2015', '2018', '2021', '2024'], 'defaults': {}}
for e in out['released_style_editions']:
    p = subprocess.run([os.path.join(bins, 'rustfmt'), '--style-edition', e, '--print-config', 'current', d], capture_output=True, text=True, env=run_env(), cwd=d)
    assert p.returncode == 0, p.stderr
    for ln in p.stdout.splitlines():
        k, _, v = ln.partition(' = ')
        out['defaults'].setdefault(k, {})[e] = json.loads(v) if v and v[0] in '"[0123456789tf' else v
json.dump(out, open('/verif/reference/c09_release_defaults.json', 'w'), indent=1, sort_keys=True)
# crafted inputs for the edition-gated ordering of modules and extern crates: text the pinned release prints per released style edition
import c09
ordering = {'commit': out['commit'], 'inputs': c09.ORDERING_INPUTS, 'outputs': {}}
for name, src in c09.ORDERING_INPUTS.items():
    p_ = os.path.join(d, name + '.rs')
    open(p_, 'w').write(src)
    for e in out['released_style_editions']:
        r = subprocess.run([os.path.join(bins, 'rustfmt'), '--emit', 'stdout', '--quiet', '--config', 'skip_children=true', '--style-edition', e, p_], capture_output=True, text=True, env=run_env(), cwd=d)
        assert r.returncode == 0, r.stderr
        ordering['outputs'].setdefault(name, {})[e] = r.stdout
json.dump(ordering, open('/verif/reference/c09_release_ordering.json', 'w'), indent=1, sort_keys=True)
print('frozen', len(out['defaults']), 'options at', out['commit'])
