"""C08 — whitespace and newline discipline: blank-line clamp, final-newline truncation, indentation strings, newline style."""
from common import *
from mirsym.config import make_config
from mirsym.intrinsics import str_expr, some, NONE
from mirsym.values import StrVal

LIM = 1 << 32


def deref(eng, st, v):
    while isinstance(v, Ref):
        v = eng.read_ref(st, v)
    return v


def build(ctx):
    eng = ctx.engine('lib', loop_bound=100)
    ctx.bounds = {'blank-line clamp': 'newline_count, trailing newlines, both bounds symbolic < 2^32 with lower <= upper', 'indent widths': '<= 86 columns (covers the 80-column buffer boundary on both sides)',
                  'tab_spaces': '1..=8', 'newline conversion': 'per character step (any length) for Windows; std str::replace semantics on strings <= 6 chars for Unix'}
    ctx.outside = ['that all indentation goes through Indent::to_string', 'copied code (span code)', 'at most one blank line inside lists (list machinery)',
                   'blank_lines_lower_bound > blank_lines_upper_bound (misconfiguration)']
    ctx.assumptions = ['FormatLines.newline_count = number of trailing newline characters of the buffer (scanner invariant, C07)',
                       'str::replace = leftmost non-overlapping replacement (SMT-LIB str.replace_all)', 'Chars/Peekable cursors, str::repeat, push_str observed']
    part_vertical(ctx, eng)
    part_truncate(ctx, eng)
    part_indent(ctx, eng)
    part_newline(ctx, eng)
    # leading blank lines: the one-step harness over the loop of skip_empty_lines, and the whole function over short symbolic texts;
    # either may decline code it cannot follow (a rewrite without a search loop / with text methods outside strmodel), not both
    declined = []
    for part, args in ((part_leading_blank, ()), (part_leading_blank_whole, (3 if ctx.tier == 'quick' else 5,))):
        mark = len(ctx.obls)
        try:
            part(ctx, eng, *args)
        except (Unsupported, Inconclusive) as e_:
            del ctx.obls[mark:]
            eng.stubs = []
            eng.lenient = False
            eng.inline_only = None
            declined.append('%s: %s' % (part.__name__, str(e_)[:160]))
    if len(declined) == 2:
        raise Inconclusive('skip_empty_lines: neither harness applies (%s)' % '; '.join(declined))
    for d_ in declined:
        ctx.notes.append('skip_empty_lines: ' + d_ + ' - decided by the other harness')
    part_leading_whitespace(ctx, eng)
    part_auto_end_to_end(ctx, eng)
    # which text the emitter gets as the original (a fixed newline style must be compared with the bytes on disk): kernel shared with C06
    import c06
    eng.stubs = []
    c06.part_write_file(ctx, eng, c06.replay_cli(ctx, 'files'))
    validate(ctx)


# ======================================================================================= (a) blank-line clamp

def part_vertical(ctx, eng):
    rp = make_replay(ctx)
    pvs = eng.find('push_vertical_spaces', self_ty='FmtVisitor', file='src/missed_spans.rs')
    fn = eng.get_fn(pvs)
    mirtext = '\n'.join(str(b) for b in fn.blocks.values())
    shape_a = re.search(r'TakeWhile<Rev<Chars<.*>>, .*> as Iterator>::count', mirtext) is not None
    K = 3 if ctx.tier == 'quick' else 5
    # harness A: the count of trailing newlines is one symbolic number of any size (applies while the code computes it with
    #            chars().rev().take_while().count()); harness B: the buffer is a symbolic ASCII string of every length 0..K and the
    #            code's own way of counting runs on it
    harnesses = ([('A', None)] if shape_a else []) + [('B', k) for k in range(0, K + 1)]
    if not shape_a:
        ctx.notes.append('push_vertical_spaces no longer counts with chars().rev().take_while().count(): only the bounded-buffer harness applies')
    for hname, k in harnesses:
        eng.stubs = []
        eng.lenient = True
        eng.inline_only = [re.compile(r'src/config/config_type\.rs'), re.compile(r'Config::')]
        st = State()
        if hname == 'A':
            offset = z3.BitVec('trailing_newlines_in_buffer', 64)
            eng.stub(r'^<TakeWhile<Rev<Chars<.*>>, .*> as Iterator>::count$', lambda e, s_, a, c, o=offset: BV(o, 'usize'),
                     'buffer.chars().rev().take_while(newline).count() = number of trailing newlines (symbolic)')
            buf = Opaque('String', 'buffer')
            extra = [z3.ULT(offset, LIM)]
            bvars = []
        else:
            chars = [z3.BitVec('buf%d' % i, 32) for i in range(k)]
            buf = Seq([BV(c, 'char') for c in chars])
            extra = [z3.And(z3.ULT(c, 0x80)) for c in chars]
            t = z3.BitVecVal(0, 64)
            for i in range(k):           # trailing newline count of the symbolic buffer
                t = z3.If(chars[i] == 10, t + 1, z3.BitVecVal(0, 64))
            offset = t
            bvars = chars

        def repeat_stub(eng_, st_, args, ci):
            return Tup([deref(eng_, st_, args[0]), args[1]], 'Repeat')
        eng.stub(r'<impl str>::repeat$', repeat_stub, 'str::repeat(s, n) = structure')

        def push_str_stub(eng_, st_, args, ci):
            st_.trace.append(('push_str', deref(eng_, st_, args[1])))
            return UNIT
        eng.stub(r'FmtVisitor::<.*>::push_str$', push_str_stub, 'FmtVisitor::push_str observed')
        cfgref, cv = make_config(eng, st)
        upper, lower = cv['blank_lines_upper_bound'].e, cv['blank_lines_lower_bound'].e
        nc = z3.BitVec('newline_count', 64)
        for a in [z3.ULT(upper, LIM), z3.ULT(lower, LIM), z3.ULE(lower, upper), z3.ULT(nc, LIM)] + extra:
            st.assume(a)
        vis = Opaque('FmtVisitor', 'visitor')
        fields = [n for n, _ in eng.src.struct_fields('FmtVisitor', 'src/visitor.rs')]
        st.notes[('lazy', vis.ident, fields.index('config'))] = cfgref
        st.notes[('lazy', vis.ident, fields.index('buffer'))] = buf
        selfref = eng.ref_to(st, vis, True)
        tag = 'push_vertical_spaces/%s%s' % (hname, '' if k is None else '/len=%d' % k)
        outs = ctx.check_outcomes(eng.run(pvs, [selfref, BV(nc, 'usize')], st), tag)
        mv = [nc, upper, lower] + ([offset] if hname == 'A' else bvars)
        hint = [z3.ULT(x, 12) for x in mv[:3]]
        log('[C08] %s: %d paths' % (tag, len(outs)))
        for pi, o in enumerate(outs):
            if o.kind == 'panic':
                ctx.prop('%s/p%d/no-panic[%s]' % (tag, pi, str(o.info.get('msg'))[:30]), o.state.pc, z3.BoolVal(True), mv, rp, twin=False, hint=hint)
                continue
            pushes = [t_[1] for t_ in o.state.trace if t_[0] == 'push_str']
            if len(pushes) != 1 or not (isinstance(pushes[0], Tup) and pushes[0].name == 'Repeat' and isinstance(pushes[0].items[0], StrVal) and pushes[0].items[0].s == '\n'):
                ctx.prop('%s/p%d/pushes-only-newlines-once' % (tag, pi), o.state.pc, z3.BoolVal(True), mv, rp, twin=False, hint=hint)
                continue
            n = pushes[0].items[1].e
            total = offset + n
            want = z3.If(z3.UGT(nc + offset, upper + 1), upper + 1, z3.If(z3.ULT(nc + offset, lower + 1), lower + 1, nc + offset))
            tw = hname == 'A'      # per-path reachability twins only for the unbounded harness (B's paths are many and small)
            ctx.prop('%s/p%d/buffer-then-ends-in-clamp(count+trailing,lower+1,upper+1)-newlines' % (tag, pi), o.state.pc,
                     z3.And(z3.ULE(offset, upper + 1), total != want), mv, rp, hint=hint, twin=tw)
            ctx.prop('%s/p%d/never-more-than-upper-blank-lines' % (tag, pi), o.state.pc, z3.And(z3.ULE(offset, upper + 1), z3.UGT(total, upper + 1)), mv, rp, hint=hint, twin=tw)
            ctx.prop('%s/p%d/adds-nothing-when-already-over-the-bound' % (tag, pi), o.state.pc, z3.And(z3.UGT(offset, upper + 1), n != 0), mv, rp, hint=hint, twin=tw)
            ctx.prop('%s/p%d/idempotent(re-applied-with-count-0-adds-nothing)' % (tag, pi), o.state.pc,
                     z3.And(nc == 0, z3.UGE(offset, lower + 1), n != 0), mv, rp, hint=hint, twin=tw)
    eng.stubs = []
    eng.lenient = False
    eng.inline_only = None


# ======================================================================================= (b) exactly one final newline

def part_truncate(ctx, eng):
    rp = make_replay(ctx)
    fl = eng.find('format_lines', free=True)
    eng.lenient = True
    eng.inline_only = [re.compile(r'^format_lines$')]
    eng.no_inline = [re.compile(r'FormatLines|tracing|append')]
    L = z3.BitVec('text_len', 64)
    eng.stub(r'String::len$', lambda e, s, a, c: BV(L, 'usize'), 'String::len = symbolic length')

    def truncate_stub(eng_, st_, args, ci):
        st_.trace.append(('truncate', args[1]))
        return UNIT
    eng.stub(r'String::truncate$', truncate_stub, 'String::truncate observed')
    eng.ignored.append(re.compile(r'tracing|LevelFilter|DefaultCallsite|Interest|__is_enabled|ValueSet|FieldSet|Event::|Metadata|fmt::|Arguments::'))
    st = State()
    st.assume(z3.ULT(L, LIM))
    text = eng.ref_to(st, Opaque('String', 'text'), True)
    name = eng.ref_to(st, Enum('FileName', 1, {}), False)
    skipped = eng.ref_to(st, Seq([]), False)
    cfg = eng.ref_to(st, Opaque('Config', 'cfg'), False)
    rep = eng.ref_to(st, Opaque('FormatReport', 'report'), False)
    outs = ctx.check_outcomes(eng.run(fl, [text, name, skipped, cfg, rep], st), 'format_lines')
    nc_idx = eng.src.field_index('FormatLines', 'newline_count', 'src/formatting.rs')
    seen = 0
    for pi, o in enumerate(outs):
        if o.kind != 'ret':
            if o.kind == 'panic' and o.info.get('kind') == 'assert':
                # `text.len() - newline_count + 1` cannot underflow when the buffer really ends in newline_count newlines
                ncv = newline_count_of(o.state)
                if ncv is not None:
                    ctx.prop('format_lines/p%d/no-panic-when-buffer-has-that-many-trailing-newlines[%s]' % (pi, str(o.info.get('msg'))[:40] + '@' + str(o.info.get('fn'))[-30:]), o.state.pc + [z3.UGE(L, ncv), z3.ULT(ncv, LIM)], z3.BoolVal(True), [L, ncv], rp, twin=False)
            continue
        ncv = newline_count_of(o.state)
        if ncv is None:
            raise Inconclusive('format_lines: newline_count not read')
        tr = [t for t in o.state.trace if t[0] == 'truncate']
        pre = o.state.pc + [z3.UGE(L, ncv), z3.ULT(ncv, LIM)]
        seen += 1
        if tr:
            newlen = tr[0][1].e
            ctx.prop('format_lines/p%d/truncation-leaves-exactly-one-final-newline' % pi, pre, z3.Or(newlen != L - (ncv - 1), z3.ULE(ncv, 1), z3.BoolVal(len(tr) != 1)), [L, ncv], rp,
                     hint=[z3.ULT(L, 30), z3.ULT(ncv, 30)])
        else:
            ctx.prop('format_lines/p%d/no-truncation-only-when-at-most-one-final-newline' % pi, pre, z3.UGT(ncv, 1), [L, ncv], rp, hint=[z3.ULT(L, 30), z3.ULT(ncv, 30)])
    if not seen:
        raise Inconclusive('format_lines: no returning path')
    eng.stubs = []
    eng.ignored = []
    eng.no_inline = []
    eng.lenient = False
    eng.inline_only = None
    # append_newline pushes exactly one '\n'
    an = eng.find('append_newline', free=True)
    st = State()
    s = eng.ref_to(st, Seq([]), True)
    for pi, o in enumerate(ctx.check_outcomes(eng.run(an, [s], st), 'append_newline')):
        v = eng.read_ref(o.state, s)
        ok = isinstance(v, Seq) and len(v.items) == 1 and isinstance(v.items[0], BV) and v.items[0].concrete() == 10
        ctx.prop('append_newline/p%d/appends-exactly-one-newline' % pi, o.state.pc, z3.BoolVal(not ok), [], rp, twin=False)


def newline_count_of(st):
    for k, v in st.notes.items():
        if isinstance(k, tuple) and k[0] == 'lazy' and isinstance(v, BV) and 'lz' in str(v.e) and k[2] == _NC_IDX[0]:
            return v.e
    return None


_NC_IDX = [5]


# ======================================================================================= (c) indentation strings

def part_indent(ctx, eng):
    rp = make_replay(ctx)
    _NC_IDX[0] = eng.src.field_index('FormatLines', 'newline_count', 'src/formatting.rs')
    eng.lenient = False
    for meth, offset in (('to_string', 1), ('to_string_with_newline', 0)):
        fn = eng.find(meth, self_ty='Indent', file='src/shape.rs')
        for hard_tabs in (False, True):
            st = State()
            cfgref, cv = make_config(eng, st, values={'hard_tabs': z3.BoolVal(hard_tabs)})
            ts = cv['tab_spaces'].e
            st.assume(z3.And(z3.UGE(ts, 1), z3.ULE(ts, 8)))
            b = z3.BitVec('block_indent', 64)
            a = z3.BitVec('alignment', 64)
            if hard_tabs:
                st.assume(z3.And(z3.ULE(b, 16), z3.ULE(a, 8), z3.URem(b, ts) == 0))
            else:
                st.assume(z3.ULE(b + a, 86))
                st.assume(z3.And(z3.ULE(b, 86), z3.ULE(a, 86)))
            ind = eng.ref_to(st, Tup([BV(b, 'usize'), BV(a, 'usize')], 'Indent'), False)
            outs = ctx.check_outcomes(eng.run(fn, [ind, cfgref], st), 'Indent::' + meth)
            mv = [b, a, ts]
            tag = 'Indent::%s/%s' % (meth, 'hard_tabs' if hard_tabs else 'spaces')
            log('[C08] %s: %d paths' % (tag, len(outs)))
            for pi, o in enumerate(outs):
                if o.kind != 'ret':
                    ctx.prop('%s/p%d/no-panic' % (tag, pi), o.state.pc, z3.BoolVal(True), mv, rp, twin=False)
                    continue
                v = deref(eng, o.state, o.value)
                ntabs = z3.UDiv(b, ts) if hard_tabs else z3.BitVecVal(0, 64)
                nspaces = a if hard_tabs else b + a
                if isinstance(v, Tup) and v.name == 'StrSlice':
                    base, s0, s1 = v.items
                    okbase = isinstance(base, StrVal) and base.s == '\n' + ' ' * 80
                    # slice [s0, s1) of "\n" + 80 spaces: a newline iff s0 == 0, then spaces
                    wrong = z3.Or(z3.BoolVal(not okbase), ntabs != 0, s0.e != offset, s1.e != nspaces + 1)
                    ctx.prop('%s/p%d/buffer-slice-is-[newline]+spaces' % (tag, pi), o.state.pc, wrong, mv, rp)
                elif isinstance(v, Seq):
                    chars = [c.concrete() for c in v.items]
                    exp_nl = 1 if offset == 0 else 0
                    k = 0
                    if exp_nl and (not chars or chars[0] != 10):
                        ctx.prop('%s/p%d/starts-with-newline' % (tag, pi), o.state.pc, z3.BoolVal(True), mv, rp, twin=False)
                        continue
                    rest = chars[exp_nl:]
                    nt = 0
                    while nt < len(rest) and rest[nt] == 9:
                        nt += 1
                    ns = len(rest) - nt
                    shape_ok = all(c == 32 for c in rest[nt:])
                    wrong = z3.Or(z3.BoolVal(not shape_ok), ntabs != nt, nspaces != ns)
                    if not hard_tabs:
                        wrong = z3.Or(wrong, z3.BoolVal(nt != 0))
                    ctx.prop('%s/p%d/built-string-is-[newline]+tabs+spaces' % (tag, pi), o.state.pc, wrong, mv, rp, twin=False)
                else:
                    raise Inconclusive('Indent::%s returned %r' % (meth, v))
    ctx.cover('cover/indent-wider-than-the-80-column-buffer', [z3.BoolVal(True)])


# ======================================================================================= (d) newline style

def part_newline(ctx, eng):
    rp = make_replay(ctx)
    NS = 'src/formatting/newline_style.rs'
    # -- Windows conversion: one loop iteration from the loop head, arbitrary current / next characters
    cw = eng.find('convert_to_windows_newlines', free=True)
    fn = eng.get_fn(cw)
    from mirsym.mirparse import block_parsed
    head = None
    for bb, blk in fn.blocks.items():
        _, term = block_parsed(blk)
        if term[0] == 'call' and term[2][0] == 'path':
            mm = re.search(r'Peekable<.*(Chars|Bytes)<.*>> as (std::iter::)?Iterator>::next$', term[2][1])
            if mm:
                head, unit = bb, mm.group(1)
    if head is None:
        # not a character / byte scanning loop: the whole function is run over symbolic short texts instead
        ctx.notes.append('convert_to_windows_newlines has no character-scanning loop: decided as a whole function over texts of up to %d characters' % (3 if ctx.tier == 'quick' else 4))
        part_windows_whole(ctx, eng, cw, rp, 3 if ctx.tier == 'quick' else 4)
        return part_newline_rest(ctx, eng, rp)
    # the scan may run over the characters or over the UTF-8 bytes of the text; the harness follows the code's choice
    ety, ebits = ('char', 32) if unit == 'Chars' else ('u8', 8)
    if unit == 'Bytes':
        ctx.notes.append('convert_to_windows_newlines scans bytes: the step is specified on the UTF-8 bytes of the text')
    cur = BV(z3.BitVec('current', ebits), ety)
    nxt = BV(z3.BitVec('next', ebits), ety)
    has_next = z3.Bool('has_next')

    def pk_next(eng_, st_, args, ci):
        it = eng_.read_ref(st_, args[0])
        if it.items[0].concrete() == 0:
            eng_.write_ref(st_, args[0], Tup([bv_const(1, 'usize')], 'PeekChars'))
            return some(cur)
        return NONE
    eng.stub(r'Peekable<.*(Chars|Bytes)<.*>> as (std::iter::)?Iterator>::next$', pk_next, 'Peekable<Chars|Bytes>::next: yields the current element, then ends (one-step harness)')

    def pk_peek(eng_, st_, args, ci):
        cell = eng_.ref_to(st_, nxt, False, 'peeked')
        return Enum('Option', z3.If(has_next, z3.BitVecVal(1, 64), z3.BitVecVal(0, 64)), {1: Tup([cell])})
    eng.stub(r'Peekable::<.*(Chars|Bytes)<.*>>::peek$', pk_peek, 'Peekable<Chars|Bytes>::peek: the next element, if any')

    def opt_eq(eng_, st_, args, ci):
        x, y = deref(eng_, st_, args[0]), deref(eng_, st_, args[1])
        both_some = z3.And(x.discr == 1, y.discr == 1)
        xv = deref(eng_, st_, x.payloads[1].items[0]) if 1 in x.payloads else None
        yv = deref(eng_, st_, y.payloads[1].items[0]) if 1 in y.payloads else None
        inner = (xv.e == yv.e) if (xv is not None and yv is not None) else z3.BoolVal(False)
        r = z3.Or(z3.And(x.discr == 0, y.discr == 0), z3.And(both_some, inner))
        return r if ci.func.endswith('::eq') else z3.Not(r)
    eng.stub(r'^<(std::option::)?Option<&(char|u8)> as (std::cmp::)?PartialEq>::(eq|ne)$', opt_eq, 'Option<&char|&u8> == Option<&char|&u8>')
    eng.stub(r'^<char as (std::convert::)?From<u8>>::from$', lambda e, s_, a, c: BV(z3.ZeroExt(24, a[0].e), 'char'), 'char::from(u8) = the scalar value with that number')

    def push_str(eng_, st_, args, ci):
        v = eng_.read_ref(st_, args[0])
        sv = deref(eng_, st_, args[1])
        if not (isinstance(v, Seq) and isinstance(sv, StrVal) and sv.s is not None):
            raise Unsupported('push_str %r %r' % (v, sv))
        eng_.write_ref(st_, args[0], Seq(v.items + tuple(bv_const(ord(ch), 'char') for ch in sv.s)))
        return UNIT
    eng.stub(r'String::push_str$', push_str, 'String::push_str of a constant')
    st = State()
    for c_ in (cur, nxt):
        if ety == 'char':
            st.assume(z3.And(z3.ULE(c_.e, 0x10FFFF), z3.Or(z3.ULT(c_.e, 0xD800), z3.UGT(c_.e, 0xDFFF))))
    # the two loop-carried variables, found by type (their names are the author's business)
    it_var = [n for n, idx in fn.debug.items() if 'Peekable<' in str(fn.locals.get(idx, ''))]
    out_var = [n for n, idx in fn.debug.items() if re.fullmatch(r'(std::string::)?String', str(fn.locals.get(idx, '')))]
    if len(it_var) != 1 or len(out_var) != 1:
        raise Inconclusive('convert_to_windows_newlines: loop-carried variables not identified (%r, %r)' % (it_var, out_var))
    locs = {out_var[0]: Seq([]), it_var[0]: Tup([bv_const(0, 'usize')], 'PeekChars')}
    outs = ctx.check_outcomes(eng.run_from(cw, head, locs, st), 'convert_to_windows_newlines step')
    mv = [cur.e, nxt.e, has_next]
    for pi, o in enumerate(outs):
        if o.kind != 'ret':
            ctx.prop('windows/p%d/no-panic' % pi, o.state.pc, z3.BoolVal(True), mv, rp, twin=False)
            continue
        out = deref(eng, o.state, o.value)
        if not isinstance(out, Seq):
            raise Inconclusive('convert_to_windows result %r' % (out,))
        chars = [c.e for c in out.items]
        LF, CR = 10, 13
        cur32 = cur.e if ety == 'char' else z3.ZeroExt(24, cur.e)
        # in byte mode an element is one byte of the text: a pushed char reproduces it only if it is that byte and encodes as one byte
        same = (lambda c_: c_ == cur32) if ety == 'char' else (lambda c_: z3.And(c_ == cur32, z3.ULT(c_, 0x80)))
        # every emitted '\n' is preceded by '\r'
        bad = []
        for i, c_ in enumerate(chars):
            bad.append(z3.And(c_ == LF, (chars[i - 1] != CR) if i > 0 else z3.BoolVal(True)))
        ctx.prop('windows/p%d/every-emitted-LF-is-preceded-by-CR' % pi, o.state.pc, z3.Or(bad) if bad else z3.BoolVal(False), mv, rp)
        # content preservation up to terminators: LF -> CRLF, CR directly before LF dropped, anything else unchanged
        is_crlf = z3.BoolVal(len(chars) == 2) if len(chars) == 2 else z3.BoolVal(False)
        want_lf = z3.And(cur.e == LF, z3.BoolVal(len(chars) == 2), *( [chars[0] == CR, chars[1] == LF] if len(chars) == 2 else [z3.BoolVal(False)]))
        want_drop = z3.And(cur.e == CR, has_next, nxt.e == LF, z3.BoolVal(len(chars) == 0))
        want_keep = z3.And(cur.e != LF, z3.Not(z3.And(cur.e == CR, has_next, nxt.e == LF)), z3.BoolVal(len(chars) == 1), *([same(chars[0])] if len(chars) == 1 else [z3.BoolVal(False)]))
        ctx.prop('windows/p%d/changes-nothing-but-terminators' % pi, o.state.pc, z3.Not(z3.Or(want_lf, want_drop, want_keep)), mv, rp)
    eng.stubs = []
    # in addition to the one-step harness: the whole function over symbolic short texts (composition of the steps, first and last iteration)
    mark = len(ctx.obls)
    try:
        part_windows_whole(ctx, eng, cw, rp, 3 if ctx.tier == 'quick' else 4)
    except (Unsupported, Inconclusive) as e_:
        del ctx.obls[mark:]
        eng.stubs = []
        ctx.notes.append('convert_to_windows_newlines as a whole function: not executable here (%s); the one-step harness decides' % str(e_)[:100])
    part_newline_rest(ctx, eng, rp)


def replay_windows_text(model, r):
    """the text of the counterexample is put inside a raw string literal (copied verbatim by the formatter): the Windows output must be the Unix
    output with every LF replaced by CR LF"""
    bins = ensure_bins()
    rf = os.path.join(bins, 'rustfmt')
    d = os.path.join(BUILD, 'scratch', 'c08w-%d' % os.getpid())
    shutil.rmtree(d, ignore_errors=True)
    os.makedirs(d)
    ks = sorted((int(k[1:]), v) for k, v in (model or {}).items() if re.fullmatch(r't\d+', k) and isinstance(v, int))
    texts = []
    if ks:
        t = ''.join(chr(v) if (v in (9, 10, 32) or (33 <= v < 127 and chr(v) not in '"#\\')) else 'x' for _, v in ks)
        texts.append(t)
    texts += ['a \nb', 'a\t\n', ' \n \n', 'a\n\nb  \n']
    found = []
    for t in texts:
        src = 'fn main() {\n    let s = r#"A%sB"#;\n}\n' % t
        p_ = os.path.join(d, 'x.rs')
        open(p_, 'w', newline='').write(src)
        outs = {}
        for style in ('Unix', 'Windows'):
            pr = subprocess.run([rf, '--emit', 'stdout', '--quiet', '--config', 'newline_style=%s' % style, p_], capture_output=True, env=run_env(), timeout=60, cwd=d)
            outs[style] = pr.stdout
        if outs['Windows'] != outs['Unix'].replace(b'\n', b'\r\n'):
            found.append('text %r inside a raw string: the Windows output is not the Unix output with CR LF terminators (%r vs %r)' % (t, outs['Windows'][:80], outs['Unix'][:80]))
    shutil.rmtree(d, ignore_errors=True)
    return {'reproduced': bool(found), 'detail': found[:3]}


def part_windows_whole(ctx, eng, cw, rp, N):
    """convert_to_windows_newlines over symbolic ASCII texts of every length 0..N (strmodel.py): the result is the text with every LF replaced by
    CR LF and a CR directly before an LF dropped, nothing else changed - compared per path and per feasible classification of the characters."""
    import strmodel
    LF, CR = 10, 13
    nob = 0
    for n in range(0, N + 1):
        eng.stubs = []
        M = strmodel.Model(eng)
        M.install()
        text = strmodel.sym_text(n)
        st = State()
        for f in strmodel.ascii_facts(text):
            st.assume(f)
        arg = eng.ref_to(st, text, False, 'formatted_text')
        outs = ctx.check_outcomes(eng.run(cw, [arg], st), 'convert_to_windows_newlines(whole)')
        cs = list(text.items)
        mv = [c.e for c in cs]
        for pi, o in enumerate(outs):
            tag = 'windows-whole/n%d/p%d' % (n, pi)
            if o.kind != 'ret':
                ctx.prop(tag + '/no-panic', o.state.pc, z3.BoolVal(True), mv, rp, twin=False)
                continue
            out = deref(eng, o.state, o.value)
            if not isinstance(out, Seq):
                raise Inconclusive('convert_to_windows_newlines returned %r' % (out,))
            got = [c.e for c in out.items]
            base = o.state.fork()
            for (s1, lf) in M.fork_mask(eng, base, cs, lambda ch: ch.e == LF):
                for (s2, cr) in M.fork_mask(eng, s1.fork(), cs, lambda ch: ch.e == CR):
                    exp = []
                    for i, ch in enumerate(cs):
                        if lf[i]:
                            exp += [z3.BitVecVal(CR, 32), z3.BitVecVal(LF, 32)]
                        elif cr[i] and i + 1 < n and lf[i + 1]:
                            pass
                        else:
                            exp.append(ch.e)
                    same = z3.And([g == x for g, x in zip(got, exp)]) if len(got) == len(exp) else z3.BoolVal(False)
                    if len(got) == len(exp) == 0:
                        same = z3.BoolVal(True)
                    nob += 1
                    ctx.prop(tag + '/c%d/changes-nothing-but-terminators' % nob, s2.pc, z3.Not(same), mv, replay_windows_text, twin=False)
        eng.stubs = []
    if not nob:
        raise Inconclusive('convert_to_windows_newlines(whole): nothing explored')


def part_newline_rest(ctx, eng, rp):
    NS = 'src/formatting/newline_style.rs'

    # -- Unix conversion = str::replace(CRLF, LF); decided with the solver's string theory on bounded strings
    cu = eng.find('convert_to_unix_newlines', free=True)
    calls = []

    def replace_stub(eng_, st_, args, ci):
        a1, a2 = deref(eng_, st_, args[1]), deref(eng_, st_, args[2])
        st_.trace.append(('replace', args[0], a1, a2))
        return Tup([args[0], a1, a2], 'Replaced')
    eng.stub(r'<impl str>::replace::<', replace_stub, 'str::replace(from, to) observed')
    st = State()
    inp = eng.fresh_str('formatted')
    outs = ctx.check_outcomes(eng.run(cu, [inp], st), 'convert_to_unix_newlines')
    for pi, o in enumerate(outs):
        v = deref(eng, o.state, o.value) if o.kind == 'ret' else None
        ok = isinstance(v, Tup) and v.name == 'Replaced' and isinstance(v.items[1], StrVal) and v.items[1].s == '\r\n' and isinstance(v.items[2], StrVal) and v.items[2].s == '\n' \
            and isinstance(deref(eng, o.state, v.items[0]), StrVal) and deref(eng, o.state, v.items[0]).e is not None and deref(eng, o.state, v.items[0]).e.eq(inp.e)
        ctx.prop('unix/p%d/is-replace(CRLF,LF)-of-the-whole-text' % pi, o.state.pc, z3.BoolVal(not ok), [], rp, twin=False)
    eng.stubs = []
    N = 5 if ctx.tier == 'quick' else 8
    s = z3.String('text')
    CRLF, LFs = z3.StringVal('\r\n'), z3.StringVal('\n')
    rep = z3.Function('str.replace_all', z3.StringSort(), z3.StringSort(), z3.StringSort(), z3.StringSort())
    # z3's Python API has no replace_all wrapper in every version: build the term through the SMT-LIB parser
    q = z3.parse_smt2_string('(declare-const text String)(assert (str.contains (str.replace_all text "\\u{d}\\u{a}" "\\u{a}") "\\u{d}\\u{a}"))(assert (<= (str.len text) %d))' % N)
    kf = 'C08/newline_style/Unix/CR-CR-LF-leaves-a-CRLF'
    cls = z3.parse_smt2_string('(declare-const text String)(assert (str.contains text "\\u{d}\\u{d}\\u{a}"))')
    ctx.prop('unix/output-contains-no-CRLF(strings<=%d)' % N, [], z3.And(list(q)), [], make_replay(ctx, 'unix'), classes=[(kf, z3.And(list(cls)))], twin=False)
    q2 = z3.parse_smt2_string('(declare-const text String)(assert (not (= (str.replace_all (str.replace_all text "\\u{d}\\u{a}" "\\u{a}") "\\u{d}\\u{a}" "\\u{a}") (str.replace_all text "\\u{d}\\u{a}" "\\u{a}"))))'
                              '(assert (<= (str.len text) %d))(assert (not (str.contains text "\\u{d}\\u{d}\\u{a}")))' % N)
    ctx.prop('unix/idempotent-outside-the-known-class(strings<=%d)' % N, [], z3.And(list(q2)), [], make_replay(ctx, 'unix'), twin=False)

    # -- Auto: the style of the first terminator of the raw input
    ad = eng.find('auto_detect_newline_style', free=True)
    eng.lenient = True
    eng.inline_only = [re.compile(r'newline_style')]
    pos_some = z3.Bool('raw_has_LF')
    pos = z3.BitVec('first_LF_index', 64)
    raw_at = z3.Function('raw_char_at', z3.BitVecSort(64), z3.BitVecSort(32))

    def position_stub(eng_, st_, args, ci):
        st_.trace.append(('position',))
        return Enum('Option', z3.If(pos_some, z3.BitVecVal(1, 64), z3.BitVecVal(0, 64)), {1: Tup([BV(pos, 'usize')])})
    eng.stub(r'Chars<.*> as (std::iter::)?Iterator>::position::<', position_stub, 'raw.chars().position(is LF) = index of the first LF, if any (symbolic)')

    def nth_stub(eng_, st_, args, ci):
        k = args[1].e
        return Enum('Option', 1, {1: Tup([BV(raw_at(k), 'char')])})
    eng.stub(r'Chars<.*> as (std::iter::)?Iterator>::nth$', nth_stub, 'raw.chars().nth(k) = the k-th character (uninterpreted function of k)')
    eng.stub(r'<impl str>::chars$', lambda e, s_, a, c: Opaque('Chars', 'raw'), 'str::chars')
    st = State()
    st.assume(z3.ULT(pos, LIM))
    st.assume(raw_at(pos) == 10)
    raw = eng.fresh_str('raw')
    outs = ctx.check_outcomes(eng.run(ad, [raw], st), 'auto_detect_newline_style')
    ev = eng.enum_variants('EffectiveNewlineStyle')
    auto_paths = []
    for pi, o in enumerate(outs):
        if o.kind != 'ret':
            continue
        r = o.value
        win = r.discr == ev.index('Windows')
        want_win = z3.And(pos_some, z3.UGE(pos, 1), raw_at(pos - 1) == 13)
        # with no LF at all the native style is used (cfg!(windows)); only the Some case is constrained
        ctx.prop('auto/p%d/style-of-the-first-terminator' % pi, o.state.pc + [pos_some], win != want_win, [pos, pos_some], rp, twin=False)
        auto_paths.append(z3.And(o.state.pc + [pos_some]))
    ctx.cover('cover/auto-detect-with-a-line-feed', [z3.Or(auto_paths)])
    eng.stubs = []
    eng.lenient = False
    eng.inline_only = None


# ======================================================================================= (e) leading blank lines are skipped

def part_leading_blank(ctx, eng):
    rp = make_replay(ctx)
    sel = eng.find('skip_empty_lines', self_ty='FmtVisitor', file='src/visitor.rs')
    eng.lenient = True
    eng.inline_only = [re.compile(r'skip_empty_lines')]
    from mirsym.engine import StrSort
    all_ws = z3.Function('is_all_whitespace', StrSort, z3.BoolSort())
    snippet = eng.fresh_str('snippet')
    pos = BV(z3.BitVec('pos_after_newline', 32), 'u32')

    def span_after(eng_, st_, args, ci):
        k = len([t for t in st_.trace if t[0] == 'span_after'])
        st_.trace.append(('span_after', k))
        if k == 0:
            return some(Tup([pos], 'BytePos'))
        return NONE
    eng.stub(r'opt_span_after', span_after, 'SnippetProvider::opt_span_after: one newline found, then none (one-step harness)')
    eng.stub(r'opt_snippet$', lambda e, s_, a, c: some(snippet), 'FmtVisitor::opt_snippet = the text up to that newline (symbolic)')
    eng.stub(r'<impl str>::trim$', lambda e, s_, a, c: Tup([deref(e, s_, a[0])], 'Trimmed'), 'str::trim = structure')

    def is_empty(eng_, st_, args, ci):
        v = deref(eng_, st_, args[0])
        if isinstance(v, Tup) and v.name == 'Trimmed':
            return all_ws(str_expr(v.items[0]))
        if isinstance(v, StrVal):
            return str_expr(v) == str_expr(StrVal(s=''))
        raise Unsupported('is_empty on %r' % (v,))
    eng.stub(r'<impl str>::is_empty$', is_empty, 'trimmed.is_empty() = the text is all whitespace (uninterpreted predicate)')
    st = State()
    st.assume(all_ws(str_expr(StrVal(s='\n'))))
    st.assume(all_ws(str_expr(StrVal(s=''))))
    vis = Opaque('FmtVisitor', 'visitor')
    lp_idx = eng.src.field_index('FmtVisitor', 'last_pos', 'src/visitor.rs')
    old = Tup([BV(z3.BitVec('last_pos', 32), 'u32')], 'BytePos')
    st.notes[('lazy', vis.ident, lp_idx)] = old
    selfref = eng.ref_to(st, vis, True)
    endp = Tup([BV(z3.BitVec('end_pos', 32), 'u32')], 'BytePos')
    st.assume(pos.e != old.items[0].e)
    outs = ctx.check_outcomes(eng.run(sel, [selfref, endp], st), 'skip_empty_lines')
    for pi, o in enumerate(outs):
        if o.kind != 'ret':
            continue
        after = eng.read_ref(o.state, selfref)
        lp = o.state.notes.get(('lazy', after.ident, lp_idx))
        if not (isinstance(lp, Tup) and lp.items and isinstance(lp.items[0], BV)):
            raise Inconclusive('last_pos after skip_empty_lines: %r' % (lp,))
        advanced = lp.items[0].e == pos.e
        ctx.prop('skip_empty_lines/p%d/a-leading-line-is-skipped-iff-it-is-all-whitespace' % pi, o.state.pc, advanced != all_ws(snippet.e), [], rp)
    eng.stubs = []
    eng.lenient = False
    eng.inline_only = None


def replay_leading_text(model, r):
    """the model's text in front of an item / a comment, as a file and as an out-of-line module: the emitted text must not start with a blank line"""
    ks = sorted((int(k[4:]), v) for k, v in (model or {}).items() if re.fullmatch(r'lead\d+', k) and isinstance(v, int))
    text = ''
    for _, v in ks:                      # the white-space prefix of the model's text; what follows it is one of the tails below
        if v not in (9, 10, 11, 12, 13, 32):
            break
        text += chr(v)
    bins = ensure_bins()
    rf = os.path.join(bins, 'rustfmt')
    d = os.path.join(BUILD, 'scratch', 'c08lead-%d' % os.getpid())
    shutil.rmtree(d, ignore_errors=True)
    os.makedirs(d)
    found = []
    for tail in ('fn a() {}\n', '// first\nfn a() {}\n', '#![allow(x)]\nfn a() {}\n'):
        p = os.path.join(d, 'x.rs')
        with open(p, 'w', newline='', encoding='utf-8') as f:
            f.write(text + tail)
        res = subprocess.run([rf, '--emit', 'stdout', '--quiet', p], capture_output=True, env=run_env(), timeout=60, cwd=d)
        out = res.stdout.decode('utf-8', 'replace')
        if res.returncode == 0 and out and (out[0] in '\n\r \t'):
            found.append('leading text %r before %r: the output starts with %r' % (text, tail[:12], out[:12]))
    shutil.rmtree(d, ignore_errors=True)
    return {'reproduced': bool(found), 'detail': found[:3]}


def part_leading_blank_whole(ctx, eng, N):
    """skip_empty_lines as a whole function over symbolic ASCII texts of every length 0..N standing between the cursor and `end_pos`
    (strmodel.py; the snippet provider = slices of that text): afterwards the cursor stands behind the last line feed of the maximal
    all-whitespace prefix - every leading blank line is skipped and nothing else."""
    import strmodel
    sel = eng.find('skip_empty_lines', self_ty='FmtVisitor', file='src/visitor.rs')
    BASE = 100
    nob = 0
    lp_idx = eng.src.field_index('FmtVisitor', 'last_pos', 'src/visitor.rs')
    for n in range(0, N + 1):
        eng.stubs = []
        eng.lenient = True
        eng.inline_only = [re.compile(r'skip_empty_lines|FmtVisitor::<.*>::next_span$|::next_span$')]
        M = strmodel.Model(eng)
        M.install()
        text = strmodel.sym_text(n, 'lead')
        cs = list(text.items)

        def off(eng_, st_, v, what):
            v = deref(eng_, st_, v)
            if not (isinstance(v, Tup) and len(v.items) == 1 and isinstance(v.items[0], BV)):
                raise Unsupported('%s: not a BytePos: %r' % (what, v))
            k = eng_.concrete_under(st_, v.items[0])
            if k is None:
                raise Unsupported('%s: position not determined on the path' % what)
            return k - BASE

        def span_of(eng_, st_, sp, what):
            if not (isinstance(sp, Tup) and sp.name == 'Span2'):
                raise Unsupported('%s of %r' % (what, sp))
            lo, hi = off(eng_, st_, sp.items[0], what), off(eng_, st_, sp.items[1], what)
            if not (0 <= lo <= hi <= n):
                return None
            return lo, hi

        def span_after(eng_, st_, args, ci):
            pat = deref(eng_, st_, args[2])
            if not (isinstance(pat, StrVal) and pat.s == '\n'):
                raise Unsupported('opt_span_after(%r)' % (pat,))
            r_ = span_of(eng_, st_, args[1], 'opt_span_after')
            if r_ is None:
                return NONE
            lo, hi = r_
            res, live = [], [st_]
            for i in range(lo, hi):
                nxt = []
                p = cs[i].e == 10
                for s1 in live:
                    t_ok, f_ok = eng_.feasible(s1, p), eng_.feasible(s1, z3.Not(p))
                    if t_ok and f_ok:
                        s2 = s1.fork()
                        s2.assume(z3.Not(p))
                        s1.assume(p)
                        res.append((s1, 'ret', some(Tup([bv_const(BASE + i + 1, 'u32')], 'BytePos'))))
                        nxt.append(s2)
                    elif t_ok:
                        res.append((s1, 'ret', some(Tup([bv_const(BASE + i + 1, 'u32')], 'BytePos'))))
                    else:
                        nxt.append(s1)
                live = nxt
            for s1 in live:
                res.append((s1, 'ret', NONE))
            return res

        def opt_snippet(eng_, st_, args, ci):
            r_ = span_of(eng_, st_, args[1], 'opt_snippet')
            if r_ is None:
                return NONE
            return some(Seq(cs[r_[0]:r_[1]]))

        def bp_val(eng_, st_, v):
            v = deref(eng_, st_, v)
            if isinstance(v, Tup) and len(v.items) == 1 and isinstance(v.items[0], BV):
                return v.items[0].e
            raise Unsupported('BytePos operand %r' % (v,))

        def bp_arith(eng_, st_, args, ci):
            a, b = bp_val(eng_, st_, args[0]), bp_val(eng_, st_, args[1])
            return Tup([BV(a + b if ci.func.endswith('add') else a - b, 'u32')], 'BytePos')

        def bp_cmp(eng_, st_, args, ci):
            a, b = bp_val(eng_, st_, args[0]), bp_val(eng_, st_, args[1])
            op = ci.func.rsplit('::', 1)[1]
            return {'eq': a == b, 'ne': a != b, 'lt': z3.ULT(a, b), 'le': z3.ULE(a, b), 'gt': z3.UGT(a, b), 'ge': z3.UGE(a, b)}[op]
        eng.stub(r'opt_span_after$', span_after, 'SnippetProvider::opt_span_after(span, "\\n") = the position behind the first line feed of the text in the span (forks on it)')
        eng.stub(r'opt_snippet$', opt_snippet, 'FmtVisitor::opt_snippet(span) = that slice of the symbolic text')
        eng.stub(r'^utils::mk_sp$|::mk_sp$', lambda e, s_, a, c: Tup([a[0], a[1]], 'Span2'), 'mk_sp(lo, hi) = the pair')
        eng.stub(r'^<BytePos as (std::ops::)?(Add|Sub)>::(add|sub)$', bp_arith, 'BytePos + / - BytePos on the u32 inside (wrapping like the release build of rustc_span)')
        eng.stub(r'^<BytePos as Partial(Eq|Ord)>::(eq|ne|lt|le|gt|ge)$', bp_cmp, 'BytePos comparisons on the u32 inside')
        eng.stub(r'<BytePos as (rustc_span::)?Pos>::from_usize$', lambda e, s_, a, c: Tup([BV(z3.Extract(31, 0, a[0].e), 'u32')], 'BytePos'), 'BytePos::from_usize = truncation')
        eng.stub(r'<BytePos as (rustc_span::)?Pos>::to_usize$', lambda e, s_, a, c: BV(z3.ZeroExt(32, bp_val(e, s_, a[0])), 'usize'), 'BytePos::to_usize')
        st = State()
        for f in strmodel.ascii_facts(text):
            st.assume(f)
        vis = Opaque('FmtVisitor', 'visitor')
        st.notes[('lazy', vis.ident, lp_idx)] = Tup([bv_const(BASE, 'u32')], 'BytePos')
        selfref = eng.ref_to(st, vis, True)
        endp = Tup([bv_const(BASE + n, 'u32')], 'BytePos')
        outs = ctx.check_outcomes(eng.run(sel, [selfref, endp], st), 'skip_empty_lines(whole)')
        mv = [c.e for c in cs]

        for pi, o in enumerate(outs):
            tag = 'skip_empty_lines-whole/n%d/p%d' % (n, pi)
            if o.kind != 'ret':
                ctx.prop(tag + '/no-panic', o.state.pc, z3.BoolVal(True), mv, replay_leading_text, twin=False)
                continue
            after = eng.read_ref(o.state, selfref)
            lp = o.state.notes.get(('lazy', after.ident, lp_idx))
            if not (isinstance(lp, Tup) and lp.items and isinstance(lp.items[0], BV)):
                raise Inconclusive('last_pos after skip_empty_lines: %r' % (lp,))
            # reference: j = length of the maximal white-space prefix; the cursor stands behind the last line feed among those j characters
            is_ws = [z3.Or([c.e == w for w in strmodel.WS]) for c in cs]
            exp = z3.BitVecVal(BASE, 32)
            prefix_ws = z3.BoolVal(True)
            for i in range(n):
                prefix_ws = z3.And(prefix_ws, is_ws[i])
                exp = z3.If(z3.And(prefix_ws, cs[i].e == 10), z3.BitVecVal(BASE + i + 1, 32), exp)
            nob += 1
            ctx.prop(tag + '/the-cursor-stands-behind-the-last-leading-blank-line', o.state.pc, lp.items[0].e != exp, mv, replay_leading_text, twin=False)
        eng.stubs = []
    eng.lenient = False
    eng.inline_only = None
    if not nob:
        raise Inconclusive('skip_empty_lines(whole): nothing explored')
    ctx.bounds['skip_empty_lines (whole function)'] = 'ASCII texts of every length 0..%d between the cursor and end_pos; cursor at source-map offset %d (concrete: the code only adds to it)' % (N, BASE)


# ======================================================================================= (f) nothing is emitted for the leading whitespace of a file
KF_LEAD ='C08/leading-whitespace/format_missing-emits-a-newline-before-the-first-token'


def part_leading_whitespace(ctx, eng):
    """format_missing_{with,no}_indent(end) with nothing emitted yet (buffer empty) and only whitespace between the start of the *file*
    and `end` must push no newline: else the emitted text starts with a blank line. Positions are symbolic: the file may start
    anywhere in the source map (out-of-line modules), the visitor's cursor anywhere in the leading whitespace (skip_empty_lines
    moves it past all-blank lines)."""
    rp = make_replay(ctx, 'leading')
    fmi = eng.find('format_missing_indent', self_ty='FmtVisitor', file='src/missed_spans.rs')
    eng.lenient = True
    eng.inline_only = [re.compile(r'src/config/config_type\.rs'), re.compile(r'Config::'), re.compile(r'format_missing_indent|format_missing_inner|push_vertical_spaces|output_at_start')]
    ws = z3.Function('all_whitespace', z3.BitVecSort(32), z3.BitVecSort(32), z3.BoolSort())     # the source text in [lo, hi) is all whitespace
    file_start, start, end = z3.BitVecs('file_start cursor end', 32)
    nl = z3.BitVec('newlines_in_missing_text', 64)

    def mk_sp(eng_, st_, args, ci):
        return Tup([args[0], args[1]], 'Span2')

    def snippet(eng_, st_, args, ci):
        sp = args[1]
        if not (isinstance(sp, Tup) and sp.name == 'Span2'):
            raise Unsupported('snippet of %r' % (sp,))
        return Tup([sp.items[0].items[0], sp.items[1].items[0]], 'Snippet')

    def s_len(eng_, st_, args, ci):
        v = deref(eng_, st_, args[0])
        if isinstance(v, Tup) and v.name == 'Snippet':
            return BV(z3.ZeroExt(32, v.items[1].e - v.items[0].e), 'usize')
        raise Unsupported('len of %r' % (v,))

    def s_trim(eng_, st_, args, ci):
        return Tup([deref(eng_, st_, args[0])], 'Trimmed')

    def s_is_empty(eng_, st_, args, ci):
        v = deref(eng_, st_, args[0])
        if isinstance(v, Tup) and v.name == 'Trimmed' and isinstance(v.items[0], Tup) and v.items[0].name == 'Snippet':
            sn = v.items[0]
            return ws(sn.items[0].e, sn.items[1].e)
        if isinstance(v, StrVal) and v.s is not None:
            return z3.BoolVal(v.s == '')
        if isinstance(v, Tup) and v.name == 'BufferString':
            return z3.BoolVal(not [t for t in st_.trace if t[0] == 'push_str'])
        raise Unsupported('is_empty on %r' % (v,))

    def push_str(eng_, st_, args, ci):
        st_.trace.append(('push_str', deref(eng_, st_, args[1])))
        return UNIT

    def trailing(eng_, st_, args, ci):
        if [t for t in st_.trace if t[0] == 'push_str']:
            raise Unsupported('trailing newline count after a push')
        return bv_const(0, 'usize')
    def bp(eng_, st_, v):
        v = deref(eng_, st_, v)
        if isinstance(v, Tup) and len(v.items) == 1 and isinstance(v.items[0], BV):
            return v.items[0].e
        raise Unsupported('BytePos operand %r' % (v,))

    def bp_cmp(eng_, st_, args, ci):
        a, b = bp(eng_, st_, args[0]), bp(eng_, st_, args[1])
        op = ci.func.rsplit('::', 1)[1]
        return {'eq': a == b, 'ne': a != b, 'lt': z3.ULT(a, b), 'le': z3.ULE(a, b), 'gt': z3.UGT(a, b), 'ge': z3.UGE(a, b)}[op]
    eng.stub(r'^<BytePos as Partial(Eq|Ord)>::(eq|ne|lt|le|gt|ge)$', bp_cmp, 'BytePos comparisons = unsigned comparison of the u32 inside (derived impls of rustc_span)')
    eng.stub(r'^utils::mk_sp$|::mk_sp$', mk_sp, 'mk_sp(lo, hi) = the pair')
    eng.stub(r'FmtVisitor::<.*>::snippet$', snippet, 'FmtVisitor::snippet(span) = the source text in [lo, hi) (named by its ends)')
    eng.stub(r'<impl str>::len$', s_len, 'snippet.len() = hi - lo')
    eng.stub(r'<impl str>::(trim|trim_end)$', s_trim, 'str::trim = structure')
    eng.stub(r'<impl str>::is_empty$|String::is_empty$', s_is_empty, 'trimmed.is_empty() = all_whitespace(lo, hi) (uninterpreted predicate); buffer.is_empty() = nothing pushed yet')
    eng.stub(r'count_newlines$', lambda e, s_, a, c: BV(nl, 'usize'), 'count_newlines(snippet) = symbolic')
    eng.stub(r'FmtVisitor::<.*>::push_str$', push_str, 'FmtVisitor::push_str observed')
    eng.stub(r'^<TakeWhile<Rev<Chars<.*>>, .*> as Iterator>::count$', trailing, 'trailing newlines of the (empty) buffer = 0')
    eng.stub(r'<impl str>::repeat$', lambda e, s_, a, c: Tup([deref(e, s_, a[0]), a[1]], 'Repeat'), 'str::repeat(s, n) = structure')
    eng.stub(r'FileLines::is_all$', lambda e, s_, a, c: z3.BoolVal(True), 'no --file-lines selection')
    eng.stub(r'SnippetProvider::start_pos$', lambda e, s_, a, c: Tup([BV(file_start, 'u32')], 'BytePos'), 'SnippetProvider::start_pos() = start of the file in the source map (symbolic)')
    eng.stub(r'Indent::to_string$', lambda e, s_, a, c: StrVal(s=''), 'block_indent is empty at the top level of a file')
    eng.stub(r'write_snippet', lambda e, s_, a, c: (s_.trace.append(('write_snippet',)), UNIT)[1], 'write_snippet observed (comments / code in the missing text)')
    for should_indent in (True, False):
        st = State()
        cfgref, cv = make_config(eng, st)
        upper, lower = cv['blank_lines_upper_bound'].e, cv['blank_lines_lower_bound'].e
        vis = Opaque('FmtVisitor', 'visitor')
        fields = [n for n, _ in eng.src.struct_fields('FmtVisitor', 'src/visitor.rs')]
        st.notes[('lazy', vis.ident, fields.index('config'))] = cfgref
        st.notes[('lazy', vis.ident, fields.index('last_pos'))] = Tup([BV(start, 'u32')], 'BytePos')
        st.notes[('lazy', vis.ident, fields.index('buffer'))] = Tup([], 'BufferString')
        selfref = eng.ref_to(st, vis, True)
        pre = [z3.ULE(file_start, start), z3.ULE(start, end), z3.ULT(end, 1 << 31), ws(file_start, end), ws(start, end), ws(end, end), ws(start, start),
               z3.ULT(upper, LIM), z3.ULT(lower, LIM), z3.ULE(lower, upper), z3.ULT(nl, LIM)]
        for a in pre:
            st.assume(a)
        outs = ctx.check_outcomes(eng.run(fmi, [selfref, Tup([BV(end, 'u32')], 'BytePos'), z3.BoolVal(should_indent)], st), 'format_missing_indent')
        mv = [file_start, start, end, nl, upper, lower]
        hint = [z3.ULT(x, 12) for x in mv]
        for pi, o in enumerate(outs):
            label = 'leading-whitespace/indent=%s/p%d' % (should_indent, pi)
            if o.kind != 'ret':
                ctx.prop(label + '/no-panic', o.state.pc, z3.BoolVal(True), mv, rp, twin=False, hint=hint)
                continue
            bad = []
            for t in o.state.trace:
                if t[0] == 'write_snippet':
                    bad.append(z3.BoolVal(True))
                if t[0] != 'push_str':
                    continue
                v = t[1]
                if isinstance(v, Tup) and v.name == 'Repeat' and isinstance(v.items[0], StrVal) and v.items[0].s == '\n':
                    bad.append(v.items[1].e != 0)
                elif isinstance(v, StrVal) and v.s is not None:
                    bad.append(z3.BoolVal('\n' in v.s))
                elif isinstance(v, Tup) and v.name == 'Trimmed':
                    bad.append(z3.BoolVal(False))         # trim_end of the empty last snippet
                else:
                    bad.append(z3.BoolVal(True))
            viol = z3.Or(bad) if bad else z3.BoolVal(False)
            # open class: the cursor or the file is not at source-map position 0 (the guard in the code compares with BytePos(0))
            ctx.prop(label + '/no-newline-is-emitted-before-the-first-token', o.state.pc, viol, mv, rp, classes=[(KF_LEAD, z3.Or(start != 0, file_start != 0))], hint=hint)
    eng.stubs = []
    eng.lenient = False
    eng.inline_only = None


# ======================================================================================= (g) newline_style = Auto, from the input file to the emitted text
KF_AUTO = 'C08/newline_style/Auto/detects-on-the-newline-normalised-text-of-the-source-map'


def part_auto_end_to_end(ctx, eng):
    """(1) data flow, real MIR of format_file + ParseSess::snippet_provider: the `raw_input_text` handed to apply_newline_style is the
    `src` text of the rustc SourceFile that lookup_char_pos returns. (2) environment contract, validated natively on every run through
    the replay driver: SourceFile.src = the file's text with every CR LF replaced by LF. (3) with (1), (2) and the detector's
    specification proved in part (d), the solver's string theory decides: first terminator of the input is CR LF => Windows."""
    rp = make_replay(ctx, 'auto')
    name = eng.find('format_file', self_ty='FormatContext', file='src/formatting.rs')
    fn = eng.get_fn(name)
    eng.stubs = []
    eng.lenient = True
    eng.unsupported_as_outcome = True
    eng.inline_only = [re.compile(r'format_file$'), re.compile(r'snippet_provider$')]
    eng.stub(r'Arc<.*> as (std::clone::)?Clone>::clone$|Arc::<.*>::clone$', lambda e, s_, a, c: a[0], 'Arc::clone = the same pointee')
    eng.stub(r'SnippetProvider::new$', lambda e, s_, a, c: Tup([a[0], a[1], a[2]], 'SnippetProvider'), 'SnippetProvider::new = structure')

    def entire(e, s_, a, c):
        sp = deref(e, s_, a[0])
        if not (isinstance(sp, Tup) and sp.name == 'SnippetProvider'):
            raise Unsupported('entire_snippet of %r' % (sp,))
        return sp.items[2]
    eng.stub(r'SnippetProvider::entire_snippet$', entire, 'SnippetProvider::entire_snippet = big_snippet')

    def apply(e, s_, a, c):
        s_.trace.append(('apply_newline_style', a[0], a[2]))
        return UNIT
    eng.stub(r'apply_newline_style$', apply, 'apply_newline_style(style, buffer, raw_input_text): arguments observed')
    st = State()
    args = [eng.fresh_of_type(st, ty, 'a%d' % i) for i, (_, ty) in enumerate(fn.params)]
    eng.block_budget = 200000
    try:
        outs = ctx.check_outcomes(eng.run(name, args, st), 'format_file')
    finally:
        eng.block_budget = None
        eng.unsupported_as_outcome = False
    napply = 0
    for pi, o in enumerate(outs):
        calls = [t for t in o.state.trace if t[0] == 'apply_newline_style']
        if o.kind != 'ret':
            continue
        if len(calls) != 1:
            ctx.prop('auto-flow/p%d/newline-style-applied-exactly-once' % pi, o.state.pc, z3.BoolVal(True), [], rp, twin=False)
            continue
        napply += 1
        raw = calls[0][2]
        ok = False
        if isinstance(raw, Ref):
            root = o.state.store.get(raw.key)
            loc_files = [v for (k, v) in o.state.notes.items() if isinstance(k, tuple) and k[0] == 'lazy' and isinstance(v, Opaque) and 'SourceFile' in str(v.tag)]
            from_lookup = any(t[0] == 'call' and 'lookup_char_pos' in t[1] for t in o.state.trace)
            ok = (isinstance(root, Opaque) and 'SourceFile' in str(root.tag) and from_lookup and bool(loc_files)
                  and any(p_[0] == 'field' and len(p_) > 2 and re.search(r'Option<(std::sync::)?Arc<(std::string::)?String>>', str(p_[2])) for p_ in raw.projs))
        ctx.prop('auto-flow/p%d/raw_input_text-is-SourceFile.src-of-the-file-being-formatted' % pi, o.state.pc, z3.BoolVal(not ok), [], rp, twin=False)
    if napply == 0:
        ctx.inconclusive.append('auto-flow: no path of format_file applies the newline style')
    eng.stubs = []
    eng.lenient = False
    eng.inline_only = None
    # (2) the contract, natively
    r = ctx.replayer()
    for text, want in (('a\r\nb\r\r\nc\rd\n', 'a\nb\r\nc\rd\n'), ('\r\n', '\n'), ('x', 'x'), ('\n\r', '\n\r')):
        got = r.call({'op': 'source_file_src', 'text': text}).get('src')
        if got != want:
            raise Inconclusive('environment contract SourceFile.src = replace_all(CR LF -> LF) does not hold on this toolchain: %r -> %r' % (text, got))
    ctx.assumptions.append('rustc_span::SourceFile.src = the file text with every CR LF replaced by LF (checked natively on 4 texts each run)')
    # (3) composition in the string theory
    N = 4 if ctx.tier == 'quick' else 7
    # first LF of `inp` preceded by CR  <=>  want Windows; detector on src: first LF of src preceded by CR (part d)
    decl = '(declare-const inp String)(define-fun src () String (str.replace_all inp "\\u{d}\\u{a}" "\\u{a}"))' \
           '(define-fun i () Int (str.indexof inp "\\u{a}" 0))(define-fun j () Int (str.indexof src "\\u{a}" 0))' \
           '(define-fun wantwin () Bool (and (>= i 1) (= (str.at inp (- i 1)) "\\u{d}")))' \
           '(define-fun gotwin () Bool (and (>= j 1) (= (str.at src (- j 1)) "\\u{d}")))'
    q = z3.parse_smt2_string(decl + '(assert (<= (str.len inp) %d))(assert (>= i 0))(assert (not (= wantwin gotwin)))' % N)
    cls = z3.parse_smt2_string(decl + '(assert wantwin)')
    ctx.prop('auto/the-style-of-the-first-terminator-of-the-input-file(strings<=%d)' % N, [], z3.And(list(q)), [], rp,
             classes=[(KF_AUTO, z3.And(list(cls)))], twin=False)


# ----------------------------------------------------------------------------- native

def cli_findings():
    bins = ensure_bins()
    rf = os.path.join(bins, 'rustfmt')
    d = os.path.join(BUILD, 'scratch', 'c08-%d' % os.getpid())
    shutil.rmtree(d, ignore_errors=True)
    os.makedirs(d)
    found = {}

    def run(src, cfg):
        p = os.path.join(d, 'x.rs')
        with open(p, 'w', newline='', encoding='utf-8') as f:
            f.write(src)
        r = subprocess.run([rf, '--emit', 'stdout', '--quiet', '--config', cfg, p], capture_output=True, env=run_env(), timeout=60)
        out = r.stdout.decode('utf-8', 'replace')
        return out
    # blank-line clamp
    for ub in (0, 1, 2, 3):
        for lb in range(0, ub + 1):
            for gap in (0, 1, 2, 5):
                for src in ('fn a() {}\n' + '\n' * gap + 'fn b() {}\n', 'fn a() {}\n// c\n' + '\n' * gap + 'fn b() {}\n',
                            'use a::b;\n' + '\n' * gap + 'use c::{};\n' + '\n' * gap + 'use d::e;\n',
                            'use a::b;\n' + '\n' * gap + 'use c::{};\n' + '\n' * gap + 'use f::{};\n' + '\n' * gap + 'use d::e;\n'):
                    out = run(src, 'blank_lines_upper_bound=%d,blank_lines_lower_bound=%d' % (ub, lb))
                    runs = [len(m.group(0)) - 1 for m in re.finditer(r'\n{2,}', out)]
                    if any(x > ub for x in runs):
                        found.setdefault('other', []).append('upper=%d lower=%d gap=%d: %d blank lines in %r' % (ub, lb, gap, max(runs), out))
                    if out and (not out.endswith('\n') or out.endswith('\n\n')):
                        found.setdefault('other', []).append('final newline: %r' % out[-10:])
    # leading blank lines
    for lead in ('\n', '  \n', '\t\n\n', ' \n \n'):
        out = run(lead + '// first comment\nfn a() {}\n', 'max_width=100')
        if out.startswith('\n') or out.startswith(' '):
            found.setdefault('other', []).append('output starts with a blank line for leading %r: %r' % (lead, out[:20]))
    # leading whitespace before the first token: blank lines then an indented token; an out-of-line module that starts with spaces
    for lead in ('  ', '\n\n  ', ' \n\t', '\n    '):
        out = run(lead + 'fn a() {}\n', 'max_width=100')
        if out.startswith('\n') or out.startswith(' '):
            found.setdefault('C08/leading-whitespace/format_missing-emits-a-newline-before-the-first-token', []).append('stdin-like file with leading %r: output starts %r' % (lead, out[:12]))
    sub = os.path.join(d, 'sub')
    os.makedirs(sub, exist_ok=True)
    open(os.path.join(sub, 'main.rs'), 'w').write('mod foo;\n')
    for lead in ('  ', '\n  '):
        open(os.path.join(sub, 'foo.rs'), 'w').write(lead + 'fn a() {}\n')
        r = subprocess.run([rf, '--emit', 'stdout', os.path.join(sub, 'main.rs')], capture_output=True, env=run_env(), timeout=60)
        m = re.search(r'foo\.rs:\n\n(.*?)(?=\n/|\Z)', r.stdout.decode('utf-8', 'replace'), re.S)
        if m and (m.group(1).startswith('\n') or m.group(1).startswith(' ')):
            found.setdefault('C08/leading-whitespace/format_missing-emits-a-newline-before-the-first-token', []).append('out-of-line module file with leading %r: its output starts %r' % (lead, m.group(1)[:12]))
    # indentation
    for ht in ('true', 'false'):
        for ts in (2, 4, 8):
            src = 'fn f() {\nif x {\nif y {\nfoo(aaaaaaaaaaaaaaaaaaaaaaaaaaaaaaaaaaaaaaaaaaa,\nbbbbbbbbbbbbbbbbbbbbbbbbbbbbbbbbbbbbbbbbbbbbbbbbbbbbbbbbbb,\nc);\n}\n}\n}\n'
            out = run(src, 'hard_tabs=%s,tab_spaces=%d' % (ht, ts))
            for ln in out.split('\n'):
                lead = re.match(r'^[ \t]*', ln).group(0)
                if ht == 'false' and '\t' in lead:
                    found.setdefault('other', []).append('tab in indentation with hard_tabs off: %r' % ln)
                if ht == 'true' and re.search(r' \t', lead):
                    found.setdefault('other', []).append('space before tab in indentation: %r' % ln)
    # newline styles
    out = run('fn a() {}\r\n\r\nfn b() {}\r\n', 'newline_style=Unix')
    if '\r\n' in out:
        found.setdefault('other', []).append('Unix output contains CRLF: %r' % out)
    out = run('fn a() {}\n\nfn b() {}\n', 'newline_style=Windows')
    if re.search(r'(?<!\r)\n', out):
        found.setdefault('other', []).append('Windows output has a bare LF: %r' % out)
    for src in ('// caf\u00e9 \u4e2d\u6587 \U0001F600\nfn a() {}\n', 'fn a() {\n    let s = "\u00e9\u00fc";\n}\n'):
        w, u = run(src, 'newline_style=Windows'), run(src, 'newline_style=Unix')
        if w.replace('\r\n', '\n') != u:
            found.setdefault('other', []).append('Windows conversion changed more than the terminators: %r vs %r' % (w[:40], u[:40]))
    # Auto: the style of the input's first terminator
    for src, win in (('fn a() {}\r\n\r\nfn b() {}\r\n', True), ('fn a() {}\n\nfn b() {}\r\n', False), ('fn a() {\r\n    let x = 1;\n}\n', True)):
        out = run(src, 'newline_style=Auto')
        has_bare = re.search(r'(?<!\r)\n', out) is not None
        if win and has_bare:
            found.setdefault('C08/newline_style/Auto/detects-on-the-newline-normalised-text-of-the-source-map', []).append('input whose first terminator is CR LF comes back with bare LF: %r' % out[:40])
        if not win and '\r\n' in out:
            found.setdefault('other', []).append('input whose first terminator is LF comes back with CR LF: %r' % out[:40])
    out = run('#[rustfmt::skip]\nfn a() { let s = 1;\r\r\r\nlet t = 2; }\n', 'newline_style=Unix')
    if '\r\n' in out:
        found.setdefault('C08/newline_style/Unix/CR-CR-LF-leaves-a-CRLF', []).append('Unix output of skipped code containing CR CR CR LF still has CRLF: %r' % out)
    shutil.rmtree(d, ignore_errors=True)
    return found


def make_replay(ctx, what=None):
    cache = {}

    def replay(model, r):
        if 'f' not in cache:
            cache['f'] = cli_findings()
        f = cache['f']
        key = r.ob.meta.get('key')
        if key:
            return {'reproduced': key in f, 'detail': f.get(key, [])[:2]}
        other = {k: v for k, v in f.items() if k not in ctx.open_keys}
        return {'reproduced': bool(other), 'detail': {k: v[:3] for k, v in other.items()}}
    return replay


def validate(ctx):
    f = cli_findings()
    ctx.validated += 1
    ctx.validation_detail.append({'cli_findings_on_this_tree': {k: v[:2] for k, v in f.items()}})


if __name__ == '__main__':
    main_wrapper('C08', build)
