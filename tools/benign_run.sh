#!/bin/bash
# usage: [CHECK=Cxx] benign_run.sh <benign-dir-name> [tier] -- applies a behaviour-preserving refactoring to /repo, runs the owning check (must exit 0), reverts
S=$1; TIER=${2:-quick}
PID=${CHECK:-${S%%-*}}
cd /repo || exit 2
if [ -n "$(git status --porcelain)" ]; then echo "/repo not clean"; exit 2; fi
git apply /verif/benign/$S/patch.diff || { echo "patch failed"; exit 2; }
cd /verif
LC=$(echo $PID | tr 'A-Z' 'a-z')
timeout 3000 python3-vt /verif/checks/$LC.py --tier $TIER > /verif/build/benignrun-$S.log 2>&1
RC=$?
git -C /repo checkout -- .
echo "benign=$S check=$PID tier=$TIER exit=$RC"
grep -E "^(VIOLATION|INCONCLUSIVE)" /verif/build/benignrun-$S.log | cut -c1-300 | head -4
