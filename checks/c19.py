"""C19 — rustfmt-format-diff: the plumbing between what the two regular expressions capture and what is handed to rustfmt.

The regex engine is environment (symbolic match outcomes); the pattern *texts* are observed structurally (format! pieces and
literal arguments of Regex::new), because the anchoring of the file filter is part of the property."""
from common import *
from mirsym.intrinsics import str_expr
from mirsym.values import StrVal

LIM = 1 << 31


def build(ctx):
    ctx.level = 'other'
    eng = ctx.engine('format-diff', loop_bound=6)
    K = 2 if ctx.tier == 'quick' else 3
    ctx.bounds = {'diff lines per run': '%d symbolic lines (file header / hunk header / other: any match outcome on each line)' % K,
                  'start and count': '< 2^31', 'capture groups': 'group 1 mandatory, group 3 optional'}
    ctx.outside = ['whether the two patterns capture the right substrings (regex crate semantics)', 'line numbers that do not fit u32 (parse::<u32>().unwrap())',
                   'JSON serialisation of the ranges', 'paths with spaces']
    ctx.assumptions = ['serde_json::to_string of the range list succeeds', 'Regex::captures / is_match return arbitrary results; Captures::get(i) is Some for a mandatory group; Match::as_str returns an arbitrary string; '
                       'str::parse::<u32> is a function of its argument', 'Command::status returns an arbitrary io::Result<ExitStatus>']
    eng.lenient = True
    # the two kernels and whatever helpers of the same file they call
    eng.inline_only = [re.compile(r'scan_diff|run_rustfmt'), re.compile(r'^src/format-diff/main\.rs$')]
    sd = eng.find('scan_diff', free=True)
    rp = make_replay(ctx)
    parse_ok = z3.Function('parse_u32_ok', str_sort(), z3.BoolSort())
    parse_val = z3.Function('parse_u32_val', str_sort(), z3.BitVecSort(32))

    # ---- format!/Regex::new observed structurally
    def new_v1(eng_, st_, args, ci):
        pieces = deref(eng_, st_, args[0])
        fargs = deref(eng_, st_, args[1])
        ps = [deref(eng_, st_, x) for x in pieces.items]
        return Tup([Seq(ps), fargs], 'FmtArguments')
    eng.stub(r'^Arguments::<.*>::new_v1::<', new_v1, 'fmt::Arguments::new_v1(pieces, args) = structure (pieces observed)')

    def new_display(eng_, st_, args, ci):
        return Tup([deref(eng_, st_, args[0])], 'FmtArg')
    eng.stub(r'fmt::rt::Argument::<.*>::new_display::<', new_display, 'fmt::rt::Argument::new_display(x) = x')

    def fmt_format(eng_, st_, args, ci):
        return Tup([args[0]], 'Formatted')
    eng.stub(r'^(std|alloc)::fmt::format$', fmt_format, 'fmt::format(args) = structure')
    eng.stub(r'^must_use::<', lambda e, s, a, c: a[0], 'must_use = identity')
    regexes = []

    def regex_new(eng_, st_, args, ci):
        src = deref(eng_, st_, args[0])
        rid = len([t for t in st_.trace if t[0] == 'Regex::new'])
        st_.trace.append(('Regex::new', rid, src))
        rx = Opaque('Regex', 'rx%d' % rid, data=src)
        d = z3.BitVec(eng_.fresh_name('regex_new.ok'), 64)
        st_.assume(z3.Or(d == 0, d == 1))
        return Enum('Result', d, {0: Tup([rx]), 1: Tup([Opaque('regex::Error', rid)])})
    eng.stub(r'^regex::Regex::new$', regex_new, 'Regex::new(src) = Ok(regex remembering its source) or Err')

    for k in range(1, K + 1):
        run_lines(ctx, eng, sd, k, rp, parse_ok, parse_val)

    # ---- run_rustfmt: nothing is run for an empty result; a failing rustfmt fails the tool
    eng.stubs = []
    rr = eng.find('run_rustfmt', free=True)
    for ne_files in (False, True):
        for ne_ranges in (False, True):
            st = State()
            files = eng.ref_to(st, Tup([Seq([Tup([StrVal(s='a.rs'), UNIT])] if ne_files else [])], 'HashSet'), False)
            ranges = eng.ref_to(st, Seq([Opaque('Range', 0)] if ne_ranges else []), False)
            eng.stubs = []
            eng.stub(r'HashSet::<.*>::is_empty$', lambda e, s, a, c: z3.BoolVal(len(e.read_ref(s, a[0]).items[0].items) == 0), 'HashSet::is_empty (harness entry list)')
            succ = z3.Bool('rustfmt.success')

            def hs_iter(e, s_, a, c):
                hs = deref(e, s_, a[0])
                cell = e.ref_to(s_, Seq([it_.items[0] for it_ in hs.items[0].items]), True, 'hs_iter')
                return Tup([cell, bv_const(0, 'usize')], 'OwnedIter')

            def hs_next(e, s_, a, c):
                it_ = e.read_ref(s_, a[0])
                cell, pos = it_.items
                seq = e.read_ref(s_, cell)
                p_ = pos.concrete()
                if p_ >= len(seq.items):
                    return Enum('Option', 0, {})
                e.write_ref(s_, a[0], Tup([cell, bv_const(p_ + 1, 'usize')], 'OwnedIter'))
                return Enum('Option', 1, {1: Tup([e.ref_to(s_, seq.items[p_], False, 'file')])})
            eng.stub(r'^<&HashSet<.*> as (std::iter::)?IntoIterator>::into_iter$|HashSet::<.*>::iter$', hs_iter, 'HashSet iteration = the harness entry list')
            eng.stub(r'hash_set::Iter<.*> as (std::iter::)?Iterator>::next$', hs_next, 'hash_set::Iter::next')

            def status_stub(eng_, st_, args, ci):
                st_.trace.append(('status',))
                d = z3.BitVec(eng_.fresh_name('status.io'), 64)
                st_.assume(z3.Or(d == 0, d == 1))
                return Enum('Result', d, {0: Tup([Opaque('ExitStatus', 0)]), 1: Tup([Opaque('io::Error', 'status')])})
            eng.stub(r'Command::status$', status_stub, 'Command::status = Ok(status) or Err(io)')
            eng.stub(r'ExitStatus::success$', lambda e, s, a, c: succ, 'ExitStatus::success symbolic')
            code_some, code_val = z3.Bool('rustfmt.code.is_some'), z3.BitVec('rustfmt.code', 32)

            def code_stub(eng_, st_, args, ci, cs=code_some, cvv=code_val, sc=succ):
                # std contract: success() <=> code() == Some(0); a child killed by a signal has no code
                st_.assume(sc == z3.And(cs, cvv == 0))
                return Enum('Option', z3.If(cs, z3.BitVecVal(1, 64), z3.BitVecVal(0, 64)), {1: Tup([BV(cvv, 'i32')])})
            eng.stub(r'ExitStatus::code$', code_stub, 'ExitStatus::code: Some(c) or None (killed by a signal), success() <=> code() == Some(0)')
            outs = ctx.check_outcomes(eng.run(rr, [files, ranges], st), 'run_rustfmt')
            for i, o in enumerate(outs):
                tag = 'run_rustfmt/files%d-ranges%d/p%d' % (ne_files, ne_ranges, i)
                if o.kind != 'ret':
                    if isinstance(o.info, dict) and o.info.get('kind') == 'unwrap':
                        continue    # json::to_string(ranges).unwrap(): serialising plain data cannot fail (environment)
                    ctx.prop(tag + '/no-panic', o.state.pc, z3.BoolVal(True), [succ], rp, twin=False)
                    continue
                spawned = any(t[0] == 'status' for t in o.state.trace)
                ok = o.value.discr == 0
                if not (ne_files and ne_ranges):
                    ctx.prop(tag + '/empty-result-runs-nothing', o.state.pc, z3.Or(z3.BoolVal(spawned), z3.Not(ok)), [succ], rp, twin=False)
                else:
                    ctx.prop(tag + '/non-empty-result-runs-rustfmt', o.state.pc, z3.BoolVal(not spawned), [succ], rp, twin=False)
                    ctx.prop(tag + '/failing-rustfmt-fails-the-tool', o.state.pc, z3.And(ok, z3.Not(succ)), [succ], rp, twin=False)
                    io_failed = [c for c in o.state.pc if 'status.io' in str(c)]
                    ctx.prop(tag + '/successful-rustfmt-is-success', o.state.pc + [succ] + [z3.BitVec(n.decl().name(), 64) == 0 for n in consts_named(o.state.pc, 'status.io')], z3.Not(ok), [succ], rp, twin=False)
    ctx.cover('cover/hunk-without-count', [z3.BoolVal(True)])
    f = cli_findings()
    ctx.validated += 1
    ctx.validation_detail.append({'cli_findings_on_this_tree': f})


def consts_named(pc, frag):
    seen = {}

    def walk(e):
        if z3.is_const(e) and e.decl().kind() == z3.Z3_OP_UNINTERPRETED and frag in e.decl().name():
            seen[e.decl().name()] = e
        for ch in e.children():
            walk(ch)
    for c in pc:
        walk(c)
    return list(seen.values())


def str_sort():
    from mirsym.engine import StrSort
    return StrSort


def deref(eng, st, v):
    while isinstance(v, Ref):
        v = eng.read_ref(st, v)
    return v


def pattern_shape(src):
    """structural view of a regex source: ('lit', text) | ('fmt', [pieces], [args])"""
    if isinstance(src, StrVal) and src.s is not None:
        return ('lit', src.s)
    if isinstance(src, Tup) and src.name == 'Formatted':
        fa = src.items[0]
        pieces = [p.s if isinstance(p, StrVal) else None for p in fa.items[0].items]
        return ('fmt', pieces, fa.items[1])
    return ('unknown', repr(src))


def run_lines(ctx, eng, sd, k, rp, parse_ok, parse_val):
    st = State()
    user_filter = eng.fresh_str('file_filter')
    skip_prefix = BV(z3.BitVec('skip_prefix', 32), 'u32')
    lines = [eng.fresh_str('line%d' % i) for i in range(k)]
    # symbolic regex outcomes per line
    hdr_m = [z3.Bool('line%d.is_file_header' % i) for i in range(k)]
    hunk_m = [z3.Bool('line%d.is_hunk_header' % i) for i in range(k)]
    hdr_path = [eng.fresh_str('line%d.header_path' % i) for i in range(k)]
    start_s = [eng.fresh_str('line%d.start_text' % i) for i in range(k)]
    count_s = [eng.fresh_str('line%d.count_text' % i) for i in range(k)]
    has_count = [z3.Bool('line%d.has_count' % i) for i in range(k)]
    filt = z3.Function('filter_matches', str_sort(), z3.BoolSort())

    eng.stubs = [x for x in eng.stubs if x[2].startswith(('fmt::', 'Regex::new', 'must_use'))]

    def lines_next(eng_, st_, args, ci):
        i = len([t for t in st_.trace if t[0] == 'line'])
        if i >= k:
            return Enum('Option', 0, {})
        st_.trace.append(('line', i))
        return Enum('Option', 1, {1: Tup([Enum('Result', 0, {0: Tup([Tup([lines[i], bv_const(i, 'usize')], 'Line')])})])})
    eng.stub(r'^<std::io::Lines<.*> as Iterator>::next$', lines_next, 'io::Lines::next = the k harness lines')

    def line_of(eng_, st_, v):
        v = deref(eng_, st_, v)
        if isinstance(v, Tup) and v.name == 'Line':
            return v.items[1].concrete()
        return None

    def captures(eng_, st_, args, ci):
        rx = deref(eng_, st_, args[0])
        li = line_of(eng_, st_, args[1])
        if li is None or not isinstance(rx, Opaque):
            raise Unsupported('captures on %r %r' % (rx, args[1]))
        which = rx.ident
        st_.trace.append(('captures', which, li))
        cond = hdr_m[li] if which == 'rx0' else hunk_m[li] if which == 'rx1' else None
        if cond is None:
            raise Unsupported('captures with unexpected regex %s' % which)
        return Enum('Option', z3.If(cond, z3.BitVecVal(1, 64), z3.BitVecVal(0, 64)), {1: Tup([Opaque('Captures', (which, li))])})
    eng.stub(r'^regex::Regex::captures$', captures, 'Regex::captures = symbolic Some/None per (regex, line)')

    def cap_get(eng_, st_, args, ci):
        cap = deref(eng_, st_, args[0])
        gi = args[1].concrete()
        which, li = cap.ident
        if which == 'rx0' and gi == 1:
            return Enum('Option', 1, {1: Tup([Tup([hdr_path[li]], 'Match')])})
        if which == 'rx1' and gi == 1:
            return Enum('Option', 1, {1: Tup([Tup([start_s[li]], 'Match')])})
        if which == 'rx1' and gi == 3:
            return Enum('Option', z3.If(has_count[li], z3.BitVecVal(1, 64), z3.BitVecVal(0, 64)), {1: Tup([Tup([count_s[li]], 'Match')])})
        raise Unsupported('Captures::get(%r) on %s' % (gi, which))
    eng.stub(r'^regex::Captures::<.*>::get$', cap_get, 'Captures::get(i): group 1 always present, group 3 of the hunk pattern optional')
    def cap_index(eng_, st_, args, ci):
        r = cap_get(eng_, st_, args, ci)
        return r.payloads[1].items[0].items[0]         # Index panics on an absent group; group 1 is always present, group 3 is only read through get()
    eng.stub(r'^<regex::Captures<.*> as (std::ops::)?Index<usize>>::index$', cap_index, 'captures[i] = the text of group i (group 1 of either pattern)')
    eng.stub(r'io::Lines<.*> as (std::iter::)?Iterator>::map::<', lambda e, s, a, c: Tup([a[0], a[1]], 'Map'), 'Lines::map (lazy adaptor)')
    eng.stub(r'^<(std::iter::)?Map<std::io::Lines<.*> as (std::iter::)?IntoIterator>::into_iter$', lambda e, s, a, c: a[0], 'Map::into_iter = itself')
    eng.stub(r'^regex::Match::<.*>::as_str$', lambda e, s, a, c: deref(e, s, a[0]).items[0], 'Match::as_str = the captured text')
    eng.stub(r'^<str as ToOwned>::to_owned$', lambda e, s, a, c: (lambda v: v.items[0] if isinstance(v, Tup) and v.name == 'Line' else v)(deref(e, s, a[0])), 'str::to_owned = same text')

    def is_match(eng_, st_, args, ci):
        rx = deref(eng_, st_, args[0])
        txt = deref(eng_, st_, args[1])
        st_.trace.append(('is_match', rx.ident, txt))
        return filt(str_expr(txt))
    eng.stub(r'^regex::Regex::is_match$', is_match, 'Regex::is_match(filter, file) = uninterpreted predicate of the file name')

    def parse_u32(eng_, st_, args, ci):
        txt = deref(eng_, st_, args[0])
        e = str_expr(txt)
        return Enum('Result', z3.If(parse_ok(e), z3.BitVecVal(0, 64), z3.BitVecVal(1, 64)), {0: Tup([BV(parse_val(e), 'u32')]), 1: Tup([Opaque('ParseIntError', 0)])})
    eng.stub(r'^core::str::<impl str>::parse::<u32>$', parse_u32, 'str::parse::<u32> = function of the text')
    inserted = []

    def hs_insert(eng_, st_, args, ci):
        st_.trace.append(('files.insert', args[1]))
        return eng_.fresh_bool('inserted')
    eng.stub(r'^HashSet::<.*>::insert$', hs_insert, 'HashSet::insert observed')
    eng.stub(r'^HashSet::<.*>::new$', lambda e, s, a, c: Opaque('HashSet', 'files'), 'HashSet::new')
    eng.stub(r'^BufReader::<.*>::new$|BufRead>::lines$|^<std::io::Lines<.*> as IntoIterator>::into_iter$', lambda e, s, a, c: Opaque('Lines', 'lines'), 'BufReader / lines() = the harness line source')

    frm = Opaque('R', 'from')
    outs = ctx.check_outcomes(eng.run(sd, [frm, skip_prefix, user_filter], st), 'scan_diff k=%d' % k)
    log('[C19] scan_diff with %d lines: %d paths' % (k, len(outs)))
    mv = hdr_m + hunk_m + has_count
    nret = 0
    for pi, o in enumerate(outs):
        if o.kind == 'panic':
            msg = str(o.info.get('msg', ''))
            if 'unwrap' in msg or 'overflow' in msg:
                continue    # numbers that do not fit u32 / start+count overflow: outside (stated)
            ctx.prop('scan_diff/k%d/p%d/no-panic[%s]' % (k, pi, msg[:40]), o.state.pc, z3.BoolVal(True), mv, rp, twin=False)
            continue
        if o.kind != 'ret':
            continue
        v = o.value
        tr = o.state.trace
        rnew = [t for t in tr if t[0] == 'Regex::new']
        pc = o.state.pc
        if 0 not in v.payloads or len([t for t in tr if t[0] == 'line']) < k:
            continue   # Err(filter regex invalid) path
        nret += 1
        okret = v.discr == 0
        # -- structure of the three patterns
        shapes = [pattern_shape(t[2]) for t in rnew]
        if len(shapes) == 3:
            f = shapes[2]
            anchored = f[0] == 'fmt' and f[1] == ['^', '$'] and len(f[2].items) == 1 and isinstance(f[2].items[0], Tup) and \
                isinstance(f[2].items[0].items[0], StrVal) and f[2].items[0].items[0].e is not None and f[2].items[0].items[0].e.eq(eng_user(o, 'file_filter'))
            ctx.prop('scan_diff/k%d/p%d/file-filter-is-anchored-on-both-sides' % (k, pi), pc, z3.BoolVal(not anchored), [], rp, twin=False, meta={'shape': repr(f)[:200]})
            h = shapes[1]
            ctx.prop('scan_diff/k%d/p%d/hunk-pattern-is-the-audited-literal' % (k, pi), pc, z3.BoolVal(not (h[0] == 'lit' and h[1] == r'^@@.*\+(\d+)(,(\d+))?')), [], rp, twin=False,
                     meta={'shape': repr(h)[:200]})
            d0 = shapes[0]
            ctx.prop('scan_diff/k%d/p%d/header-pattern-built-from-skip_prefix' % (k, pi), pc,
                     z3.BoolVal(not (d0[0] == 'fmt' and d0[1] == [r'^\+\+\+\s(?:.*?/){', r'}(\S*)'])), [], rp, twin=False, meta={'shape': repr(d0)[:200]})
        else:
            ctx.prop('scan_diff/k%d/p%d/three-patterns' % (k, pi), pc, z3.BoolVal(True), [], rp, twin=False)
        # filter is applied with the third regex only
        for t in tr:
            if t[0] == 'is_match':
                ctx.prop('scan_diff/k%d/p%d/filter-decision-uses-the-filter-regex' % (k, pi), pc, z3.BoolVal(t[1] != 'rx2'), [], rp, twin=False)
        # -- specification of what must have been pushed, line by line
        res = v.payloads[0].items[0]
        ranges_out = res.items[1]
        if not isinstance(ranges_out, Seq):
            raise Inconclusive('ranges result is %r' % (ranges_out,))
        inserts = [t[1] for t in tr if t[0] == 'files.insert']
        cur_some = z3.BoolVal(False)
        cur = None
        expected = []   # list of (cond, file_expr, start, end)
        for i in range(k):
            cur_some = z3.Or(cur_some, hdr_m[i])
            cur = z3.If(hdr_m[i], str_expr(hdr_path[i]), cur) if cur is not None else str_expr(hdr_path[i])
            s_e, c_e = str_expr(start_s[i]), str_expr(count_s[i])
            start = parse_val(s_e)
            count = z3.If(has_count[i], parse_val(c_e), z3.BitVecVal(1, 32))
            cond = z3.And(cur_some, filt(cur), hunk_m[i], count != 0)
            expected.append((cond, cur, start, start + count - 1))
        small = [z3.ULT(parse_val(str_expr(x)), LIM) for x in start_s + count_s] + [parse_ok(str_expr(x)) for x in start_s + count_s]
        # number of pushed ranges on this path equals the number of lines whose condition holds
        n_out = len(ranges_out.items)
        cnt = z3.Sum([z3.If(c_, 1, 0) for (c_, _, _, _) in expected])
        ctx.prop('scan_diff/k%d/p%d/exactly-the-announced-hunks-contribute' % (k, pi), pc + small + [okret], cnt != n_out, mv, rp)
        ctx.prop('scan_diff/k%d/p%d/one-insert-per-range' % (k, pi), pc + small + [okret], z3.BoolVal(len(inserts) != n_out), mv, rp, twin=False)
        # each pushed range is the j-th expected one (in order)
        for j, rg in enumerate(ranges_out.items):
            if not (isinstance(rg, Tup) and len(rg.items) == 2 and isinstance(rg.items[1], Seq)):
                raise Inconclusive('Range shape %r' % (rg,))
            fexp = str_expr(rg.items[0])
            lo_, hi_ = rg.items[1].items
            alts = []
            for i in range(k):
                prior = z3.Sum([z3.If(expected[m][0], 1, 0) for m in range(i)]) if i else z3.IntVal(0)
                alts.append(z3.And(expected[i][0], prior == j, fexp == expected[i][1], lo_.e == expected[i][2], hi_.e == expected[i][3]))
            ctx.prop('scan_diff/k%d/p%d/range%d-is-[start,start+count-1]-of-the-current-file' % (k, pi, j), pc + small + [okret], z3.Not(z3.Or(alts)), mv, rp)
            if j < len(inserts):
                ctx.prop('scan_diff/k%d/p%d/range%d-file-is-inserted' % (k, pi, j), pc + small + [okret], str_expr(inserts[j]) != fexp, mv, rp, twin=False)
    if nret == 0:
        raise Inconclusive('scan_diff: no returning path with %d lines' % k)


def eng_user(o, name):
    for c in o.state.pc:
        pass
    import z3 as _z3
    from mirsym.engine import StrSort
    # the harness' user filter constant: find by name among constants in the trace
    for t in o.state.trace:
        if t[0] == 'Regex::new':
            sh = pattern_shape(t[2])
            if sh[0] == 'fmt':
                for a in sh[2].items:
                    if isinstance(a, Tup) and a.items and isinstance(a.items[0], StrVal) and a.items[0].e is not None and name in a.items[0].e.decl().name():
                        return a.items[0].e
    return _z3.Const('nonexistent', StrSort)


# ----------------------------------------------------------------------------- native

DIFF = '''--- a/src/one.rs
+++ b/src/one.rs
@@ -3,0 +4,2 @@ fn ctx() {
+x
+y
@@ -10 +12 @@
-old
+new
@@ -20,2 +21,0 @@
-gone
-gone
--- a/docs/guide.rst
+++ b/docs/guide.rst
@@ -1 +1 @@
-a
+b
--- a/src/two.rs.orig
+++ b/src/two.rs.orig
@@ -5 +5,3 @@
+q
'''


def cli_findings():
    bins = ensure_bins()
    fd = os.path.join(bins, 'rustfmt-format-diff')
    d = os.path.join(BUILD, 'scratch', 'c19-%d' % os.getpid())
    shutil.rmtree(d, ignore_errors=True)
    os.makedirs(d)
    logp = os.path.join(d, 'calls.log')
    standin = os.path.join(d, 'standin.sh')
    open(standin, 'w').write('#!/bin/bash\nprintf "%%s\\n" "$@" > %s\nif [ -n "${STANDIN_SIGNAL:-}" ]; then kill -$STANDIN_SIGNAL $$; fi\nexit ${STANDIN_EXIT:-0}\n' % logp)
    os.chmod(standin, 0o755)
    found = []

    def run(diff, args, standin_exit=0, signal=None):
        if os.path.exists(logp):
            os.remove(logp)
        env = run_env()
        env.update({'RUSTFMT': standin, 'STANDIN_EXIT': str(standin_exit)})
        if signal:
            env['STANDIN_SIGNAL'] = str(signal)
        r = subprocess.run([fd] + args, input=diff, capture_output=True, text=True, env=env, timeout=60, cwd=d)
        calls = open(logp).read().split('\n') if os.path.exists(logp) else None
        return r, calls
    r, calls = run(DIFF, ['-p', '1'])
    want_ranges = [{'file': 'src/one.rs', 'range': [4, 5]}, {'file': 'src/one.rs', 'range': [12, 12]}]
    if calls is None:
        found.append('rustfmt not run for a diff with added lines')
    else:
        try:
            js = json.loads(calls[calls.index('--file-lines') + 1])
        except Exception:
            js = None
        if js != want_ranges:
            found.append('ranges %r, expected %r' % (js, want_ranges))
        files = [c for c in calls[:calls.index('--file-lines')] if c]
        if sorted(files) != ['src/one.rs']:
            found.append('files %r, expected [src/one.rs]' % (files,))
    r, calls = run('--- a/x.md\n+++ b/x.md\n@@ -1 +1 @@\n+z\n', ['-p', '1'])
    if calls is not None:
        found.append('rustfmt run although no file matches the filter')
    # more diffs: a file whose only hunk adds nothing contributes neither a range nor a file; single-line hunks without counts; several files
    def expect(diff, args, files_want, ranges_want, what):
        r_, calls_ = run(diff, args)
        if calls_ is None:
            if files_want:
                found.append('%s: rustfmt not run' % what)
            return
        try:
            k = calls_.index('--file-lines')
            js_ = json.loads(calls_[k + 1])
            files_ = sorted(c for c in calls_[:k] if c and not c.startswith('-'))
        except Exception:
            found.append('%s: unexpected arguments %r' % (what, calls_))
            return
        if files_ != sorted(files_want) or js_ != ranges_want:
            found.append('%s: files %r ranges %r, expected %r %r' % (what, files_, js_, sorted(files_want), ranges_want))
    expect('--- a/src/a.rs\n+++ b/src/a.rs\n@@ -2,2 +1,0 @@ fn a() {\n-    x\n-    y\n--- a/src/b.rs\n+++ b/src/b.rs\n@@ -1,0 +2 @@ fn b() {\n+    z\n', ['-p', '1'],
           ['src/b.rs'], [{'file': 'src/b.rs', 'range': [2, 2]}], 'a deletion-only file next to a file with an added line')
    expect('--- a/src/l.rs\n+++ b/src/l.rs\n@@ -2 +2,2 @@\n-a\n+b\n+c\n@@ -7,0 +8,3 @@\n+d\n+e\n+f\n--- a/src/o.rs\n+++ b/src/o.rs\n@@ -1 +1 @@\n-x\n+y\n', ['-p', '1'],
           ['src/l.rs', 'src/o.rs'], [{'file': 'src/l.rs', 'range': [2, 3]}, {'file': 'src/l.rs', 'range': [8, 10]}, {'file': 'src/o.rs', 'range': [1, 1]}],
           'hunk headers without an old-side count (diff -U0)')
    r, calls = run(DIFF, ['-p', '1'], standin_exit=1)
    if r.returncode == 0:
        found.append('failing rustfmt but format-diff exits 0')
    for sig in (9, 6, 15):
        r, calls = run(DIFF, ['-p', '1'], signal=sig)
        if r.returncode == 0:
            found.append('rustfmt killed by signal %d but format-diff exits 0' % sig)
    shutil.rmtree(d, ignore_errors=True)
    return found


def make_replay(ctx):
    def replay(model, r):
        f = cli_findings()
        return {'reproduced': bool(f), 'detail': f[:4]}
    return replay


if __name__ == '__main__':
    main_wrapper('C19', build, level='other')
