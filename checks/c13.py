"""C13 (thin kernel) — exactly the reachable, non-excluded files are formatted, each once: the module-level gate of format_project.

Decided on the real MIR of formatting.rs::format_project and should_skip_module (environment as in projmodel.py; the resolver's result
is a harness list of k modules, module 0 being the root): on every path on which parsing and resolution succeeded and no file failed,
  * (path input) the files handed to format_file are exactly the modules i with
        not( skip attribute  or  (skip_children and i is not the root)  or  file matches `ignore`  or  (not format_generated_files and generated) ),
    each once, in the resolver's order, every path with its own module;
  * (standard input) every module the resolver returned is formatted (the skip attribute echoes the input back instead);
  * the resolver is told to recurse exactly when the input is a path and skip_children is off;
  * `skip_children` with an ignored main file formats nothing at all.
Which files the resolver reaches (mod name; #[path]; cfg_if!) is rustc_expand / file-system code and stays outside."""
from common import *
import projmodel


def build(ctx):
    ctx.level = 'other'
    eng = ctx.engine('lib', loop_bound=8)
    K = 2 if ctx.tier == 'quick' else 3
    ctx.bounds = {'modules returned by the resolver': '0..%d' % K, 'input': 'a path and standard input'}
    ctx.outside = ['ModResolver beyond visit_sub_mod / peek_sub_mod / find_external_module / ParseSess::default_submod_path: the directory bookkeeping of inline modules, cfg_if! / cfg_match! visitors, #[path] attribute parsing, rustc_expand itself', 'contains_skip / the ignore matcher / the generated-marker scan themselves',
                   'de-duplication of files reached twice (BTreeMap keyed by FileName in the resolver)']
    ctx.assumptions = ['ModResolver::visit_crate = Ok(k modules, module 0 = the root) | Err', 'contains_skip / ignore_file / is_generated_file symbolic per module',
                       'the ignore set never matches standard input']
    rp = make_replay(ctx)
    ncomplete = 0
    for stdin in (False, True):
        for k in range(0, K + 1):
            outs, info = projmodel.run_format_project(ctx, eng, k, stdin)
            ctx.paths += len(outs)
            cv = info['cv']
            skip_children = cv['skip_children']
            fmt_generated = cv['format_generated_files']
            mv = [skip_children, fmt_generated] + info['skipattr'] + info['ignored'] + info['generated']
            for pi, o in enumerate(outs):
                tag = 'gate/%s/k%d/p%d' % ('stdin' if stdin else 'file', k, pi)
                if o.kind != 'ret':
                    continue
                ev = projmodel.events(o)
                okd = {e[0]: e[1] for e in ev if e[0] in ('psess', 'parse', 'resolve')}
                fmts = [e for e in ev if e[0] == 'format']
                rn = [e for e in ev if e[0] == 'resolver_new']
                if rn:
                    flag = rn[0][1]
                    want = z3.BoolVal(False) if stdin else z3.Not(skip_children)
                    if not z3.is_bool(flag):
                        raise Inconclusive('ModResolver::new recursion flag is %r' % (flag,))
                    ctx.prop(tag + '/resolver-recurses-iff-path-input-and-not-skip_children', o.state.pc, flag != want, mv, rp, twin=False)
                if okd.get('psess') is True and 'parse' not in okd:
                    # the early return: skip_children and the main file is ignored
                    ctx.prop(tag + '/nothing-parsed-only-for-an-ignored-main-file-under-skip_children', o.state.pc, z3.Not(z3.And(skip_children, info['main_ignored'])), mv + [info['main_ignored']], rp, twin=False)
                    continue
                if not (okd.get('parse') and okd.get('resolve')) or any(f[3] is False for f in fmts) or any(e[0] == 'echo' for e in ev):
                    continue
                ncomplete += 1
                formatted = [f[1] for f in fmts]
                once_in_order = formatted == sorted(set(formatted)) and all(f[1] == f[2] for f in fmts)
                ctx.prop(tag + '/each-file-once-in-order-with-its-own-module', o.state.pc, z3.BoolVal(not once_in_order), mv, rp, twin=False)
                wrong = []
                for i in range(k):
                    if stdin:
                        skip_i = z3.BoolVal(False)
                    else:
                        skip_i = z3.Or(info['skipattr'][i], z3.And(skip_children, z3.BoolVal(i != 0)), info['ignored'][i], z3.And(z3.Not(fmt_generated), info['generated'][i]))
                    wrong.append(z3.BoolVal(i in formatted) == skip_i)
                ctx.prop(tag + '/exactly-the-non-excluded-modules-are-formatted', o.state.pc, z3.Or(wrong) if wrong else z3.BoolVal(False), mv, rp, twin=False)
    if not ncomplete:
        raise Inconclusive('format_project: no complete path')
    ctx.cover('cover/some-complete-run', [z3.BoolVal(ncomplete > 0)])
    import resolvermodel
    resolvermodel.part_submod_fallback(ctx, eng, 'C13', resolvermodel.replay_submod_fallback)
    resolvermodel.part_find_external_module(ctx, eng, 'C13', resolvermodel.replay_find_external_module)
    resolvermodel.part_walkers_pass_errors_on(ctx, eng, 'C13', resolvermodel.replay_walkers)
    resolvermodel.part_visit_sub_mod(ctx, eng, 'C13', resolvermodel.replay_visit_sub_mod)


def cli_findings():
    import hashlib
    bins = ensure_bins()
    rf = os.path.join(bins, 'rustfmt')
    d = os.path.join(BUILD, 'scratch', 'c13-%d' % os.getpid())
    found = []
    bad = 'pub fn   f( ) { }\n'
    files = {'lib.rs': 'mod a;\nmod b;\n' + bad, 'a.rs': 'mod deep;\n' + bad, 'a/deep.rs': bad, 'b.rs': bad, 'c.rs': bad, 'gen.rs': '// @generated\n' + bad, 'skip.rs': '#![rustfmt::skip]\n' + bad}

    def h(p):
        return hashlib.sha256(open(p, 'rb').read()).hexdigest()

    def setup(extra_lib=''):
        shutil.rmtree(d, ignore_errors=True)
        os.makedirs(os.path.join(d, 'a'))
        for n, t in files.items():
            open(os.path.join(d, n), 'w').write(t if n != 'lib.rs' else t.replace('mod b;\n', 'mod b;\n' + extra_lib))
        return {n: h(os.path.join(d, n)) for n in files}
    for what, args, extra_lib, stdin, want in (
            ('root with two modules, one nested', ['lib.rs'], '', None, ['a.rs', 'a/deep.rs', 'b.rs', 'lib.rs']),
            ('skip_children', ['--config', 'skip_children=true', 'lib.rs'], '', None, ['lib.rs']),
            ('ignore = [a.rs]', ['--config-path', 'ignore.toml', 'lib.rs'], '', None, ['a/deep.rs', 'b.rs', 'lib.rs']),
            ('ignore = [lib.rs]: the root is ignored, its modules are not', ['--config-path', 'ignore_root.toml', 'lib.rs'], '', None, ['a.rs', 'a/deep.rs', 'b.rs']),
            ('generated module with format_generated_files=false', ['--config', 'format_generated_files=false', 'lib.rs'], 'mod gen;\n', None, ['a.rs', 'a/deep.rs', 'b.rs', 'lib.rs']),
            ('module with an inner skip attribute', ['lib.rs'], 'mod skip;\n', None, ['a.rs', 'a/deep.rs', 'b.rs', 'lib.rs']),
            ('standard input never recurses', [], '', 'mod a;\nmod b;\n' + bad, [])):
        before = setup(extra_lib)
        open(os.path.join(d, 'ignore.toml'), 'w').write('ignore = ["a.rs"]\n')
        open(os.path.join(d, 'ignore_root.toml'), 'w').write('ignore = ["lib.rs"]\n')
        r = subprocess.run([rf] + args, input=stdin, capture_output=True, text=True, env=run_env(), timeout=60, cwd=d)
        changed = sorted(n for n in files if h(os.path.join(d, n)) != before[n])
        if changed != sorted(want):
            found.append('%s: files rewritten %r, expected %r (exit %d)' % (what, changed, sorted(want), r.returncode))
    shutil.rmtree(d, ignore_errors=True)
    return found


def make_replay(ctx):
    def replay(model, r):
        f = cli_findings()
        return {'reproduced': bool(f), 'detail': f[:4]}
    return replay


if __name__ == '__main__':
    main_wrapper('C13', build, level='other')
