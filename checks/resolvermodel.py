"""Kernels of the module resolver that are small enough to execute: used by C13 (which files are reached), C05 (a missing or ambiguous module
is an error) and C04 (a skipped `mod` declaration is not looked up).

  K1  ParseSess::default_submod_path (src/parse/session.rs): rustc_expand::module::default_submod_path is environment returning an arbitrary
      Ok(ModulePathSuccess) | Err(ModError of a symbolic kind); the relative-then-own-directory fallback.
  K2  ModResolver::find_external_module (src/modules.rs): #[path] lookup, is_file_parsed, parse_file_as_module, contains_skip,
      find_mods_outside_of_ast and ParseSess::default_submod_path are environment; what comes back for each combination.
  K3  ModResolver::peek_sub_mod through each of its callers: a `mod` declaration carrying a skip attribute is never looked up."""
from common import *
import projmodel

MOD_ERROR = ['CircularInclusion', 'ModInBlock', 'FileNotFound', 'MultipleCandidates', 'ParserError']


def deref(eng, st, v):
    while isinstance(v, Ref):
        v = eng.read_ref(st, v)
    return v


def mod_error_indices(eng):
    """discriminants of rustc_expand::module::ModError: the definition order in the pinned toolchain's rustc_expand (environment, listed as an
    assumption), cross-checked against what find_external_module's MIR shows wherever a switch target names its variant"""
    fem = [r['name'] for r in eng.by_method.get('find_external_module', []) if r['file'] == 'src/modules.rs']
    if len(fem) != 1:
        raise Inconclusive('find_external_module not found')
    pinned = {n: i for i, n in enumerate(MOD_ERROR)}
    seen = {k: v for k, v in projmodel.external_variant_indices(eng, fem[0]).items() if k in pinned}
    bad = {k: v for k, v in seen.items() if pinned[k] != v}
    if bad:
        raise Inconclusive('rustc_expand::module::ModError: the MIR of find_external_module shows %r, the pinned definition order says %r' % (bad, pinned))
    return pinned, fem[0]


def mk_mod_error(eng, tag):
    kind = z3.BitVec('%s.error_kind' % tag, 64)
    pl = {i: Tup([Opaque('ModError.field', '%s.%d.%d' % (tag, i, j)) for j in range(3)]) for i in range(len(MOD_ERROR))}
    return Enum('ModError', kind, pl), kind


# ----------------------------------------------------------------------------------------------------------------------------- K1
def part_submod_fallback(ctx, eng, pid, replay):
    idx, _ = mod_error_indices(eng)
    FNF = idx['FileNotFound']
    cands = [r['name'] for r in eng.by_method.get('default_submod_path', []) if r['file'] == 'src/parse/session.rs']
    if len(cands) != 1:
        raise Inconclusive('ParseSess::default_submod_path not found')
    name = cands[0]
    old = (eng.lenient, eng.inline_only, list(eng.stubs))
    eng.lenient = True
    eng.stubs = []
    eng.inline_only = [re.compile('^' + re.escape(name))]
    kinds = []

    def dsp(e, s_, a, c):
        k = len([t for t in s_.trace if t[0] == 'dsp'])
        err, kind = mk_mod_error(e, 'lookup%d' % k)
        d = z3.BitVec('lookup%d.failed' % k, 64)
        s_.assume(z3.Or(d == 0, d == 1))
        s_.assume(z3.And(kind >= 0, kind < len(MOD_ERROR)))
        ok = Opaque('ModulePathSuccess', 'found%d' % k)
        res = Enum('Result', d, {0: Tup([ok]), 1: Tup([err])})
        s_.trace.append(('dsp', k, deref(e, s_, a[2]), d, kind, ok, err))
        return res
    eng.stub(r'^(rustc_expand::module::)?default_submod_path$', dsp, 'rustc_expand::module::default_submod_path = Ok(path) | Err(ModError of a symbolic kind); the `relative` argument is observed')
    try:
        fn = eng.get_fn(name)
        st = State()
        args = [eng.fresh_of_type(st, ty, 'arg.%s' % pn) for pn, ty in fn.params]
        rel = deref(eng, st, args[2])
        if not (isinstance(rel, Enum) and rel.name == 'Option'):
            raise Inconclusive('default_submod_path: the third parameter is %r' % (rel,))
        rel_some = rel.discr == 1
        outs = ctx.check_outcomes(eng.run(name, args, st), 'default_submod_path')
    finally:
        eng.lenient, eng.inline_only, eng.stubs = old
    n2 = 0
    for pi, o in enumerate(outs):
        tag = 'resolver/default_submod_path/p%d' % pi
        mv = [rel.discr]
        if o.kind != 'ret':
            ctx.prop(tag + '/no-panic', o.state.pc, z3.BoolVal(True), mv, replay, twin=False)
            continue
        calls = [t for t in o.state.trace if t[0] == 'dsp']
        if not calls:
            ctx.prop(tag + '/the-location-is-looked-up', o.state.pc, z3.BoolVal(True), mv, replay, twin=False)
            continue
        (_, _, rel0, d0, k0, ok0, err0) = calls[0]
        mv += [d0, k0]
        v = deref(eng, o.state, o.value)
        first_is_nested = isinstance(rel0, Enum) and rel0.discr.eq(rel.discr)
        ctx.prop(tag + '/the-first-lookup-uses-the-nested-location', o.state.pc, z3.BoolVal(not first_is_nested), mv, replay, twin=False)
        may_retry = z3.And(d0 == 1, k0 == FNF, rel_some)

        def same(payload, what):
            x = deref(eng, o.state, payload)
            return x is what or (isinstance(x, Opaque) and isinstance(what, Opaque) and x.ident == what.ident) or (isinstance(x, Enum) and isinstance(what, Enum) and x.discr.eq(what.discr))
        if len(calls) == 1:
            ctx.prop(tag + '/a-missing-nested-file-is-looked-for-in-the-own-directory', o.state.pc, may_retry, mv, replay, twin=False)
            res_ok = z3.And(v.discr == d0, z3.BoolVal(same(v.payloads[0].items[0], ok0) if 0 in v.payloads else True), z3.BoolVal(same(v.payloads[1].items[0], err0) if 1 in v.payloads else True))
            ctx.prop(tag + '/without-a-second-lookup-the-answer-is-the-first-one', o.state.pc, z3.Not(res_ok), mv, replay, twin=False)
        elif len(calls) == 2:
            n2 += 1
            (_, _, rel1, d1, k1, ok1, err1) = calls[1]
            mv += [d1, k1]
            ctx.prop(tag + '/only-a-missing-file-at-the-nested-location-is-retried', o.state.pc, z3.Not(may_retry), mv, replay, twin=False)
            ctx.prop(tag + '/the-second-lookup-uses-the-own-directory', o.state.pc, z3.BoolVal(not (isinstance(rel1, Enum) and rel1.concrete() == 0)), mv, replay, twin=False)
            good = z3.If(d1 == 0, z3.And(v.discr == 0, z3.BoolVal(same(v.payloads[0].items[0], ok1) if 0 in v.payloads else False)),
                         z3.And(v.discr == 1, z3.BoolVal(same(v.payloads[1].items[0], err0) if 1 in v.payloads else False)))
            ctx.prop(tag + '/the-fallback-answers-with-its-file-or-with-the-first-error', o.state.pc, z3.Not(good), mv, replay, twin=False)
        else:
            ctx.prop(tag + '/at-most-two-lookups', o.state.pc, z3.BoolVal(True), mv, replay, twin=False)
    if not n2:
        raise Inconclusive('default_submod_path: no path with a second lookup explored')
    ctx.notes.append('resolver/default_submod_path: %d paths, %d with the fallback lookup; ModError discriminants read off find_external_module: %r' % (len(outs), n2, idx))


def replay_submod_fallback(model, r):
    """foo.rs declares `mod bar;`: nested location foo/bar.rs | foo/bar/mod.rs, fallback ./bar.rs"""
    import hashlib
    bins = ensure_bins()
    rf = os.path.join(bins, 'rustfmt')
    d = os.path.join(BUILD, 'scratch', 'res1-%d' % os.getpid())
    bad = 'pub fn   f( ) { }\n'
    found = []
    cases = [('nested file present', ['foo/bar.rs'], 0, ['foo/bar.rs']),
             ('only the fallback present', ['bar.rs'], 0, ['bar.rs']),
             ('nested file and fallback present: the nested one wins', ['foo/bar.rs', 'bar.rs'], 0, ['foo/bar.rs']),
             ('two nested candidates and a fallback: ambiguous, an error', ['foo/bar.rs', 'foo/bar/mod.rs', 'bar.rs'], 1, []),
             ('two nested candidates: ambiguous, an error', ['foo/bar.rs', 'foo/bar/mod.rs'], 1, []),
             ('nothing present: an error', [], 1, [])]
    for what, present, want_exit, want_changed in cases:
        shutil.rmtree(d, ignore_errors=True)
        os.makedirs(os.path.join(d, 'foo', 'bar'))
        files = {'main.rs': 'mod foo;\n', 'foo.rs': 'mod bar;\n'}
        for p_ in present:
            files[p_] = bad
        for n, t in files.items():
            os.makedirs(os.path.dirname(os.path.join(d, n)), exist_ok=True)
            open(os.path.join(d, n), 'w').write(t)
        before = {n: hashlib.sha256(open(os.path.join(d, n), 'rb').read()).hexdigest() for n in files}
        pr = subprocess.run([rf, 'main.rs'], capture_output=True, text=True, env=run_env(), timeout=60, cwd=d)
        changed = sorted(n for n in files if hashlib.sha256(open(os.path.join(d, n), 'rb').read()).hexdigest() != before[n])
        if pr.returncode != want_exit or changed != sorted(want_changed):
            found.append('%s: exit %d (expected %d), rewritten %r (expected %r)' % (what, pr.returncode, want_exit, changed, sorted(want_changed)))
    shutil.rmtree(d, ignore_errors=True)
    return {'reproduced': bool(found), 'detail': found[:4]}


# ----------------------------------------------------------------------------------------------------------------------------- K2
def ownership_is_not_owned_none(eng, st, kind):
    """formula: the DirectoryOwnership inside SubModKind::External(path, ownership, module) is not Owned { relative: None }; None if the value has another shape"""
    if not (isinstance(kind, Enum) and kind.payloads):
        return None
    ext = None
    for i, pl in kind.payloads.items():
        if isinstance(pl, Tup) and len(pl.items) == 3:
            ext = (i, pl)
    if ext is None:
        return None
    own = deref(eng, st, ext[1].items[1])
    kd = kind.discr if not isinstance(kind.discr, int) else z3.BitVecVal(kind.discr, 64)
    if isinstance(own, Tup):              # an aggregate of another crate's enum: the variant's name and its fields
        if own.name != 'Owned' or not own.items:
            return kd == ext[0]
        rel = deref(eng, st, own.items[0])
        if not isinstance(rel, Enum):
            return kd == ext[0]
        rd = rel.discr if not isinstance(rel.discr, int) else z3.BitVecVal(rel.discr, 64)
        return z3.And(kd == ext[0], rd != 0)
    if not isinstance(own, Enum):
        return (kd == ext[0]) if isinstance(own, Opaque) else None
    d = own.discr if not isinstance(own.discr, int) else z3.BitVecVal(own.discr, 64)
    pl = own.payloads.get(0)
    rel = deref(eng, st, pl.items[0]) if isinstance(pl, Tup) and pl.items else None
    if not isinstance(rel, Enum):
        return z3.BoolVal(True) if rel is not None else None
    rd = rel.discr if not isinstance(rel.discr, int) else z3.BitVecVal(rel.discr, 64)
    kd = kind.discr if not isinstance(kind.discr, int) else z3.BitVecVal(kind.discr, 64)
    return z3.And(kd == ext[0], z3.Or(d != 0, rd != 0))


def part_find_external_module(ctx, eng, pid, replay):
    idx, name = mod_error_indices(eng)
    eng.ext_enums = dict(getattr(eng, 'ext_enums', {}), ModError=idx)
    pe = eng.enum_variants('ParserError')
    old = (eng.lenient, eng.inline_only, list(eng.stubs), eng.unsupported_as_outcome)
    eng.lenient = True
    eng.unsupported_as_outcome = False
    eng.inline_only = [re.compile('^' + re.escape(name) + r'($|::\{closure)')]
    results = []
    try:
        for has_attr_path in (False, True):
            for n_outside in (0, 1):
                eng.stubs = []
                parsed = z3.Bool('file_is_already_parsed')
                skip = z3.Bool('module_file_has_a_skip_attribute')
                pfail = z3.BitVec('parse.failed', 64)
                pkind = z3.BitVec('parse.error_kind', 64)
                lfail = z3.BitVec('lookup.failed', 64)
                err, lkind = mk_mod_error(eng, 'lookup')

                def s_attr(e, s_, a, c, has_attr_path=has_attr_path):
                    return Enum('Option', 1, {1: Tup([Opaque('PathBuf', 'attr_path')])}) if has_attr_path else Enum('Option', 0, {})
                eng.stub(r'submod_path_from_attr$', s_attr, 'Parser::submod_path_from_attr = None | Some(path) (one run each)')
                eng.stub(r'ParseSess::is_file_parsed$', lambda e, s_, a, c, parsed=parsed: (s_.trace.append(('is_parsed',)), parsed)[1], 'ParseSess::is_file_parsed = symbolic')

                def s_parse(e, s_, a, c, pfail=pfail, pkind=pkind):
                    s_.trace.append(('parse',))
                    okv = Tup([Opaque('AttrVec', 'file_attrs'), Opaque('ThinVec<P<Item>>', 'file_items'), Opaque('Span', 'file_span')])
                    return Enum('Result', pfail, {0: Tup([okv]), 1: Tup([Enum('ParserError', pkind, {i: Tup([]) for i in range(len(pe))})])})
                eng.stub(r'Parser::<.*>::parse_file_as_module$|Parser::parse_file_as_module$', s_parse, 'Parser::parse_file_as_module = Ok(attrs, items, span) | Err(kind), symbolic')
                eng.stub(r'(^|::)contains_skip$', lambda e, s_, a, c, skip=skip: skip, 'contains_skip(attrs of the module file) = symbolic')

                def s_outside(e, s_, a, c, n_outside=n_outside):
                    return Seq([Tup([Opaque('PathBuf', 'outside_path%d' % i), Opaque('DirOwnership', 'outside_own%d' % i), Opaque('Module', 'outside_mod%d' % i)]) for i in range(n_outside)])
                eng.stub(r'find_mods_outside_of_ast$', s_outside, 'find_mods_outside_of_ast = a list of 0 or 1 cfg_attr(path) alternatives (one run each)')

                def s_lookup(e, s_, a, c, lfail=lfail, err=err):
                    s_.trace.append(('lookup',))
                    return Enum('Result', lfail, {0: Tup([Opaque('ModulePathSuccess', 'found')]), 1: Tup([err])})
                eng.stub(r'ParseSess::default_submod_path$', s_lookup, 'ParseSess::default_submod_path = Ok | Err(ModError of a symbolic kind)')
                eng.stub(r'Diag::<.*>::cancel$|Diag::cancel$', lambda e, s_, a, c: UNIT, 'Diag::cancel')
                fn = eng.get_fn(name)
                st = State()
                st.assume(z3.And(z3.Or(pfail == 0, pfail == 1), z3.Or(lfail == 0, lfail == 1), pkind >= 0, pkind < len(pe), lkind >= 0, lkind < len(MOD_ERROR)))
                args = [eng.fresh_of_type(st, ty, 'arg.%s' % pn) for pn, ty in fn.params]
                outs = ctx.check_outcomes(eng.run(name, args, st), 'find_external_module')
                results.append((has_attr_path, n_outside, outs, dict(parsed=parsed, skip=skip, pfail=pfail, pkind=pkind, lfail=lfail, lkind=lkind)))
    finally:
        eng.lenient, eng.inline_only, eng.stubs, eng.unsupported_as_outcome = old
    nobl = 0
    nown = [0]
    for has_attr_path, n_outside, outs, sv in results:
        mv = list(sv.values())
        for pi, o in enumerate(outs):
            tag = 'resolver/find_external_module/%s/outside%d/p%d' % ('path-attribute' if has_attr_path else 'by-name', n_outside, pi)
            if o.kind != 'ret':
                ctx.prop(tag + '/no-panic[%s]' % str(o.info.get('msg') if isinstance(o.info, dict) else o.info)[:40], o.state.pc, z3.BoolVal(True), mv, replay, twin=False)
                continue
            ev = [t[0] for t in o.state.trace if t[0] in ('is_parsed', 'parse', 'lookup')]
            v = deref(eng, o.state, o.value)
            if not (isinstance(v, Enum) and v.name == 'Result'):
                raise Inconclusive('find_external_module returned %r' % (v,))
            is_err = v.discr == 1
            opt = deref(eng, o.state, v.payloads[0].items[0]) if 0 in v.payloads else None
            is_none = z3.And(v.discr == 0, opt.discr == 0) if isinstance(opt, Enum) else z3.BoolVal(False)
            is_some = z3.And(v.discr == 0, opt.discr == 1) if isinstance(opt, Enum) else z3.BoolVal(False)
            nobl += 1
            if has_attr_path and isinstance(opt, Enum) and 1 in opt.payloads:
                # rustc: a file named by #[path] owns its directory with no relative component - its children are looked up next to it
                own_bad = ownership_is_not_owned_none(eng, o.state, deref(eng, o.state, opt.payloads[1].items[0]))
                if os.environ.get('MIRSYM_DEBUG'):
                    log('[K2] %s kind=%r own_bad=%r' % (tag, deref(eng, o.state, opt.payloads[1].items[0]), own_bad))
                if own_bad is not None:
                    ctx.prop(tag + '/a-file-named-by-a-path-attribute-owns-its-directory-without-a-relative-component', o.state.pc, z3.And(is_some, own_bad), mv, replay, twin=False)
                    nown[0] += 1
            if has_attr_path:
                ctx.prop(tag + '/a-path-attribute-replaces-the-lookup-by-name', o.state.pc, z3.BoolVal('lookup' in ev), mv, replay, twin=False)
            looked = 'lookup' in ev
            did_parse = 'parse' in ev
            # a file that is already in the source map is not parsed again (each file once)
            ctx.prop(tag + '/a-file-already-parsed-is-not-parsed-again', o.state.pc, z3.And(sv['parsed'], z3.BoolVal(did_parse)), mv, replay, twin=False)
            if n_outside == 0:
                if looked:
                    ctx.prop(tag + '/a-module-that-cannot-be-located-is-an-error', o.state.pc, z3.And(sv['lfail'] == 1, z3.Not(is_err)), mv, replay, twin=False)
                if looked or has_attr_path:
                    found = z3.BoolVal(True) if has_attr_path else sv['lfail'] == 0
                    ctx.prop(tag + '/already-parsed-means-nothing-more-to-do', o.state.pc, z3.And(found, sv['parsed'], z3.Not(is_none)), mv, replay, twin=False)
                if did_parse:
                    ctx.prop(tag + '/a-module-file-that-fails-to-parse-is-an-error', o.state.pc, z3.And(sv['pfail'] == 1, z3.Not(is_err)), mv, replay, twin=False)
                    ctx.prop(tag + '/a-module-file-with-a-skip-attribute-is-left-out', o.state.pc, z3.And(sv['pfail'] == 0, sv['skip'], z3.Not(is_none)), mv, replay, twin=False)
                    ctx.prop(tag + '/a-parsed-module-file-is-returned', o.state.pc, z3.And(sv['pfail'] == 0, z3.Not(sv['skip']), z3.Not(is_some)), mv, replay, twin=False)
            else:
                if did_parse:
                    ctx.prop(tag + '/a-syntax-error-in-the-default-file-is-an-error-even-with-alternatives', o.state.pc,
                             z3.And(sv['pfail'] == 1, sv['pkind'] == pe.index('ParseError'), z3.Not(is_err)), mv, replay, twin=False)
    if nobl < 8:
        raise Inconclusive('find_external_module: only %d returning paths explored' % nobl)
    ctx.notes.append('resolver/find_external_module: %d returning paths over {path attribute, by name} x {0, 1 alternatives}' % nobl)


def replay_find_external_module(model, r):
    import hashlib
    bins = ensure_bins()
    rf = os.path.join(bins, 'rustfmt')
    d = os.path.join(BUILD, 'scratch', 'res2-%d' % os.getpid())
    bad = 'pub fn   f( ) { }\n'
    found = []
    cases = [('a missing module is an error', {'main.rs': 'mod a;\nmod nowhere;\n' + bad, 'a.rs': bad}, 1, []),
             ('a missing cfg-gated module is an error', {'main.rs': 'mod a;\n#[cfg(feature = "x")]\nmod nowhere;\n' + bad, 'a.rs': bad}, 1, []),
             ('a missing #[path] target is an error', {'main.rs': '#[path = "gone.rs"]\nmod a;\n' + bad}, 1, []),
             ('a #[path] target wins over the file by name', {'main.rs': '#[path = "other.rs"]\nmod a;\n', 'other.rs': bad, 'a.rs': bad}, 0, ['other.rs']),
             ('a module file with an inner skip attribute is left alone', {'main.rs': 'mod a;\nmod b;\n', 'a.rs': '#![rustfmt::skip]\n' + bad, 'b.rs': bad}, 0, ['b.rs']),
             ('a module declared twice is formatted once', {'main.rs': 'mod a;\nmod b;\n', 'a.rs': '#[path = "b.rs"]\nmod again;\n', 'b.rs': bad}, 0, ['b.rs']),
             ('a syntax error in a module file is an error', {'main.rs': 'mod a;\nmod b;\n', 'a.rs': 'fn f( {\n', 'b.rs': bad}, 1, []),
             ('a child of a #[path] file is looked up next to that file', {'main.rs': '#[path = "imp.rs"]\nmod foo;\n', 'imp.rs': 'mod bar;\n', 'bar.rs': bad, 'imp/bar.rs': bad}, 0, ['bar.rs'])]
    for what, files, want_exit, want_changed in cases:
        shutil.rmtree(d, ignore_errors=True)
        os.makedirs(d)
        for n, t in files.items():
            os.makedirs(os.path.dirname(os.path.join(d, n)), exist_ok=True)
            open(os.path.join(d, n), 'w').write(t)
        before = {n: hashlib.sha256(open(os.path.join(d, n), 'rb').read()).hexdigest() for n in files}
        pr = subprocess.run([rf, 'main.rs'], capture_output=True, text=True, env=run_env(), timeout=60, cwd=d)
        changed = sorted(n for n in files if hashlib.sha256(open(os.path.join(d, n), 'rb').read()).hexdigest() != before[n])
        if pr.returncode != want_exit or changed != sorted(want_changed):
            found.append('%s: exit %d (expected %d), rewritten %r (expected %r)' % (what, pr.returncode, want_exit, changed, sorted(want_changed)))
    shutil.rmtree(d, ignore_errors=True)
    return {'reproduced': bool(found), 'detail': found[:4]}


# ----------------------------------------------------------------------------------------------------------------------------- K3
def part_visit_sub_mod(ctx, eng, pid, replay):
    """ModResolver::visit_sub_mod (the funnel of the four walkers: AST items, items found in macro bodies, cfg_if!, cfg_match!) with
    peek_sub_mod inlined: a `mod` item carrying a skip attribute is neither looked up nor entered nor walked; an out-of-line declaration is
    looked up; what the lookup returns is entered in the file map and walked; the directory is put back afterwards."""
    cands = [r['name'] for r in eng.by_method.get('visit_sub_mod', []) if r['file'] == 'src/modules.rs']
    if len(cands) != 1:
        raise Inconclusive('ModResolver::visit_sub_mod not found')
    name = cands[0]
    old = (eng.lenient, eng.inline_only, list(eng.stubs), eng.inline_pred)
    eng.lenient = True
    eng.stubs = []
    eng.inline_only = [re.compile('^' + re.escape(name) + '$'), re.compile(r'::peek_sub_mod$')]
    S = z3.Bool('the_mod_item_has_a_skip_attribute')
    D = z3.Bool('the_mod_item_is_a_declaration_without_a_body')
    fres = z3.BitVec('lookup.result', 64)       # 0 = Ok(None), 1 = Ok(Some(kind)), 2 = Err
    eng.stub(r'(^|::)contains_skip$', lambda e, s_, a, c: S, 'contains_skip(item.attrs) = symbolic')
    eng.stub(r'(^|::)is_mod_decl$', lambda e, s_, a, c: D, 'is_mod_decl(item) = symbolic')
    eng.stub(r'ItemKind::ident$', lambda e, s_, a, c: Enum('Option', 1, {1: Tup([Opaque('Ident', 'mod_name')])}), 'ItemKind::ident() of a mod item = Some(name)')

    def s_find(e, s_, a, c):
        s_.trace.append(('find',))
        some = Enum('Option', z3.If(fres == 1, z3.BitVecVal(1, 64), z3.BitVecVal(0, 64)), {1: Tup([Opaque('SubModKind', 'kind')])})
        return Enum('Result', z3.If(fres == 2, z3.BitVecVal(1, 64), z3.BitVecVal(0, 64)), {0: Tup([some]), 1: Tup([Opaque('ModuleResolutionError', 'err')])})
    eng.stub(r'::find_external_module$', s_find, 'find_external_module = Ok(None) | Ok(Some(kind)) | Err, symbolic, observed')
    eng.stub(r'::insert_sub_mod$', lambda e, s_, a, c: (s_.trace.append(('insert',)), Enum('Result', 0, {0: Tup([UNIT])}))[1], 'insert_sub_mod observed')
    eng.stub(r'::visit_sub_mod_inner$', lambda e, s_, a, c: (s_.trace.append(('walk',)), Enum('Result', 0, {0: Tup([UNIT])}))[1], 'visit_sub_mod_inner observed (Ok)')
    saved = Opaque('Directory', 'directory_on_entry')
    eng.stub(r'<(parse::parser::)?Directory as (std::clone::)?Clone>::clone$', lambda e, s_, a, c: (s_.trace.append(('saved',)), saved)[1], 'Directory::clone = the directory on entry')
    try:
        fn = eng.get_fn(name)
        st = State()
        st.assume(z3.And(fres >= 0, fres <= 2))
        args = [eng.fresh_of_type(st, ty, 'arg.%s' % pn) for pn, ty in fn.params]
        outs = ctx.check_outcomes(eng.run(name, args, st), 'visit_sub_mod')
        fields = [n for n, _ in eng.src.struct_fields('ModResolver', 'src/modules.rs')]
    finally:
        eng.lenient, eng.inline_only, eng.stubs, eng.inline_pred = old
    mv = [S, D, fres]
    n = 0
    for pi, o in enumerate(outs):
        tag = 'resolver/visit_sub_mod/p%d' % pi
        if o.kind != 'ret':
            ctx.prop(tag + '/no-panic', o.state.pc, z3.BoolVal(True), mv, replay, twin=False)
            continue
        n += 1
        ev = [t[0] for t in o.state.trace if t[0] in ('find', 'insert', 'walk')]
        v = deref(eng, o.state, o.value)
        ctx.prop(tag + '/a-skipped-mod-item-is-not-looked-up-entered-or-walked', o.state.pc, z3.And(S, z3.BoolVal(bool(ev))), mv, replay, twin=False)
        ctx.prop(tag + '/a-declaration-without-body-is-looked-up', o.state.pc, z3.And(z3.Not(S), D, z3.BoolVal('find' not in ev)), mv, replay, twin=False)
        ctx.prop(tag + '/a-module-with-a-body-is-not-looked-up-but-walked', o.state.pc, z3.And(z3.Not(S), z3.Not(D), z3.BoolVal('find' in ev or 'walk' not in ev)), mv, replay, twin=False)
        if 'find' in ev:
            ctx.prop(tag + '/what-the-lookup-found-is-entered-and-walked', o.state.pc, z3.And(fres == 1, z3.BoolVal(ev != ['find', 'insert', 'walk'])), mv, replay, twin=False)
            ctx.prop(tag + '/nothing-found-nothing-walked', o.state.pc, z3.And(fres == 0, z3.BoolVal(ev != ['find'])), mv, replay, twin=False)
            ctx.prop(tag + '/a-failed-lookup-is-passed-on', o.state.pc, z3.And(fres == 2, v.discr != 1), mv, replay, twin=False)
        # the directory is put back on the way out (Ok paths on which the module was walked: the walk changes it)
        selfv = deref(eng, o.state, args[0])
        try:
            dnow = deref(eng, o.state, eng.read_projs(o.state, selfv, (('field', fields.index('directory'), None),), None))
        except Exception:
            dnow = None         # never written and never read: untouched
        restored = isinstance(dnow, Opaque) and dnow.ident == saved.ident
        if 'walk' in ev:
            ctx.prop(tag + '/the-directory-is-put-back-after-the-walk', o.state.pc, z3.And(v.discr == 0, z3.BoolVal(not restored)), mv, replay_directory, twin=False)
    if n < 3:
        raise Inconclusive('visit_sub_mod: only %d returning paths' % n)
    ctx.notes.append('resolver/visit_sub_mod: %d returning paths' % n)


def replay_directory(model, r):
    """after an inline module with an out-of-line child, a sibling declaration must be looked for in the parent's directory again"""
    import hashlib
    bins = ensure_bins()
    rf = os.path.join(bins, 'rustfmt')
    d = os.path.join(BUILD, 'scratch', 'res4-%d' % os.getpid())
    bad = 'pub fn   f( ) { }\n'
    found = []
    files = {'main.rs': 'mod a_outer {\n    mod child;\n}\nmod b_sibling;\nmod c_dir;\nmod d_after_dir;\n', 'a_outer/child.rs': bad, 'b_sibling.rs': bad, 'c_dir/mod.rs': 'mod leaf;\n', 'c_dir/leaf.rs': bad,
             'd_after_dir.rs': bad}
    shutil.rmtree(d, ignore_errors=True)
    for sub in ('a_outer', 'c_dir'):
        os.makedirs(os.path.join(d, sub))
    for n, t in files.items():
        open(os.path.join(d, n), 'w').write(t)
    before = {n: hashlib.sha256(open(os.path.join(d, n), 'rb').read()).hexdigest() for n in files}
    pr = subprocess.run([rf, 'main.rs'], capture_output=True, text=True, env=run_env(), timeout=60, cwd=d)
    changed = sorted(n for n in files if n != 'main.rs' and hashlib.sha256(open(os.path.join(d, n), 'rb').read()).hexdigest() != before[n])
    want = ['a_outer/child.rs', 'b_sibling.rs', 'c_dir/leaf.rs', 'd_after_dir.rs']
    if pr.returncode != 0 or changed != want:
        found.append('siblings after an inline module and after a directory module: exit %d, rewritten %r (expected %r): %s' % (pr.returncode, changed, want, pr.stderr[:120]))
    shutil.rmtree(d, ignore_errors=True)
    return {'reproduced': bool(found), 'detail': found}


def replay_visit_sub_mod(model, r):
    import hashlib
    bins = ensure_bins()
    rf = os.path.join(bins, 'rustfmt')
    d = os.path.join(BUILD, 'scratch', 'res3-%d' % os.getpid())
    bad = 'pub fn   f( ) { }\n'
    found = []
    files = {'main.rs': '#[rustfmt::skip]\nmod skipped_at_root;\nmod sub;\ncfg_if::cfg_if! {\n    if #[cfg(unix)] {\n        #[rustfmt::skip]\n        mod skipped_in_cfg_if;\n        mod in_cfg_if;\n    }\n}\n',
             'skipped_at_root.rs': bad, 'sub.rs': '#[rustfmt::skip]\nmod skipped_in_sub;\nmod plain;\n', 'sub/skipped_in_sub.rs': bad, 'sub/plain.rs': bad,
             'skipped_in_cfg_if.rs': bad, 'in_cfg_if.rs': bad}
    shutil.rmtree(d, ignore_errors=True)
    os.makedirs(os.path.join(d, 'sub'))
    for n, t in files.items():
        open(os.path.join(d, n), 'w').write(t)
    before = {n: hashlib.sha256(open(os.path.join(d, n), 'rb').read()).hexdigest() for n in files}
    pr = subprocess.run([rf, 'main.rs'], capture_output=True, text=True, env=run_env(), timeout=60, cwd=d)
    changed = sorted(n for n in files if hashlib.sha256(open(os.path.join(d, n), 'rb').read()).hexdigest() != before[n])
    want = ['in_cfg_if.rs', 'sub/plain.rs']
    if pr.returncode != 0 or changed != want:
        found.append('skipped mod declarations at the root, in a sub-module file and in cfg_if!: exit %d, rewritten %r (expected %r)' % (pr.returncode, changed, want))
    shutil.rmtree(d, ignore_errors=True)
    return {'reproduced': bool(found), 'detail': found}


# ----------------------------------------------------------------------------------------------------------------------------- K4
WALKERS = ('visit_cfg_if', 'visit_cfg_match', 'visit_mod_from_ast', 'visit_mod_outside_ast')


def part_walkers_pass_errors_on(ctx, eng, pid, replay, n_items=2):
    """The four walkers that hand `mod` items to visit_sub_mod (cfg_if! bodies, cfg_match! bodies, items of the AST, items found in macro
    bodies), each run with a list of `n_items` under-constrained items and every callee that can fail (visit_sub_mod and the other walkers)
    answering Ok | Err symbolically: on every returning path on which some callee answered Err the walker itself returns Err - a module that
    cannot be resolved or parsed ends the resolution wherever it is declared."""
    decided, declined = [], ['visit_mod_outside_ast (by-value ThinVec iteration is outside the executor: stated as outside)']
    for w in WALKERS[:3]:
        cands = [r['name'] for r in eng.by_method.get(w, []) if r['file'] == 'src/modules.rs']
        if len(cands) != 1:
            raise Inconclusive('ModResolver::%s not found' % w)
        name = cands[0]
        old = (eng.lenient, eng.inline_only, list(eng.stubs), eng.unsupported_as_outcome)
        eng.lenient = True
        eng.unsupported_as_outcome = False
        eng.stubs = []
        eng.inline_only = [re.compile('^' + re.escape(name) + r'($|::\{closure)')]
        results = []

        def s_fallible(e, s_, a, c, results=results):
            k = len([t for t in s_.trace if t[0] == 'fallible'])
            r_ = z3.BitVec('callee%d.failed' % k, 64)
            s_.assume(z3.Or(r_ == 0, r_ == 1))
            s_.trace.append(('fallible', c.func.rsplit('::', 1)[-1], r_))
            return Enum('Result', r_, {0: Tup([UNIT]), 1: Tup([Opaque('ModuleResolutionError', 'err%d' % k)])})
        others = '|'.join(x for x in WALKERS if x != w)
        eng.stub(r'::(visit_sub_mod|%s)$' % others, s_fallible, 'visit_sub_mod and the other walkers = Ok | Err, symbolic per call, observed')
        eng.stub(r'(CfgIfVisitor|CfgMatchVisitor)(::<.*>)?::new$', lambda e, s_, a, c: Opaque('MacroModVisitor', 'macro_visitor'), 'CfgIfVisitor / CfgMatchVisitor::new')
        eng.stub(r'(CfgIfVisitor|CfgMatchVisitor).*::visit_item$|::visit_item$', lambda e, s_, a, c: UNIT, 'the macro-body visitor collects mod items (environment)')
        eng.stub(r'(CfgIfVisitor|CfgMatchVisitor)(::<.*>)?::mods$', lambda e, s_, a, c: Seq([Opaque('ModItem', 'mod_item%d' % i) for i in range(n_items)]),
                 'visitor.mods() = %d under-constrained items' % n_items)
        eng.stub(r'Module::<.*>::new$|Module::new$', lambda e, s_, a, c: Opaque('Module', 'module'), 'Module::new')
        eng.stub(r'(^|::)(is_cfg_if|is_cfg_match)$', lambda e, s_, a, c: e.fresh_bool(c.func.rsplit('::', 1)[-1]), 'is_cfg_if / is_cfg_match = symbolic per item')
        eng.stub(r'P<.*>::into_inner$|P::<.*>::into_inner$', lambda e, s_, a, c: deref(e, s_, a[0]), 'P::into_inner = the item')
        try:
            fn = eng.get_fn(name)
            st = State()
            args = []
            for pn, ty in fn.params:
                if pn == 'items' or 'Item>' in ty and 'Cow' not in ty and ('ThinVec' in ty or '[' in ty):
                    seq = Seq([Opaque('P<Item>', 'ast_item%d' % i) for i in range(n_items)])
                    args.append(eng.ref_to(st, seq, False, 'items') if ty.strip().startswith('&') else seq)
                else:
                    args.append(eng.fresh_of_type(st, ty, 'arg.%s' % pn))
            outs = ctx.check_outcomes(eng.run(name, args, st), w)
        except (Unsupported, Inconclusive) as e_:
            declined.append('%s (%s)' % (w, str(e_)[:120]))
            continue
        finally:
            eng.lenient, eng.inline_only, eng.stubs, eng.unsupported_as_outcome = old
        n_ret = n_calls = 0
        mark = len(ctx.obls)
        for pi, o in enumerate(outs):
            tag = 'resolver/%s/p%d' % (w, pi)
            calls = [t for t in o.state.trace if t[0] == 'fallible']
            mv = [t[2] for t in calls]
            if o.kind != 'ret':
                ctx.prop(tag + '/no-panic', o.state.pc, z3.BoolVal(True), mv, replay, twin=False)
                continue
            v = deref(eng, o.state, o.value)
            if not (isinstance(v, Enum) and v.name == 'Result'):
                raise Inconclusive('%s returned %r' % (w, v))
            n_ret += 1
            n_calls = max(n_calls, len(calls))
            if calls:
                ctx.prop(tag + '/an-error-of-a-callee-ends-the-walk-with-that-error', o.state.pc, z3.And(z3.Or([r_ == 1 for r_ in mv]), v.discr != 1), mv, replay, twin=False)
        if n_ret < 2 or n_calls < 1:
            del ctx.obls[mark:]
            declined.append('%s (only %d returning paths, %d callee calls)' % (w, n_ret, n_calls))
            continue
        decided.append('%s: %d returning paths, up to %d fallible calls' % (w, n_ret, n_calls))
    if not any(d.startswith('visit_cfg_if') for d in decided) or len(decided) < 2:
        raise Inconclusive('resolver walkers: decided %r, declined %r' % (decided, declined))
    ctx.notes.append('resolver/walkers: ' + '; '.join(decided) + ((' - not executable here: ' + '; '.join(declined)) if declined else ''))


def replay_walkers(model, r):
    """a module that cannot be parsed / found, declared in a cfg_if! arm, a cfg_match! arm, a macro body, a nested module file: exit 1, nothing rewritten"""
    import hashlib
    bins = ensure_bins()
    rf = os.path.join(bins, 'rustfmt')
    d = os.path.join(BUILD, 'scratch', 'res5-%d' % os.getpid())
    bad = 'pub fn   f( ) { }\n'
    broken = 'fn f( {\n'
    found = []
    roots = {'cfg_if arm': 'mod good;\ncfg_if::cfg_if! {\n    if #[cfg(unix)] {\n        mod bad;\n    } else {\n        mod other;\n    }\n}\n' + bad,
             'cfg_if else arm': 'mod good;\ncfg_if::cfg_if! {\n    if #[cfg(unix)] {\n        mod other;\n    } else {\n        mod bad;\n    }\n}\n' + bad,
             'cfg_match arm': 'mod good;\nstd::cfg_match! {\n    unix => {\n        mod bad;\n    }\n    _ => {\n        mod other;\n    }\n}\n' + bad,
             'plain declaration': 'mod good;\nmod bad;\n' + bad,
             'inline module': 'mod good;\nmod inl {\n    mod bad;\n}\n' + bad}
    for what, root in roots.items():
        for fault in ('unparsable', 'missing'):
            shutil.rmtree(d, ignore_errors=True)
            os.makedirs(os.path.join(d, 'inl'))
            files = {'main.rs': root, 'good.rs': bad, 'other.rs': bad}
            bp = 'inl/bad.rs' if what == 'inline module' else 'bad.rs'
            if fault == 'unparsable':
                files[bp] = broken
            for n, t in files.items():
                open(os.path.join(d, n), 'w').write(t)
            before = {n: hashlib.sha256(open(os.path.join(d, n), 'rb').read()).hexdigest() for n in files}
            pr = subprocess.run([rf, 'main.rs'], capture_output=True, text=True, env=run_env(), timeout=60, cwd=d)
            changed = sorted(n for n in files if hashlib.sha256(open(os.path.join(d, n), 'rb').read()).hexdigest() != before[n])
            if pr.returncode != 1 or changed:
                found.append('%s module in a %s: exit %d (expected 1), rewritten %r (expected none)' % (fault, what, pr.returncode, changed))
    shutil.rmtree(d, ignore_errors=True)
    return {'reproduced': bool(found), 'detail': found[:4]}
