#!/usr/bin/env python3
"""MANIFEST.setup_cmd: verify the tools, pre-build the replay driver and the real binaries, warm the MIR cache.
Everything from disk, offline."""
import os
import shutil
import subprocess
import sys

sys.path.insert(0, os.path.join(os.path.dirname(os.path.abspath(__file__)), 'checks'))
import common  # noqa


def main():
    for tool in ('cvc5', 'z3', 'z3-new', 'cargo', 'rustc'):
        if shutil.which(tool) is None:
            print('missing tool', tool)
            sys.exit(1)
    import z3
    print('z3 python', z3.get_version_string())
    print('sysroot', common.sysroot())
    path, th = common.ensure_mir('lib')
    print('lib MIR', path)
    print('replay driver', common.ensure_replay())
    for kind in ('rustfmt', 'cargo-fmt', 'format-diff'):
        try:
            print(kind, 'MIR', common.ensure_mir(kind)[0])
        except common.Inconclusive as e:
            print('warning:', e)
    print('binaries', common.ensure_bins())


if __name__ == '__main__':
    main()
