#!/bin/bash
# usage: run_some.sh <tier> C17 C18 ...
TIER=$1; shift
for c in "$@"; do
  lc=$(echo $c | tr 'A-Z' 'a-z')
  s=$(date +%s)
  timeout 7200 python3-vt /verif/checks/$lc.py --tier $TIER > /verif/build/runall-$c-$TIER.log 2>&1
  rc=$?
  echo "$c tier=$TIER exit=$rc wall=$(( $(date +%s)-s ))s $(tail -1 /verif/build/runall-$c-$TIER.log | cut -c1-140)"
done
