"""Light-weight facts read from the Rust sources: enum variant order, struct field order,
impl headers at a given span. Used to give names to MIR's positional indices; never to
model behaviour."""
import os
import re


def strip_comments(text):
    out = []
    i = 0
    n = len(text)
    while i < n:
        if text.startswith('//', i):
            j = text.find('\n', i)
            if j < 0:
                break
            i = j
            continue
        if text.startswith('/*', i):
            depth = 1
            i += 2
            while i < n and depth:
                if text.startswith('/*', i):
                    depth += 1
                    i += 2
                elif text.startswith('*/', i):
                    depth -= 1
                    i += 2
                else:
                    i += 1
            continue
        if text[i] == '"':
            j = i + 1
            while j < n:
                if text[j] == '\\':
                    j += 2
                    continue
                if text[j] == '"':
                    break
                j += 1
            out.append(text[i:j + 1])
            i = j + 1
            continue
        out.append(text[i])
        i += 1
    return ''.join(out)


def _match_brace(text, i):
    """text[i] == '{' -> index of matching '}'"""
    depth = 0
    n = len(text)
    while i < n:
        c = text[i]
        if c == '{':
            depth += 1
        elif c == '}':
            depth -= 1
            if depth == 0:
                return i
        i += 1
    return -1


def _split_top(body):
    parts = []
    depth = 0
    cur = []
    for ch in body:
        if ch in '({[<':
            depth += 1
        elif ch in ')}]>':
            depth -= 1
        if ch == ',' and depth == 0:
            parts.append(''.join(cur))
            cur = []
        else:
            cur.append(ch)
    if ''.join(cur).strip():
        parts.append(''.join(cur))
    return parts


class SrcInfo:
    def __init__(self, repo):
        self.repo = repo
        self.enums = {}    # name -> list of (file, [variants])
        self.structs = {}  # name -> list of (file, [(field, type)])
        self._files = {}
        for root in ('src',):
            for dp, dn, fns in os.walk(os.path.join(repo, root)):
                for fn in fns:
                    if fn.endswith('.rs'):
                        p = os.path.join(dp, fn)
                        rel = os.path.relpath(p, repo)
                        try:
                            raw = open(p, encoding='utf-8').read()
                        except Exception:
                            continue
                        self._files[rel] = raw
                        self._scan(rel, strip_comments(raw))

    def _scan(self, rel, text):
        for m in re.finditer(r'\benum\s+([A-Za-z_][A-Za-z0-9_]*)\s*(?:<[^{]*>)?\s*(?:where[^{]*)?\{', text):
            i = m.end() - 1
            j = _match_brace(text, i)
            if j < 0:
                continue
            body = text[i + 1:j]
            variants = []
            for part in _split_top(body):
                p = re.sub(r'#\s*\[[^\]]*\]', '', part)  # attributes (no nested brackets in practice)
                p = p.strip()
                mm = re.match(r'([A-Za-z_][A-Za-z0-9_]*)', p)
                if mm:
                    variants.append(mm.group(1))
            self.enums.setdefault(m.group(1), []).append((rel, variants))
        for m in re.finditer(r'\bstruct\s+([A-Za-z_][A-Za-z0-9_]*)\s*(?:<[^{;(]*>)?\s*(?:where[^{;]*)?\{', text):
            i = m.end() - 1
            j = _match_brace(text, i)
            if j < 0:
                continue
            body = text[i + 1:j]
            fields = []
            for part in _split_top(body):
                p = re.sub(r'#\s*\[[^\]]*\]', '', part).strip()
                mm = re.match(r'(?:pub(?:\([^)]*\))?\s+)?([A-Za-z_][A-Za-z0-9_]*)\s*:\s*(.*)$', p, re.S)
                if mm:
                    fields.append((mm.group(1), ' '.join(mm.group(2).split())))
            self.structs.setdefault(m.group(1), []).append((rel, fields))

    def enum_variants(self, name, file=None):
        c = self.enums.get(name, [])
        if file:
            c2 = [x for x in c if x[0] == file]
            if c2:
                c = c2
        if not c:
            return None
        return c[0][1]

    def struct_fields(self, name, file=None):
        c = self.structs.get(name, [])
        if file:
            c2 = [x for x in c if x[0] == file]
            if c2:
                c = c2
        if not c:
            return None
        return c[0][1]

    def field_index(self, struct, field, file=None):
        f = self.struct_fields(struct, file)
        if f is None:
            raise KeyError('struct %s not found' % struct)
        for i, (n, _) in enumerate(f):
            if n == field:
                return i
        raise KeyError('field %s.%s not found' % (struct, field))

    def span_text(self, file, l1, c1, l2, c2):
        raw = self._files.get(file)
        if raw is None:
            return None
        lines = raw.split('\n')
        if l1 == l2:
            return lines[l1 - 1][c1 - 1:c2 - 1]
        parts = [lines[l1 - 1][c1 - 1:]] + lines[l1:l2 - 1] + [lines[l2 - 1][:c2 - 1]]
        return '\n'.join(parts)

    def impl_info(self, file, l1, c1, l2, c2):
        """-> (trait or None, self type text or None)"""
        t = self.span_text(file, l1, c1, l2, c2)
        if t is None:
            return (None, None)
        t = ' '.join(t.split())
        if t.startswith('impl'):
            t = t[4:].strip()
            if t.startswith('<'):
                # skip generics
                d = 0
                for i, ch in enumerate(t):
                    if ch == '<':
                        d += 1
                    elif ch == '>':
                        d -= 1
                        if d == 0:
                            t = t[i + 1:].strip()
                            break
            if ' for ' in t:
                tr, st = t.split(' for ', 1)
                return (tr.strip(), st.strip())
            return (None, t)
        return (t, None)  # derive: span covers the trait name only
