#!/bin/bash
# usage: seed_run.sh <seed-dir-name> [tier]  -- applies the seeded change to /repo, runs that property's check, reverts
S=$1; TIER=${2:-quick}
PID=${CHECK:-${S%%-*}}
cd /repo || exit 2
if [ -n "$(git status --porcelain)" ]; then echo "/repo not clean"; exit 2; fi
git apply /verif/seeded/$S/patch.diff || { echo "patch failed"; exit 2; }
cd /verif
LC=$(echo $PID | tr 'A-Z' 'a-z')
timeout 3000 python3-vt /verif/checks/$LC.py --tier $TIER > /verif/build/seedrun-$S.log 2>&1
RC=$?
git -C /repo checkout -- .
echo "seed=$S check=$PID tier=$TIER exit=$RC"
grep -E "^(VIOLATION|INCONCLUSIVE|KNOWN-FINDING)" /verif/build/seedrun-$S.log | cut -c1-300 | head -5
tail -1 /verif/build/seedrun-$S.log | cut -c1-200
