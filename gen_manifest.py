#!/usr/bin/env python3
"""Regenerates MANIFEST.json from the table below (kept in one place so that it is always valid)."""
import json
import os
import subprocess

HERE = os.path.dirname(os.path.abspath(__file__))

BASELINE_OFF = ("cd /repo && cargo nextest run --workspace --no-fail-fast --tool-config-file pb:/w/lib/nextest.toml "
                "--profile pb --test-threads 8 --offline || cargo test --workspace --no-fail-fast --offline")

TECH = "bounded symbolic execution of the crate's own MIR (mirsym), obligations decided by SMT solvers (cvc5, z3), counterexamples replayed natively"

CLAIMED = {
    'C17': dict(
        category='model_checking',
        text="Bounded symbolic model checking of the real MIR of Range::{is_empty,contains,intersects,adjacent_to,merge}, normalize_ranges and "
             "FileLines::{contains_line,contains_range,file_range_matches}: every predicate is proved equivalent to set semantics on line sets for all "
             "range values < 2^32 and up to 3 (quick) / 4 (thorough) ranges per file, including inverted, adjacent and overlapping ranges. Also decided, "
             "under-constrained from function entry with the predicates stubbed to the three valuations outside / intersecting / no selection: the entry guards of "
             "FmtVisitor::{visit_item, visit_assoc_item, visit_mac} and of format_stmt (with Local::rewrite_result and format_expr inlined) skip exactly the nodes "
             "outside the selection; and lookup_line_range maps item/statement spans to exactly [line_lo+1, line_hi+1]. The block-tail, reorder and missed-span "
             "uses of the predicate are outside.",
        note="Trusted: rustc MIR printer, mirsym executor (validated against the real functions on unit-test and random vectors each run), "
             "summaries for HashMap::values_mut/get, slice::sort (sorting network over the derived Ord::cmp MIR), Vec/iterator cursors, cvc5/z3. "
             "Bounds: <= 4 ranges, values < 2^32.",
        design='§5 C17'),
}

CLAIMED['C20'] = dict(
    category='model_checking',
    text="The real MIR of FilesWithBackupEmitter::emit_formatted_file is executed symbolically with std::fs::{write,rename,copy,remove_file} as "
         "effect-trace entries returning a symbolic io::Result; the file-system state after every sub-step (write = truncate, then fill; rename atomic) "
         "is a z3 term, the crash point and the failing operation are symbolic variables, and the solver decides on every path: the original is "
         "recoverable from F or F.bk at every instant, F is never partial, a complete run leaves F=formatted and F.bk=original, an unchanged file "
         "causes no operation, and every io error propagates. One rewrite, all crash points, all single failures. Over the real GetOptsOptions::apply_to "
         "(1152 paths) `--backup` without `--check` leaves make_backup = true for every combination of the other flags; create_emitter picks the backup emitter "
         "exactly when make_backup is set (whatever the other options); write_file hands it the text on disk as the original when a newline style is fixed "
         "(kernels shared with C06) - so that protocol is the one that runs, on the right texts.",
    note="Trusted: the stated file-system model (write = create/truncate then fill, rename atomic), Path::with_extension as a constructor giving "
         "three distinct paths, MIR printer, mirsym, cvc5/z3. Counterexamples are replayed with the real `rustfmt --backup` under strace fault "
         "injection (signal/error at the k-th rename) in a scratch directory. Outside: fsync/durability, other processes.",
    design='§5 C20')

CLAIMED['C16'] = dict(
    category='model_checking',
    text="Panic-freedom of the width-arithmetic kernels under the property's 'usable page' precondition: every overflow / division / str-slice / unwrap "
         "assert that rustc put into the MIR of all functions of src/shape.rs (Indent, Shape and their Add/Sub impls) and of the kernels process_comment, "
         "push_vertical_spaces, FormatLines::{new_line,char}, last_line_used_width, FormattedSnippet::unwrap_code_block becomes an obligation decided by "
         "the solver for all max_width 20..200 (thorough 10000), tab_spaces 1..8, arbitrary nesting depth. Sites inside large functions are reached by "
         "under-constrained symbolic execution from the function entry (arbitrary state), which over-approximates and is therefore sound for panic-freedom. "
         "Wide scan: the 172 unchecked usize subtractions of the crate are inventoried by function identity and source text (c16_sites.json, audited); a "
         "subtraction outside the inventory is decided under-constrained and a counterexample replayed on a stress corpus. The byte range that "
         "format_len/annotation hand to the diagnostic renderer lies inside the line and on character boundaries (abstract boundary predicate, std contracts "
         "for rfind/trim_end/char_indices). Containment: Parser::parse_crate (with ParserBuilder::build), Parser::parse_file_as_module, rewrite_macro and "
         "format_snippet are executed with every call into rustc_parse / rewrite_macro_inner / Session::format_input_inner as environment that returns an "
         "arbitrary value or unwinds, and std::panic::catch_unwind as 'run the real closure, an unwind inside becomes Err': no path leaves the entry point "
         "by unwinding and a path on which the guarded code unwound returns the failure value (rewrite_macro also sets macro_rewrite_failure). Diagnostics: every call that consumes a Result<_, Diag> and discards the error (ok, unwrap_or*, "
         "map_or*) is collected from the MIR and its function executed with the parser's answer an arbitrary Ok | Err: the Err case never reaches the "
         "discarding call (an un-emitted Diag panics in its destructor). Stack depth and aborts inside rustc are outside this technique.",
    note="Trusted: MIR printer, mirsym (lazy under-constrained objects; callees outside shape.rs/config/formatting.rs are uninterpreted and havoc their &mut "
         "arguments), all usize quantities assumed < 2^32. Indent - Indent and Indent - usize are caller-contract dependent and listed, not decided. "
         "A solver counterexample is reported only if the real binary panics at the same source line on a generated nested input; containment "
         "counterexamples are replayed with broken literals (root file, standard input, out-of-line module) and with the cfg-guarded fault hook "
         "RUSTFMT_VERIF_FAULT that makes the formatting of one macro call / one snippet panic in the real binary. Defects found and fixed in this area: the root parser was created outside catch_unwind (44be904); parse_expr dropped the parser's "
         "diagnostic (19eeceb); an inventory entry for MacroBranch::rewrite was wrong, the subtraction underflows inside the usable page (19cacc5).",
    design='§5 C16',
    technique="bounded and under-constrained symbolic execution of the crate's own MIR (mirsym), obligations decided by SMT solvers (cvc5, z3), counterexamples replayed natively "
              "(stress corpus, broken literals, cfg-guarded fault hook); an audited inventory of unchecked subtractions bounds what the wide scan has to decide")

CLAIMED['C07'] = dict(
    category='model_checking',
    text="Inductive step over the real MIR of the final line scanner (FormatLines::{new,char,new_line,push_err,should_report_error,is_skipped_line}) "
         "and FormatReport::track_errors: from an arbitrary scanner state satisfying the representation invariant, one char or newline event with "
         "arbitrary character, classifier kind, max_width, tab_spaces, both flags, skipped ranges and an uninterpreted line-selection predicate is "
         "executed symbolically; the solver decides completeness (every reportable line is reported), soundness (no other line, right line number, "
         "found/max values), the unconditional trailing-blank clause, and that the invariant is re-established - so the result holds for texts of any length. "
         "Skipped ranges: push_skipped_with_span records (lo, hi) in output line numbers (source geometry = uninterpreted line_of(pos), output side = the visitor's "
         "own counter); the macro fallback records source lines (known finding).",
    note="Trusted: MIR printer, mirsym (validated each run by pushing concrete texts through the real scanner via the format_lines_scan hook and through the "
         "encoding), the stated reading of 'comment line' / 'contains a string literal' in terms of classifier kinds, sel(n) standing for file_lines "
         "(C17), <= 2 (thorough 3) skipped ranges, all counters < 2^32. Known finding (open): return_macro_parse_failure_fallback records source lines. "
         "Outside: which spans the callers of push_skipped_with_span pass, and the classifier itself.",
    design='§5 C07')

CLAIMED['C06'] = dict(
    category='model_checking',
    text="Symbolic execution of the real MIR of: bin/main.rs::format (exit status = operational | parsing | ((diff | check) & --check) for 0..2 input "
         "files with every environment call uninterpreted), GetOptsOptions::apply_to incl. the real Config::override_value dispatch (--check always "
         "ends with the diff emitter, for any other flag combination and any inline --config pair), create_emitter (a writing emitter exactly for "
         "EmitMode::Files, the backup one exactly with make_backup), every emitter's emit_formatted_file (DiffEmitter.has_diff <=> texts differ; "
         "FilesEmitter writes exactly when they differ, writes the formatted text to the file itself and never reports has_diff; the other five "
         "emitters reach no file-system write on any path; FilesWithBackupEmitter reaches one only if the texts differ), ReportedErrors::add, "
         "Session::handle_formatted_file + FormatReport::add_diff (has_diff accumulates, the other flags untouched) and format_string, the standard-input "
         "twin of format (same exit formula: known finding, --check ignores the diff there). source_file::write_file with file-name kind, newline style, "
         "parse session, fs::read_to_string and get_original_snippet symbolic: with a newline style other than Auto the original handed to the emitter for a real "
         "file is the text on disk (the source map is LF-normalised), else the session's text or the file. Texts are uninterpreted values compared for equality.",
    note="Trusted: MIR printer, mirsym with under-constrained objects, make_diff's contract (empty iff same lines; proved under C12), printing / Display "
         "uninterpreted, frame condition that formatting an input does not assign session.config. Counterexamples are replayed by running the real "
         "binary over a matrix of modes/files/module trees/standard input and comparing exit status, file hashes, mtimes and inodes. Known finding (open): "
         "--check on standard input exits 0 with a diff. Outside: stdin/path text agreement.",
    design='§5 C06')

CLAIMED['C15'] = dict(
    category='other',
    text="The part of C15 that is not 'run the formatter': the only state shared between the inputs of one invocation is Session.errors and "
         "Session.config. Decided on the real MIR: ReportedErrors::add ORs all seven flags; Session::override_config shows the closure the local "
         "config, restores the session's config and touches no other session field; in bin/main.rs::format with 0..2 (thorough 3) files every input "
         "is formatted with its own load_config result (or the session config when a --config-path was resolved), never with an earlier file's, the "
         "error flags an input sees are at least those its predecessor left, the session config is restored after the loop, and the exit status is "
         ">= every per-input status and 1 only if some flag is set - i.e. the maximum of the single-file statuses; Session::handle_formatted_file from an "
         "arbitrary session state hands the formatted text to write_file exactly once, whatever earlier inputs left behind. The byte-level clause is outside.",
    note="Thin kernel, stated as such (level other). Trusted: MIR printer, mirsym, uninterpreted load_config/Session::new/Path probes, frame condition "
         "that formatting an input does not assign session.config and only raises flags. Replay: real binary over permutations of files with "
         "different local configs and a parse failure.",
    design='§5 C15',
    technique="bounded symbolic execution of the binary's and library's MIR (mirsym) with uninterpreted environment; obligations decided by cvc5/z3; CLI replay")

CLAIMED['C14'] = dict(
    category='model_checking',
    text="Decided on the real MIR with a symbolic Config object whose layout is read from the generated getters: Config::set_heuristics / "
         "set_width_heuristics / WidthHeuristics::{scaled,set,null} for every max_width 20..1000 (thorough 10000), every heuristics mode, arbitrary user "
         "overrides and was_set flags (clamp of user values, Max = max_width, documented defaults up to 100, never above max_width, monotone above 100; "
         "f32 arithmetic bit-exact in the solver's FP theory); Config::default_for_possible_style_edition (style_edition > version > edition); the three "
         "deprecated-alias setters; PartialConfig::to_parsed_config (the command line's style_edition / edition / version beat the file's when the base "
         "defaults are chosen); get_toml_path (dotted name wins in one directory, for all file/other/absent/error outcomes of both probes); and, in "
         "bin/main.rs::format, that every input is formatted with the config resolved for it; Config::override_value for every key (the option counts as "
         "set; exactly the keys with a derived meaning - widths, max_width, use_small_heuristics, the three aliases, version - re-derive it).",
    note="Known findings (open, re-derived and replayed every run): Default heuristics exceed max_width below 60/70/35/50, Off yields usize::MAX. Trusted: MIR "
         "printer, mirsym, solver FP theories, uninterpreted default_with_style_edition / fs::metadata / Path::join / canonicalize, ignored eprintln!. "
         "Outside: directory walk and home fallbacks, TOML/getopts parsing, print-config round trip.",
    design='§5 C14')

CLAIMED['C18'] = dict(
    category='other',
    text="Two kernels of cargo-fmt decided on the real MIR of src/cargo-fmt/main.rs: (1) run_rustfmt's aggregation over 0..3 (thorough 4) rustfmt child "
         "processes with symbolic (success, Option<code>) per child and symbolic io failures of spawn/wait: Ok(code) is returned only after every group "
         "ran, and code != 0 exactly when some child failed (including children killed by a signal); (2) Target's PartialEq/PartialOrd/Ord: two targets "
         "are the same element of the BTreeSet exactly when their paths are equal, whatever their kind and edition - which is what makes each file be "
         "passed once; (3) get_targets_root_only over a harness `cargo metadata` result (1..2, thorough 3 packages of two targets, path values uninterpreted, "
         "working directory / its Cargo.toml / workspace root symbolic, the real filter/flat_map/collect closures): the package cargo picks for the working "
         "directory gets all its targets; (4) get_targets_recursive (`--all`) over a harness result of 1 (thorough 2) packages with one dependency each: every "
         "listed package's targets are added, and a dependency is entered exactly when it has a path, was not visited, its Cargo.toml exists and is not the "
         "manifest of a listed package. The hit-list selection and the argument vectors are outside this technique.",
    note="Known finding (open): from a strict subdirectory of a member of a multi-package workspace no target is selected. "
         "Level other. Trusted: MIR printer, mirsym under-constrained mode, std contract success() <=> code() == Some(0), uninterpreted Command building, "
         "PathBuf comparison as equality / total order on uninterpreted values, edition grouping supplied by the harness. Replay: the real cargo-fmt in a "
         "scratch three-edition workspace with a scripted $RUSTFMT stand-in (exit codes 1/3/101, SIGKILL) and a file shared by two editions.",
    design='§5 C18',
    technique="bounded symbolic execution of the cargo-fmt binary's MIR (mirsym) with symbolic child statuses; obligations decided by cvc5/z3; replay with a stand-in rustfmt")

CLAIMED['C19'] = dict(
    category='other',
    text="The plumbing of rustfmt-format-diff, decided on the real MIR of scan_diff and run_rustfmt: for 1..2 (thorough 3) diff lines with every "
         "combination of match outcomes of the two patterns, arbitrary captured texts, an uninterpreted filter predicate and parse::<u32> as a function "
         "of the text, exactly the lines that are hunk headers of a current, filter-matching file with a non-zero count push a range, that range is "
         "[start, start+count-1] (count 1 when absent) for the current file, and each is inserted once; the filter regex is built as ^filter$ and is the "
         "one consulted; run_rustfmt spawns nothing when either set is empty and fails exactly when rustfmt's status is not success or cannot be "
         "obtained. What the two regular expressions capture is environment (regex crate), stated as outside.",
    note="Thin (level other). Trusted: MIR printer, mirsym, regex engine as symbolic environment (capture group 1 mandatory, group 3 optional), "
         "format!/Regex::new observed structurally, numbers < 2^31. Replay: the real binary on a crafted diff with a recording $RUSTFMT stand-in.",
    design='§5 C19',
    technique="bounded symbolic execution of the format-diff binary's MIR (mirsym) with the regex engine as symbolic environment; obligations decided by cvc5/z3; CLI replay")

CLAIMED['C12'] = dict(
    category='model_checking',
    text="make_diff is decided by an inductive step over the real MIR of its loop body, started at the loop head from an arbitrary state satisfying the "
         "representation invariant (cursor positions, context queue = the last lines before the cursor, open hunk ends where the invariant says), for every "
         "context size 0..3, with diff::lines as environment (one symbolic, valid alignment element per step): every line added to a hunk matches both "
         "texts at its walk position, closed hunks are untouched and not overlapped, removed/added lines are recorded, the report is empty iff nothing "
         "changed, the invariant is re-established - hence scripts of any length. ModifiedLines::from, the Display grammar of ModifiedLines (token model of "
         "the formatter output), json begin/end lines and texts, checkstyle line numbers and XmlEscaped (per character) are decided for hunks of <= 3 "
         "(thorough 4) lines with symbolic kinds and uninterpreted texts (json texts as atom lists with an uninterpreted emptiness predicate per line text when "
         "they are not built piecewise).",
    note="Trusted: MIR printer, mirsym (mid-function start via MIR debug info), diff::lines returns a valid alignment, formatting as a token model, iterator "
         "adaptors with real closure MIR. Outside: ModifiedLines::FromStr (str::lines / split_whitespace / parse are not encoded; checked natively only), "
         "serde_json escaping, control characters in XML. Replay/validation: the real functions through hooks on all scripts of length <= 5.",
    design='§5 C12')

CLAIMED['C08'] = dict(
    category='model_checking',
    text="Kernels of the whitespace discipline decided on the real MIR: push_vertical_spaces (the buffer then ends in clamp(count+trailing, lower+1, upper+1) "
         "newlines, never more than upper blank lines, idempotent; all four quantities symbolic), the final-newline truncation of format_lines and "
         "append_newline, Indent::to_string / to_string_with_newline for widths up to 86 columns and tab_spaces 1..8 (= [newline] tabs spaces, no tab "
         "without hard_tabs; both the constant-buffer slice and the string-building path), convert_to_windows_newlines as a per-character step "
         "(every emitted LF preceded by CR, nothing but terminators changes) and as a whole function over symbolic ASCII texts of every length 0..3 (thorough 4) "
         "against 'every LF becomes CR LF, a CR directly before an LF is dropped, nothing else changes', convert_to_unix_newlines = str::replace(CRLF, LF) checked structurally and "
         "its consequence decided in the solver's string theory for strings <= 5 (thorough 8), auto_detect_newline_style = style of the first "
         "terminator of its argument, that argument traced in format_file to rustc's SourceFile.src and composed with the contract src = replace_all(CRLF, LF) "
         "(Auto never selects Windows: known finding), skip_empty_lines (a leading line is skipped iff it is all whitespace), and format_missing_indent from an "
         "empty buffer (nothing is emitted for the leading whitespace of a file, wherever the file starts in the source map).",
    note="Known findings (open): Unix conversion leaves a CRLF for CR CR LF; Auto detects on the newline-normalised source-map text. Trusted: MIR printer, mirsym incl. mid-function start at loop heads, SMT-LIB "
         "str.replace_all as the semantics of str::replace, cursor summaries for Chars/Peekable, trimmed.is_empty() as an uninterpreted all-whitespace "
         "predicate, FormatLines.newline_count = trailing newlines (C07), the str / String / iterator stubs of checks/strmodel.py for the whole-function text "
         "harness (ASCII, forking on the predicate each method needs). Outside: list machinery, copied code, lower > upper.",
    design='§5 C08')

CLAIMED['C09'] = dict(
    category='other',
    text="First half of C09 (2015 = 2018 = 2021), decided where the code can tell style editions apart: the lib MIR is scanned for every comparison call on "
         "StyleEdition (lt/le/gt/ge/eq/ne), every switchInt on a StyleEdition discriminant and all 89 macro-generated style_edition_default bodies. For each "
         "comparison site the constant operand is recovered from the promoted constant and the outcome is computed through the real "
         "<StyleEdition as PartialOrd>::partial_cmp MIR for a symbolic pair of editions inside the class; the solver shows the outcomes equal. A match "
         "that sends the three members to different blocks, or two default paths with different values both reachable inside the class, is a violation. "
         "Second half (identity with the pinned release), three frozen kernels only: Config::default_with_style_edition executed for a symbolic released "
         "style edition (2015..2024) gives, for each of 78 scalar / enum options, the value the pinned release printed (reference/c09_release_defaults.json); "
         "WidthHeuristics::scaled(max_width) equals the release's computation written independently in IEEE binary32 for every max_width 20..10000; "
         "compare_items consults plain string order up to style edition 2021 and version_sort from 2024 on every path (comparators as observed environment, "
         "style edition symbolic through the real partial_cmp). Byte-identity of whole outputs with the pinned release beyond these kernels is outside "
         "solver-based checking and not claimed.",
    note="Level other: non-interference of a 3-element class, decided per decision site. Trusted: MIR printer (promoted constants, call names), mirsym, "
         "rustc_span Edition order = discriminant order. Sites in src/config (conversion, printing, is_default) and derived impls legitimately inspect the "
         "edition; they are listed in evidence, not checked. Replay: the real binary with --style-edition 2015/2018/2021 over tests/source, tests/target, "
         "src and two crafted files; --print-config per edition / per max_width against the frozen table; crafted mod / extern crate lists against the "
         "outputs the pinned release printed (reference/c09_release_ordering.json, frozen once by tools/c09_freeze.py).",
    design='§5 C09',
    technique="solver-decided non-interference per decision site: MIR scan + symbolic execution of the real partial_cmp (mirsym), cvc5/z3; differential obligations against frozen "
              "values of the pinned release (option defaults, scaled widths in IEEE binary32, comparator choice); corpus / print-config replay")

CLAIMED['C11'] = dict(
    category='model_checking',
    text="The style-edition-2024 comparator, on its real MIR: (a) VersionChunkIter::{next,parse_numeric_chunk,parse_str_chunk} over symbolic ASCII "
         "identifiers of every length 0..4 (thorough 6) plus all-digit identifiers of 20 and 21 characters: on every path the chunks partition the "
         "identifier, are maximal, have the right kind, numeric value and leading-zero count; (b) version_sort over harness chunk lists with symbolic "
         "kinds/values/zero counts and uninterpreted texts: antisymmetric, reflexive, Equal only for identical chunk lists (pairs up to 3, thorough 4 "
         "chunks), transitive (triples up to 2, thorough 3 chunks). Together: a total preorder in which only identical identifiers tie, so the sorted "
         "order cannot depend on the input order. (c) every call of a sorting routine in the MIR of reorder.rs and imports.rs is a routine whose documented "
         "contract keeps equal elements in order (two-element model per site; sort_unstable* refuted). (d) ReorderableItemKind::from over an arbitrary item: "
         "#[macro_use] or a skip attribute make it a barrier, two ast kinds never share a reorderable kind; the take_while predicate of "
         "walk_reorderable_or_regroupable_items over arbitrary line ranges: an item joins the run iff it has the run's kind and (when blank lines delimit) "
         "starts at most one line after the previous item ends, and the accepted item becomes the previous one.",
    note="Known finding (open): a digit run >= 2^64 ends the chunk iterator early. Trusted: MIR printer, mirsym, string model for ASCII identifiers of "
         "concrete length, str::cmp as a ground-instantiated total order on chunk texts with digits < letters, zip_longest/EitherOrBoth cursor. Outside: "
         "attachment of comments and attributes to the moved elements (AST), the <= 2021 UseSegment order, compare_items beyond its comparator choice (C09), "
         "permutation -> same text. The sort-site part is a contract audit of call sites, not a proof about std's sort.",
    design='§5 C11',
    technique="bounded symbolic execution of the crate's own MIR (mirsym), obligations decided by SMT solvers (cvc5, z3), counterexamples replayed natively; "
              "for the sort sites: MIR call-site scan with a two-element solver model of each routine's documented contract")

CLAIMED['C03'] = dict(
    category='model_checking',
    text="Text-level kernels of src/comment.rs on their real (generic) MIR: is_raw_string_suffix with a MultiPeek cursor over 4 symbolic look-ahead "
         "characters (true iff the next `count` characters are all '#', count 0..3); changed_comment_content, the lost-comment safety net, with "
         "harness-supplied slice lists (<= 2 slices of symbolic kind per text) and an abstract payload function: it reports a change exactly when the "
         "payload streams of ALL comment slices differ, so no comment slice is exempt from the comparison; CharClasses::next as one step from each "
         "comment-tracking status with symbolic current/look-ahead characters and symbolic nesting depth: /* and // and nothing else start a comment, "
         "nesting is counted, a block comment ends when the depth reaches zero, a line comment ends at the newline, code is never labelled comment; one step "
         "from each literal-tracking status against the lexical grammar of Rust literals (a string runs to the next unescaped quote, an apostrophe opens a "
         "character literal iff a backslash or one character and an apostrophe follow, raw-string sharps are counted up and down, no character of a literal "
         "is labelled comment); "
         "net wiring: on every path (under-constrained, all callees uninterpreted) on which format_stmt, format_expr (956 paths) or rewrite_static returns a "
         "text, that text went through recover_comment_removed or is the verbatim source snippet.",
    note="Trusted: MIR printer, mirsym, itertools MultiPeek cursor semantics, tracing disabled, payload(text) abstract (CommentReducer itself is not "
         "encoded), lazy iterator adaptors with the real closure MIR. Outside: rewriters other than the three the anchors name, list machinery, close_block, "
         "rewrite_comment, whole-text agreement of the segmentation with the Rust lexer (one step per status is decided). Replay: real binary on crafted sources, "
         "each comment word must appear exactly once.",
    design='§5 C03')

GATE_TECH = "bounded symbolic execution of the crate's MIR (mirsym, under-constrained objects, parsing / resolution / per-file formatting as symbolic environment); path-trace obligations decided by cvc5/z3; CLI replay"

CLAIMED['C05'] = dict(
    category='other',
    text="Thin kernel of C05: the order of events in formatting.rs::format_project, decided on its real MIR (with should_skip_module and the closures between "
         "them) for a path input and for standard input and 0..2 (thorough 3) modules returned by the resolver, with ParseSess::new, Parser::parse_crate, "
         "ModResolver::visit_crate and FormatContext::format_file as symbolic Ok/Err environment: no file is handed to format_file unless session, parse "
         "and resolution all succeeded before; a parse error is recorded in the report and ends the run with nothing formatted; a resolution error or a "
         "format_file error is returned as Err (never swallowed); every format_file call pairs a path with its own module. Emitter kernel: one step of SilentOnIgnoredFilesEmitter::emit_diagnostic from an "
         "arbitrary state (a non-ignorable error was seen / errors may be reset, invariant seen => not resettable) with the diagnostic's level and 'its file is "
         "ignored' symbolic: a non-fatal diagnostic of an ignored file is swallowed and leaves the state alone, every other one is forwarded exactly once, "
         "recorded, and forbids the reset. Version gate: Session::format_input_inner from an arbitrary session state with "
         "version_meets_requirement symbolic - a mismatch is Err(VersionMismatch) with nothing formatted or echoed. Module files: parse_file_as_module with "
         "rustc_parse returning or unwinding and Path::exists symbolic - an existing file that fails is ParseError; find_external_module over its symbolic "
         "environment - a module that cannot be located or whose file fails to parse is an error (resolver kernels shared with C13). Which inputs fail to parse or "
         "resolve, config/version errors raised earlier, and what format_file writes (C06) are outside.",
    note="Level other, stated as thin: it decides the gate, not the parser. Trusted: MIR printer, mirsym under-constrained mode, the environment contract above. "
         "Replay: the real binary on module trees with a syntax error / a missing module / a failing root next to a good one, file hashes and exit status, and an "
         "open-for-writing failure injected with strace.",
    design='§5 C04, C05, C13', technique=GATE_TECH)

CLAIMED['C13'] = dict(
    category='other',
    text="Thin kernel of C13: which of the files the module resolver returns are formatted, decided on the real MIR of format_project + should_skip_module: for a "
         "path input exactly the modules without skip attribute, not excluded by skip_children (non-root), not matched by `ignore`, and not generated when "
         "format_generated_files is off - each once, in the resolver's order, each path with its own module; for standard input every returned module (the "
         "skip attribute echoes the input instead); the resolver is told to recurse exactly for a path input without skip_children; skip_children with an "
         "ignored main file formats nothing. Resolver kernels: ParseSess::default_submod_path (nested location first; a second lookup in the own directory "
         "exactly for a missing file at the nested location; the fallback answers with its file or with the first error, so an ambiguous location stays an "
         "error); ModResolver::find_external_module for {#[path], by name} x {0, 1 cfg_attr(path) alternatives} over a symbolic environment (a #[path] "
         "replaces the lookup by name, a file already parsed is not parsed again, a module that cannot be located or parsed is an error, an inner skip "
         "attribute leaves the file out); ModResolver::visit_sub_mod with peek_sub_mod inlined (a skipped mod item is neither looked up nor walked, a "
         "declaration is looked up, what is found is entered and walked, the directory is restored after the walk). The cfg_if! / cfg_match! visitors, the "
         "directory bookkeeping of inline modules, #[path] parsing and rustc_expand itself are outside.",
    note="Level other, stated as thin. Trusted: MIR printer, mirsym, contains_skip / ignore_file / is_generated_file as symbolic predicates per module, the "
         "resolver's result as a harness list with module 0 = the root. Replay: the real binary on a module tree (nested module, unrelated file, generated "
         "file, inner skip attribute, ignore list, skip_children, standard input), comparing which files were rewritten.",
    design='§5 C04, C05, C13', technique=GATE_TECH)

CLAIMED['C04'] = dict(
    category='other',
    text="Thin kernels of C04: (1) utils.rs::{is_skip, is_skip_nested, contains_skip} on their real MIR with rustc_ast's MetaItem as an under-constrained "
         "object: a word attribute is a skip attribute iff its printed path is `rustfmt::skip` or `rustfmt_skip`, a list attribute iff it is cfg_attr and some entry after its predicate is a skip item "
         "(list lengths 0..3), nothing else; a list of attributes contains a skip iff one of its parsable attributes is one. "
         "(2) format_project never hands a module carrying the skip attribute to format_file (path input) and echoes standard input back instead. "
         "(3) Session::format_input_inner reaches format_project only when disable_all_formatting is off (standard input is echoed, a path yields an empty "
         "report). (4) is_generated_file over up to 4 lines with the marker predicate symbolic per line: true iff one of the first "
         "generated_marker_line_search_limit lines carries the marker (when the function is not written as lines / take / any: the whole function over symbolic "
         "texts of up to 4 (thorough 5) characters with the marker as one reserved character). (5) ModResolver::visit_sub_mod with peek_sub_mod inlined: a `mod` item carrying a "
         "skip attribute is neither looked up, entered in the file map nor walked. The visitors and rewriters that copy the span of a skipped item / statement / expression / field / arm, skip::macros and "
         "skip::attributes are AST code and outside.",
    note="Level other, stated as thin. Trusted: MIR printer, mirsym under-constrained objects for rustc_ast types (unconstrained discriminants, lazily "
         "materialised payloads), pprust::path_to_string / has_name / ThinVec::len as symbolic environment. Replay: the real binary on items under each "
         "spelling of the attribute (and near misses), files with an inner skip attribute, disable_all_formatting for a path, standard input and --check.",
    design='§5 C04, C05, C13', technique=GATE_TECH)

NA = {
    'C01': "token-sequence equivalence over all programs requires symbolic execution of rustc_parse and ~30 kLoC of AST rewriters; no encodable kernel carries it",
    'C02': "fixed-point of the full formatting pipeline (parser + all rewriters on both sides); not encodable, and idempotence of kernels does not imply it",
    'C10': "recursive heap-allocated UseTree structures with std sort/hash/unique; beyond both engines at any bound that reaches the interesting shapes",
}

PENDING = "check under construction in this round (design in DESIGN.md §5); not claimed until its encoder is validated against the real code"

ALL = ['C%02d' % i for i in range(1, 21)]


def main():
    hooks_commits = subprocess.run(['git', '-C', '/repo', 'log', '--format=%h %s', '--grep', 'verif hooks'], capture_output=True, text=True).stdout.strip().split('\n')
    checks = []
    for pid in sorted(CLAIMED):
        c = CLAIMED[pid]
        script = 'checks/%s.py' % pid.lower()
        checks.append({
            'property_id': pid,
            'quick_cmd': 'python3-vt /verif/%s --tier quick' % script,
            'thorough_cmd': 'python3-vt /verif/%s --tier thorough' % script,
            'evidence_file': '/verif/evidence/%s.json' % pid,
            'replay_cmd_template': 'python3-vt /verif/replay_cex.py {path}',
            'engine': 'mirsym',
            'level_claimed': {'category': c['category'], 'text': c['text'], 'design_ref': c['design']},
            'level_note': c['note'],
            'technique': c.get('technique', TECH),
        })
    na = []
    for pid in ALL:
        if pid in CLAIMED:
            continue
        na.append({'property_id': pid, 'reason': NA.get(pid, PENDING)})
    man = {
        'version': 1,
        'setup_cmd': 'python3-vt /verif/setup.py',
        'hooks': {
            'guard': 'rust_lang_rustfmt_verif',
            'enable': 'RUSTFLAGS="--cfg rust_lang_rustfmt_verif" (set by the checks for the MIR dump, the replay driver /verif/replay and the binaries they build under /verif/build/target)',
            'baseline_off_cmd': BASELINE_OFF,
            'source_commits': [x for x in hooks_commits if x],
            'add_only': True,
        },
        'engines': [
            {'name': 'mirsym', 'path': '/verif/mirsym', 'serves_properties': sorted(CLAIMED),
             'kind_free_text': 'symbolic executor for rustc MIR text (regenerated from /repo on every run) producing SMT-LIB2 obligations for cvc5/z3; native replay through /verif/replay'},
        ],
        'checks': checks,
        'not_applicable': na,
        'notes': 'Solver-based checking of the real code only. Exit 0 held within stated bounds, 1 VIOLATION (replayed natively), 2 INCONCLUSIVE. See DESIGN.md.',
    }
    with open(os.path.join(HERE, 'MANIFEST.json'), 'w') as f:
        json.dump(man, f, indent=1)
    print('wrote MANIFEST.json with', len(checks), 'checks,', len(na), 'not applicable')


if __name__ == '__main__':
    main()
