#!/usr/bin/env python3
"""replay_cmd_template target: shows a recorded counterexample and re-runs the owning check on /repo's current tree.
Exit 1 if the check still reports a VIOLATION, 0 if it no longer does."""
import json
import os
import subprocess
import sys


def main():
    path = sys.argv[1]
    d = json.load(open(path))
    print('property  :', d.get('property'))
    print('obligation:', d.get('obligation'))
    print('model     :', json.dumps(d.get('model'))[:2000])
    print('replay    :', json.dumps(d.get('replay'))[:4000])
    pid = d['property']
    here = os.path.dirname(os.path.abspath(__file__))
    r = subprocess.run(['python3-vt', os.path.join(here, 'checks', pid.lower() + '.py'), '--tier', 'quick'])
    sys.exit(1 if r.returncode == 1 else 0 if r.returncode == 0 else 2)


if __name__ == '__main__':
    main()
