#!/usr/bin/env python3
"""mirfn.py <kind> <name-regex> [full]  -- print the (simplified) MIR of matching functions from the current dump"""
import os, re, sys
sys.path.insert(0, os.path.join(os.path.dirname(os.path.abspath(__file__)), '..', 'checks'))
from common import ensure_mir
kind, rx = sys.argv[1], re.compile(sys.argv[2])
full = len(sys.argv) > 3
path, _ = ensure_mir(kind)
lines = open(path, encoding='utf-8', errors='replace').read().split('\n')
i = 0
n = 0
while i < len(lines):
    ln = lines[i]
    if ln.startswith('fn ') and rx.search(ln):
        n += 1
        j = i
        while lines[j] != '}':
            t = re.sub(r'\s*// (return place )?(in )?scope.*$', '', lines[j])
            if t.strip().startswith('//'):
                j += 1
                continue
            if full or re.search(r'^fn |debug |-> \[return|-> unwind|switchInt|^    bb|assert\(', t):
                print(t[:260])
            j += 1
        i = j
        if n >= 3:
            break
    i += 1
